"""C17 - retries are bounded; exhausted retries fail the workflow; without a rollback failure manager the first
failure fails the workflow (module Recovery).

Model: specs/Recovery/Recovery.tla (jobs, phases, data instances, recovery frames).  TLC enumerates, in the
initial state, every failure plan within the tier's bounds x every max_retries value x both failure managers
and checks on the complete state graph: VersionBound, ExecBound (no (job, phase) is attempted more than
max_retries times), ExhaustedRaises (a reached (job, phase) failing >= max_retries times makes the run raise;
any failure does with the dummy manager), DummyFirstFailure, and - with fairness - Terminates (no livelock).
Binding: the terminal state of every plan is emitted; the chosen plans are executed on the REAL engine
(StreamFlowExecutor + RollbackFailureManager(max_retries, retry_delay 0) / DummyFailureManager, harness
injectors of vh.sut.recov) and compared: executor raise/return, attempts of every phase of every job, rows of
the `execution` table, RecoveryRequest.version; a watchdog expiry is a violation because the model proves
termination.
"""
from __future__ import annotations

import json

from vh.sut import recov_model as rm

LEVEL = "model_checking"


def _specs(ctx):
    q = ctx.quick
    return [
        ("pipe1", dict(limits=[1, 2, 3, 4, 5], managers=[False, True], maxpairs=1 if q else 2, maxtimes=7)),
        ("pipe2", dict(limits=[1, 2, 3], managers=[False, True], maxpairs=1 if q else 2, maxtimes=5 if q else 4)),
        ("scat2", dict(limits=[1, 2, 3], managers=[False] if q else [False, True], maxpairs=1, maxtimes=4 if q else 5)),
    ] + ([] if q else [("pipe3", dict(limits=[2, 3], managers=[False], maxpairs=2, maxtimes=4))])


def _pick(ctx, preds):
    """The plans bound to the real engine: all interesting counts around the limit for the single job, samples
    elsewhere."""
    rng = ctx.rng("plans")
    chosen = []
    for shape, d in preds.items():
        keys = sorted(d)
        if shape == "pipe1":
            def near(k):
                r = d[k][0]
                if not r["plan"]:
                    return True
                if r["dummy"]:
                    return r["limit"] == 3 and all(int(v[0]) <= (1 if ctx.quick else 2) for v in r["plan"].values())
                return all(r["limit"] - 1 <= int(v[0]) <= r["limit"] + (1 if ctx.quick else 2) for v in r["plan"].values())
            ks = [k for k in keys if near(k)]
            if ctx.quick:
                # every (limit, phase, count-vs-limit) once, kinds alternating
                ks = [k for i, k in enumerate(ks) if len(d[k][0]["plan"]) <= 1 and (d[k][0]["dummy"] or i % 2 == 0 or d[k][0]["limit"] in (1, 5))]
            else:
                rng.shuffle(ks)
                ks = ks[:420]
        else:
            ks = list(keys)
            rng.shuffle(ks)
            ks = ks[:ctx.pick(16, 300 if shape != "pipe3" else 150)]
        chosen += [(shape, k) for k in ks]
    return chosen


def check_case(ctx, case):
    """Verdicts of C17 on one real run."""
    sig = case["sig"]
    mgr = "dummy" if case["dummy"] else "rollback"
    det = {k: case.get(k) for k in ("shape", "plan", "limit", "dummy", "serial", "seed")}
    if case["hang"]:
        ctx.violation("c17:hang:%s:%s" % (mgr, sig), det, "the run did not end within the watchdog; the model proves that every run returns or raises")
        return False
    o, rec = case["o"], case["rec"]
    det.update({"observed": o, "error": case["error"]})
    good = True
    lim = case["limit"]
    for x in sorted(o["attempts"]):
        worst = max(max(o["attempts"][x].values()), o["rows"].get(x, 0))
        if not case["dummy"] and worst > lim:
            ctx.violation("c17:bound:executions>limit:%s:%s" % (mgr, sig), dict(det, job=x), "job %s was attempted %d times with max_retries=%d" % (x, worst, lim))
            good = False
        if not case["dummy"] and o["version"][x] > lim:
            ctx.violation("c17:bound:version>limit:%s:%s" % (mgr, sig), dict(det, job=x), "RecoveryRequest.version of %s is %d > max_retries=%d" % (x, o["version"][x], lim))
            good = False
        if case["dummy"] and worst > 1 and o["outcome"] == "raised":
            ctx.violation("c17:dummy:retried:%s" % sig, dict(det, job=x), "dummy failure manager: job %s attempted %d times" % (x, worst))
            good = False
    if rec is None and case["stale"] and case["model_outcomes"] == [o["outcome"]]:
        # the stale-JobToken deviation (extra roll-backs, listed under C18/C16): bounds and outcome were checked above
        ctx.count("stale_jobtoken_deviation(bounds and outcome hold; reported by C18)")
        return good
    if rec is None:
        ctx.violation("c17:schedule-not-in-model:%s:%s" % (mgr, sig), dict(det, why=case["why"]), case["why"])
        return False
    det["model"] = {k: rec[k] for k in ("outcome", "attempts", "version", "hist")}
    if rec["outcome"] != o["outcome"]:
        ctx.violation("c17:outcome:%s->%s:%s:%s" % (rec["outcome"], o["outcome"], mgr, sig), det,
                      "the model says the run must %s, the executor %s (%s)" % (
                          "raise" if rec["outcome"] == "raised" else "return", "raised" if o["outcome"] == "raised" else "returned", case["error"]))
        return False
    d = rm.diff(rec, o)
    if d and case["stale"]:
        ctx.count("stale_jobtoken_deviation(bounds and outcome hold; reported by C18)")
    elif d:
        ctx.violation("c17:%s:%s:%s" % (d[0][0].split(":")[0], mgr, sig), dict(det, diff=d),
                      "execution counts differ from the model: %s" % d[:4])
        good = False
    return good


def run(ctx):
    ctx.rule = ("TLC enumerates every failure plan within the bounds (<=k failing (job,phase) pairs x counts 0..limit+2 x soft/fail-stop) "
                "x max_retries 1..5 (1..3 in shapes) x {rollback, dummy}; the chosen plans run on the real engine; a case is non-trivial "
                "when at least one failure is injected")
    preds = rm.model_runs(ctx, _specs(ctx), live=True)      # invariants + liveness (Terminates) + emission in one run per shape
    chosen = _pick(ctx, preds)
    n_raise = n_done = 0
    for i, (shape, k) in enumerate(chosen):
        recs = preds[shape][k]
        case = rm.run_case(ctx, shape, recs, serial=shape.startswith("scat"), seed=ctx.seed * 100003 + i, timeout=90)
        ctx.case((shape, k), nontrivial=bool(recs[0]["plan"]))
        ctx.impl_trace(1)
        check_case(ctx, case)
        if case["hang"]:
            ctx.count("hangs")
            if ctx.counters["hangs"] >= 8:
                ctx.count("aborted_after_8_hangs(remaining plans not run)")
                break
        oc = recs[0]["outcome"]
        n_raise += oc == "raised"
        n_done += oc == "done"
        ctx.count("real:%s:%s" % (shape, "dummy" if recs[0]["dummy"] else "limit=%d" % recs[0]["limit"]))
        if i in (3, 11, 40):
            ctx.sample({"shape": shape, "plan": recs[0]["plan"], "limit": recs[0]["limit"], "dummy": recs[0]["dummy"],
                        "model": recs[0]["outcome"], "real": None if case["hang"] else case["o"]["outcome"],
                        "attempts": None if case["hang"] else case["o"]["attempts"]})
    ctx.count("plans_expected_to_raise", n_raise)
    ctx.count("plans_expected_to_return", n_done)
    ctx.require(n_raise >= 10 and n_done >= 10, "vacuous selection: %d raising / %d returning plans" % (n_raise, n_done))
    ctx.exhaustive = False
    ctx.assumptions += ["one volatile local deployment; failures are injected by harness-owned Command/ScheduleStep/TransferStep subclasses",
                        "scatter shapes run under the sequential schedule discipline of the model (vh.sut.recov.Serializer)",
                        "RecoveryRequest.version is compared exactly on returning runs and only against the bound on raising runs"]


def replay(ctx, data):
    d = data["detail"]
    shape = d["shape"]
    plan = d.get("plan") or {}
    mt = max([int(v[0]) for v in plan.values()] or [1])
    preds = rm.model_runs(ctx, [(shape, dict(limits=[d["limit"]], managers=[bool(d["dummy"])], maxpairs=max(1, len(plan)), maxtimes=mt))])
    k = rm.plan_key(plan) + "@%s%s" % (d["limit"], "D" if d["dummy"] else "")
    ctx.require(k in preds[shape], "replay: plan not generated by the model: %s" % k)
    case = rm.run_case(ctx, shape, preds[shape][k], serial=bool(d.get("serial")), seed=d.get("seed", 0))
    check_case(ctx, case)
    print(json.dumps({"replayed": k, "hang": case["hang"], "observed": case.get("o")})[:600])
