"""C03 - ports deliver every token to every consumer exactly once, in order (module Port).

Model: specs/Port/Port.tla transcribes Port.put/get/_init_consumer/close, FilterTokenPort.put and
InterWorkflowPort.put/add_inter_port/_execute_boundary_action; TLC checks I1-I4 (+ liveness L) on the complete
state graph of every scenario of MC_Port (plain, filter, inter-workflow ports targeting plain / inter / filter
ports), with the ghost histories in the fingerprint.
Binding (B-edge): Gen_Port emits, for every transition of the complete concrete state graph of the small
configurations (and for every generated successor along simulated behaviours of the large ones), the action
path from Init and the target state.  The paths are organised in a trie; every maximal path is replayed on
REAL port objects (Port/JobPort/ConnectorPort, FilterTokenPort, InterWorkflowPort/InterWorkflowJobPort created
in real Workflow objects of a real StreamFlowContext) with one eagerly started asyncio task per consumer get;
after every action the projection of the real objects (token_list, queue contents, received sequences,
pending gets, remaining boundary tags, empty()) is compared with the target state of the transition, and the
statement's state properties are evaluated on the real objects by object identity.
The designated configuration with SelfReplay=TRUE (add_inter_port of a self-targeting rule on a port that already
holds tokens) is model checked with every invariant and its complete graph is replayed too: the repaired
add_inter_port does not enqueue the replayed token a second time; a real port that does is reported with the
signature port:InterWorkflowPort:add_inter_port:self-target-replay:double-enqueue.
"""
from __future__ import annotations

import asyncio
import json
import os

from .. import aio
from ..tlc import MachineryError

LEVEL = "model_checking"

INVARIANTS = ["TypeOK", "DeliveredIsPrefix", "NothingLostOrDuplicated", "PlainKeepsEverything",
              "FilterAdmitsExactly", "RuleFiresExactlyWhenComplete", "TargetReceivesWhatRulesSend",
              "InterHoldsExactlyWhatRulesAdmit", "NoDoubleEnqueue", "RemainingTagsAgree", "PendingConsistent"]
ACTION_PROPS = ["BlockedGetNeedsPut", "CloseIsNeutral"]

# name -> constants.  scn, cons, tags, puts (environment puts incl. terminations), term, rules, closes,
# admit (filter predicate), rts (RuleTagSel), putsel, getsel
CONFIGS = {
    # exhaustive model checking
    "plain_q":   dict(scn="plain1", cons=3, tags="a", puts=4, term=2, rules=0, closes=1),
    "plain_t":   dict(scn="plain1", cons=4, tags="a", puts=4, term=2, rules=0, closes=1),
    "plain5_t":  dict(scn="plain1", cons=2, tags="ab", puts=5, term=2, rules=0, closes=1),
    "filter_q":  dict(scn="filter1", cons=2, tags="ab", admit="a", puts=4, term=1, rules=0, closes=1),
    "filter_t":  dict(scn="filter1", cons=2, tags="abc", admit="ac", puts=4, term=1, rules=0, closes=1),
    "interp_q":  dict(scn="inter_plain", cons=1, tags="ab", puts=3, term=1, rules=1, closes=0, rts="small"),
    "interp2_q": dict(scn="inter_plain", cons=1, tags="ab", puts=2, term=0, rules=2, closes=0, rts="small", getsel="first"),
    "interp_t":  dict(scn="inter_plain", cons=1, tags="ab", puts=3, term=0, rules=2, closes=0, rts="small", getsel="first"),
    "interp3_t": dict(scn="inter_plain", cons=1, tags="abc", puts=3, term=1, rules=1, closes=0, rts="mid", getsel="first"),
    "interi_t":  dict(scn="inter_inter", cons=1, tags="ab", puts=3, term=0, rules=2, closes=0, rts="small", getsel="second"),
    "interf_t":  dict(scn="inter_filter", cons=1, tags="ab", admit="b", puts=3, term=0, rules=2, closes=0, rts="small", getsel="second"),
    # liveness (no symmetry)
    "live_q":    dict(scn="plain1", cons=2, tags="a", puts=3, term=1, rules=0, closes=0),
    "live_t":    dict(scn="inter_plain", cons=1, tags="ab", puts=3, term=1, rules=1, closes=0, rts="small"),
    # generation, exhaustive (complete concrete state graph, every transition replayed)
    "g_plain":   dict(scn="plain1", cons=2, tags="a", puts=4, term=2, rules=0, closes=1),
    "g_filter":  dict(scn="filter1", cons=1, tags="ab", admit="a", puts=4, term=1, rules=0, closes=1),
    "g_interp":  dict(scn="inter_plain", cons=1, tags="ab", puts=2, term=0, rules=2, closes=0, rts="small"),
    "g_plain_t": dict(scn="plain1", cons=3, tags="a", puts=4, term=1, rules=0, closes=1),
    "g_interp_t": dict(scn="inter_plain", cons=1, tags="ab", puts=3, term=1, rules=2, closes=0, rts="small", getsel="second"),
    "g_interi_t": dict(scn="inter_inter", cons=1, tags="ab", puts=3, term=0, rules=2, closes=0, rts="small", getsel="second"),
    "g_interp2_t": dict(scn="inter_plain", cons=1, tags="ab", puts=3, term=0, rules=2, closes=0, rts="small", getsel="first"),
    "g_interf_t": dict(scn="inter_filter", cons=1, tags="ab", admit="b", puts=3, term=0, rules=2, closes=0, rts="small", getsel="second"),
    # generation by simulation (the enumeration of the design: <=5 puts, 3 tags, 4 consumers, <=2 rules)
    "s_plain":   dict(scn="plain1", cons=4, tags="abc", puts=5, term=2, rules=0, closes=2),
    "s_filter":  dict(scn="filter1", cons=3, tags="abc", admit="ac", puts=5, term=2, rules=0, closes=1),
    "s_interp":  dict(scn="inter_plain", cons=2, tags="abc", puts=5, term=1, rules=2, closes=1, rts="full", putsel="all"),
    "s_interi":  dict(scn="inter_inter", cons=2, tags="abc", puts=5, term=1, rules=2, closes=1, rts="mid", putsel="all"),
    "s_interf":  dict(scn="inter_filter", cons=2, tags="abc", admit="ab", puts=5, term=1, rules=2, closes=1, rts="mid", putsel="all"),
    # the environment the engine does not obviously exclude: self-targeting rule added to a non-empty port
    # (model checked with every invariant AND generated + replayed: see _self_replay_finding)
    "selfreplay": dict(scn="inter_plain", cons=1, tags="ab", puts=2, term=0, rules=2, closes=0, rts="small", selfreplay=True, getsel="first"),
}


def _sset(xs):
    return "{" + ", ".join('"%s"' % x for x in xs) + "}"


def consumers_of(k):
    return ["c%d" % i for i in range(1, k["cons"] + 1)]


def cfg_text(k: dict, mode: str) -> str:
    """mode: mc (safety, symmetric consumers) | live | gen | gencheck (gen + one invariant, for counterexample paths)"""
    sym = mode == "mc" and k["cons"] >= 2
    cons = consumers_of(k)
    c = "CONSTANTS\n  Scn = \"%s\"  AdmitTags = %s  RuleTagSel = \"%s\"  PutSel = \"%s\"  GetSel = \"%s\"\n" % (
        k["scn"], _sset(k.get("admit", "")), k.get("rts", "one"), k.get("putsel", "first"), k.get("getsel", "all"))
    c += "  Ports <- ScnPorts  Kind <- ScnKind  Admit <- ScnAdmit  RuleTargets <- ScnTargets\n"
    c += "  PutPorts <- ScnPutPorts  GetPorts <- ScnGetPorts  RuleTags <- ScnRuleTags  RuleActs <- ScnRuleActs\n"
    c += "  Consumers = %s\n" % ("{" + ", ".join(cons) + "}" if sym else _sset(cons))
    c += "  Tags = %s\n  MaxPuts = %d  MaxTerm = %d  MaxRules = %d  MaxCloses = %d\n  SelfReplay = %s\n" % (
        _sset(k["tags"]), k["puts"], k["term"], k["rules"], k["closes"], "TRUE" if k.get("selfreplay") else "FALSE")
    if mode == "mc":
        c += "INIT Init\nNEXT Next\n" + ("SYMMETRY ConsumerSym\n" if sym else "")
        c += "".join("INVARIANT %s\n" % i for i in INVARIANTS) + "".join("PROPERTY %s\n" % p for p in ACTION_PROPS)
    elif mode == "live":
        c += "SPECIFICATION FairSpec\nPROPERTY EventuallyEverythingDelivered\n"
    elif mode == "gen":
        c += "INIT GenInit\nNEXT GenNext\nVIEW GenView\n"
    elif mode == "gencheck":
        c += "INIT GenInit\nNEXT GenNextQuiet\nVIEW GenView\nINVARIANT NoDoubleEnqueue\n"
    else:
        raise ValueError(mode)
    return c


def write_cfgs(dst=None):
    """Static copies of the configurations (for running TLC by hand); the driver generates the same text."""
    from ..tlc import SPECS
    dst = dst or os.path.join(SPECS, "Port")
    for name, k in CONFIGS.items():
        if name.startswith(("g_", "s_")):
            fn, mode = "Gen_Port_%s.cfg" % name, "gen"
        elif name.startswith("live"):
            fn, mode = "Live_Port_%s.cfg" % name, "live"
        elif name == "selfreplay":
            with open(os.path.join(dst, "MC_Port_selfreplay.cfg"), "w") as f:
                f.write(cfg_text(k, "mc"))
            fn, mode = "Gen_Port_selfreplay.cfg", "gen"
        else:
            fn, mode = "MC_Port_%s.cfg" % name, "mc"
        with open(os.path.join(dst, fn), "w") as f:
            f.write(cfg_text(k, mode))


# ---------------------------------------------------------------------------------------------------
# replay on the real ports
# ---------------------------------------------------------------------------------------------------

def _akey(a):
    return "%s|%s|%s|%s|%s|%s|%d%d" % (a["op"], a["p"], a["c"], a["tag"], a["x"], ",".join(a["tags"] or []),
                                        1 if a["prop"] else 0, 1 if a["term"] else 0)


class Trie:
    __slots__ = ("root", "n")

    def __init__(self):
        self.root = {"ch": {}, "exp": None, "act": None, "done": False}
        self.n = 0

    def add(self, path, to):
        node = self.root
        for a in path:
            k = _akey(a)
            nxt = node["ch"].get(k)
            if nxt is None:
                nxt = node["ch"][k] = {"ch": {}, "exp": None, "act": a, "done": False}
            node = nxt
        if node["exp"] is None:
            node["exp"] = to
            self.n += 1

    def maximal_paths(self):
        """Every root-to-leaf node list (iterative DFS)."""
        stack = [(self.root, [])]
        while stack:
            node, acc = stack.pop()
            if not node["ch"]:
                if acc:
                    yield acc
                continue
            for k in sorted(node["ch"], reverse=True):
                ch = node["ch"][k]
                stack.append((ch, acc + [ch]))


def _diff(got, exp):
    """First differing field (in a fixed order) between two projections, or None."""
    for f in ("tl", "empty", "subs", "q", "dl", "pd", "rules"):
        if f == "q":
            for p in exp["q"]:
                for c in exp["q"][p]:
                    g, e = got["q"][p][c], exp["q"][p][c]
                    if g and g[0].get("id") == -1:       # sizes only
                        if len(g) != len(e):
                            return "qsize", p, c, len(g), len(e)
                    elif g != e:
                        return "q", p, c, g, e
            continue
        if got[f] != exp[f]:
            for p in exp[f]:
                if got[f].get(p) != exp[f][p]:
                    if isinstance(exp[f][p], dict):
                        for c in exp[f][p]:
                            if got[f][p].get(c) != exp[f][p][c]:
                                return f, p, c, got[f][p].get(c), exp[f][p][c]
                    return f, p, "", got[f].get(p), exp[f][p]
    return None


FIELD_WHAT = {
    "tl": "token_list", "empty": "empty()", "subs": "set of subscribed consumers", "q": "contents of the consumer queue",
    "qsize": "size of the consumer queue", "dl": "sequence of tokens returned by get", "pd": "completion of the outstanding get",
    "rules": "boundary rules (target, action, remaining tags)",
}


async def _replay_nodes(ctx, sfctx, k, nodes, label, stats):
    """Replay one maximal path (list of trie nodes) from Init; compare after every action."""
    from ..sut import port_world as pw
    cons = consumers_of(k)
    pathkey = "/".join(_akey(n["act"]) for n in nodes)
    world = pw.World(sfctx, k["scn"], cons, list(k.get("admit", "")), variant=pw.variant_of(pathkey))
    ports = sorted(world.ports)
    ok = True
    try:
        for depth, node in enumerate(nodes):
            act = node["act"]
            raised = await world.apply(act)
            stats["actions"] += 1
            if node["exp"] is None or node["done"]:
                if raised is None:
                    continue
            got = world.project()
            exp = pw.expected_projection(node["exp"], ports, cons) if node["exp"] is not None else None
            cls = world.class_of(act["p"]) if act["p"] else "-"
            prefix = [n["act"] for n in nodes[:depth + 1]]
            detail = {"config": label, "constants": k, "path": prefix, "class": cls, "variant": world.variant}
            if raised is not None:
                ctx.violation("port:%s:%s:%s" % (cls, act["op"], raised),
                              dict(detail, got=got, expected=exp, exception=repr(world.last_exc)),
                              "%s.%s raised %r after %d model actions; the specification has no exception here" % (
                                  cls, act["op"], world.last_exc, depth))
                ok = False
                break
            d = _diff(got, exp)
            if d is not None:
                f, p, c, g, e = d
                ctx.violation("port:%s:%s:%s" % (world.class_of(p), act["op"], f),
                              dict(detail, field=f, port=p, consumer=c, got=g, expected=e, got_state=got, expected_state=exp),
                              "after %s on %s: %s of %s%s is %s, the specification says %s" % (
                                  _akey(act), cls, FIELD_WHAT.get(f, f), p, ("/" + c) if c else "", json.dumps(g), json.dumps(e)))
                ok = False
                break
            bad = world.real_state_properties()
            if bad:
                clause, p, info = bad[0]
                ctx.violation("port:%s:%s:%s" % (world.class_of(p), act["op"], clause),
                              dict(detail, clause=clause, port=p, info=info, got_state=got),
                              "after %s: %s on %s (%s)" % (_akey(act), clause, p, json.dumps(info)))
                ok = False
                break
            # I4 on the real objects: with no woken get, letting the event loop run completes no blocked get
            pdm = node["exp"]["pd"]
            states = [pdm[p][c] for p in pdm for c in pdm[p]]
            if "blocked" in states and "woken" not in states:
                for _ in range(2):
                    await asyncio.sleep(0)
                again = world.project()
                if again["pd"] != got["pd"] or again["dl"] != got["dl"]:
                    ctx.violation("port:%s:get:completed-without-put" % cls,
                                  dict(detail, got_state=again, expected_state=exp),
                                  "a get that found its queue empty completed (or failed) without any put on the port")
                    ok = False
                    break
                stats["blocked_stays_blocked"] += 1
            if not node["done"]:
                node["done"] = True
                stats["transitions"] += 1
                stats["op:" + act["op"]] = stats.get("op:" + act["op"], 0) + 1
                nontrivial = act["op"] != "close"
                ctx.case((label, pathkey if depth == len(nodes) - 1 else "/".join(_akey(n["act"]) for n in nodes[:depth + 1])), nontrivial)
                _classify(stats, act, node["exp"], world, k)
    finally:
        stats["close_raised"] += world.close_raised
        await world.shutdown()
    return ok


def _classify(stats, act, to, world, k):
    """Vacuity counters: the interesting classes of transitions."""
    op = act["op"]
    if op == "get":
        p, c = act["p"], act["c"]
        if to["pd"][p][c] == "blocked":
            stats["get_blocks"] += 1
        elif len(to["dl"][p][c] or []) == 1 and len(to["tl"][p] or []) >= 1:
            stats["late_subscriber_replayed"] += 1 if len(to["tl"][p]) >= 2 else 0
    elif op == "wake":
        stats["wake"] += 1
    elif op in ("put", "rule"):
        for p in to["rules"]:
            for r in to["rules"][p] or []:
                if not r["tags"]:
                    stats["rule_satisfied_states"] += 1
                    break
        if any(t["tag"] == "R" for p in to["tl"] for t in (to["tl"][p] or [])):
            stats["with_recovered_termination"] += 1
    if op == "put" and world.kinds[act["p"]] == "filter" and act["tag"] not in k.get("admit", ""):
        stats["filter_rejects"] += 1


async def _replay_trie(ctx, sfctx, k, trie, label, stats, budget=None):
    n = 0
    for nodes in trie.maximal_paths():
        if all(nd["done"] or nd["exp"] is None for nd in nodes):
            continue
        await _replay_nodes(ctx, sfctx, k, nodes, label, stats)
        n += 1
        if len(ctx.violations) >= 12:
            break
    return n


def _build_trie(lines):
    trie = Trie()
    for ln in lines:
        if isinstance(ln, dict) and "path" in ln and "to" in ln:
            trie.add(ln["path"], ln["to"])
    return trie


def _new_stats():
    s = {"actions": 0, "transitions": 0, "close_raised": 0, "get_blocks": 0, "late_subscriber_replayed": 0, "wake": 0,
         "rule_satisfied_states": 0, "with_recovered_termination": 0, "filter_rejects": 0, "blocked_stays_blocked": 0}
    return s


def _bind(ctx, sfctx, name, lines, stats):
    k = CONFIGS[name]
    trie = _build_trie(lines)
    ctx.require(trie.n > 0, "generation %s emitted no transition" % name)

    async def go():
        return await _replay_trie(ctx, sfctx, k, trie, name, stats)
    runs, exc = aio.run(go(), timeout=3000)
    if exc is not None:
        raise MachineryError("replay of %s failed in the harness: %r" % (name, exc))
    ctx.count("replayed_paths:%s" % name, runs)
    ctx.count("replayed_transitions:%s" % name, trie.n)
    return trie


def _model_check(ctx, name, coverage_actions):
    k = CONFIGS[name]
    r = ctx.tlc("Port", "MC_Port", "MC_Port_%s.cfg" % name, files={"MC_Port_%s.cfg" % name: cfg_text(k, "mc")},
                coverage=True, timeout=3000)
    if not r.ok:
        raise MachineryError("Port model %s: %s %s (a counterexample of the model alone is a specification error "
                             "until it is replayed on the code)\n%s" % (name, r.error, r.violated, r.stdout[-2500:]))
    ctx.require_coverage(r, coverage_actions)
    ctx.count("mc_states:%s" % name, r.distinct)
    return r


def _self_replay_finding(ctx, sfctx, stats=None):
    """SelfReplay=TRUE: a self-targeting rule may be added to a port that already holds tokens.  The repaired
    add_inter_port does not hand the replayed tokens to the port again, so the model has no double enqueue there: TLC
    checks every invariant on that configuration and its complete concrete graph is replayed on the real ports like the
    g_* configurations.  Before that, every emitted path that ends with such a rule addition is run on a real port on its
    own: a double enqueue observed there keeps the signature of the (repaired) defect."""
    from ..sut import port_world as pw
    k = CONFIGS["selfreplay"]
    _model_check(ctx, "selfreplay", ["Put", "Get", "Wake", "AddInterPort"])
    g = ctx.tlc("Port", "Gen_Port", "Gen_Port_selfreplay.cfg", files={"Gen_Port_selfreplay.cfg": cfg_text(k, "gen")},
                workers=1, count=False, timeout=1200)
    ctx.require(g.ok, "generation run selfreplay failed: %s\n%s" % (g.error, g.stdout[-1500:]))
    lines = g.printed_json()
    ctx.require(len(lines) == g.generated - 1, "generation selfreplay: %d lines for %d transitions" % (len(lines), g.generated - 1))
    designated = [ln["path"] for ln in lines
                  if ln["path"][-1]["op"] == "rule" and ln["path"][-1]["x"] == ln["path"][-1]["p"]
                  and any(a["op"] == "put" and a["p"] == ln["path"][-1]["p"] for a in ln["path"][:-1])]
    ctx.require(designated, "selfreplay configuration: no self-targeting rule is added to a port that holds a token")
    ctx.count("selfreplay_paths", len(designated))

    async def go(path):
        world = pw.World(sfctx, k["scn"], consumers_of(k), [], variant=0)
        try:
            for a in path:
                a = dict(a, tags=list(a.get("tags") or []))
                raised = await world.apply(a)
                if raised:
                    return ("raised", raised, world.project())
            return ("done", world.real_state_properties(), world.project())
        finally:
            await world.shutdown()
    for path in designated:
        res, exc = aio.run(go(path), timeout=120)
        if exc is not None:
            raise MachineryError("replay of a selfreplay path failed in the harness: %r" % (exc,))
        ctx.case(("selfreplay", json.dumps(path, sort_keys=True)))
        ctx.impl_trace(1)
        kind, info, state = res
        if kind == "done" and any(b[0] == "double-enqueue" for b in info):
            ctx.violation("port:InterWorkflowPort:add_inter_port:self-target-replay:double-enqueue",
                          {"path": path, "constants": k, "clauses": info, "got_state": state},
                          "add_inter_port(port=self, PROPAGATE) on a port that already holds the matching token puts the same "
                          "token object on the port a second time: every consumer receives it twice")
            break
    # the complete graph of the configuration, compared field by field like every other generated configuration
    trie = _bind(ctx, sfctx, "selfreplay", lines, stats if stats is not None else _new_stats())
    ctx.count("edges:selfreplay", trie.n)


def run(ctx):
    from ..sut import context as sfcontext
    ctx.rule = ("TLC enumerates the complete state graph of every Port scenario (I1-I4 as invariants/action properties over "
                "ghost histories kept in the fingerprint, L under weak fairness); Gen_Port emits every transition of the complete "
                "concrete graph of the small configurations (path from Init + target state) and every generated successor along "
                "simulated behaviours of the large ones; every path is replayed on real port objects with one asyncio task per "
                "consumer get and the projection is compared after every action; a case is one (path, action) transition, "
                "non-trivial unless the action is close")
    acts_plain = ["Put", "PutTermination", "Get", "Wake", "Close"]
    acts_inter = ["Put", "Get", "Wake", "AddInterPort"]
    mc = ctx.pick([("plain_q", acts_plain), ("filter_q", acts_plain), ("interp_q", acts_inter + ["PutTermination"]),
                   ("interp2_q", acts_inter)],
                  [("plain_t", acts_plain), ("plain5_t", acts_plain), ("filter_t", acts_plain), ("interp_q", acts_inter + ["PutTermination"]),
                   ("interp_t", acts_inter), ("interp3_t", acts_inter + ["PutTermination"]),
                   ("interi_t", acts_inter), ("interf_t", acts_inter)])
    for name, cov in mc:
        _model_check(ctx, name, cov)
    # liveness
    for name in ctx.pick(["live_q"], ["live_q", "live_t"]):
        r = ctx.tlc("Port", "MC_Port", "Live_Port_%s.cfg" % name, files={"Live_Port_%s.cfg" % name: cfg_text(CONFIGS[name], "live")},
                    timeout=3000)
        if not r.ok:
            raise MachineryError("Port liveness %s: %s %s\n%s" % (name, r.error, r.violated, r.stdout[-2500:]))
        ctx.count("liveness_states:%s" % name, r.distinct)

    sfctx = sfcontext.build(path=ctx.scratch("sf"))
    stats = _new_stats()
    try:
        # exhaustive generation: every transition of the complete concrete graph
        for name in ctx.pick(["g_plain", "g_filter", "g_interp"],
                             ["g_plain_t", "g_filter", "g_interp", "g_interp_t", "g_interp2_t", "g_interi_t", "g_interf_t"]):
            g = ctx.tlc("Port", "Gen_Port", "Gen_Port_%s.cfg" % name, files={"Gen_Port_%s.cfg" % name: cfg_text(CONFIGS[name], "gen")},
                        workers=1, count=False, timeout=3000)
            ctx.require(g.ok, "generation run %s failed: %s\n%s" % (name, g.error, g.stdout[-1500:]))
            lines = g.printed_json()
            ctx.require(len(lines) == g.generated - 1, "generation %s: %d lines for %d transitions" % (name, len(lines), g.generated - 1))
            trie = _bind(ctx, sfctx, name, lines, stats)
            ctx.count("edges:%s" % name, trie.n)
            for ln in lines:
                if len(ctx.samples) < 3 and len(ln["path"]) >= 5 and any(a["op"] == "rule" for a in ln["path"]) == (name != "g_plain"):
                    ctx.sample({"config": name, "path": [_akey(a) for a in ln["path"]], "to": ln["to"]})
                    break
            del lines, trie
        ctx.exhaustive = True
        # simulation of the large configurations
        for name, num, depth in ctx.pick([("s_plain", 150, 18), ("s_interp", 250, 16)],
                                         [("s_plain", 1500, 22), ("s_filter", 800, 20), ("s_interp", 2500, 20),
                                          ("s_interi", 2000, 20), ("s_interf", 1500, 20)]):
            g = ctx.tlc("Port", "Gen_Port", "Gen_Port_%s.cfg" % name, files={"Gen_Port_%s.cfg" % name: cfg_text(CONFIGS[name], "gen")},
                        workers=1, count=False, simulate={"num": num, "depth": depth}, timeout=3000)
            lines = g.printed_json()
            ctx.require(len(lines) > 0, "simulation %s emitted nothing" % name)
            trie = _bind(ctx, sfctx, name, lines, stats)
            ctx.count("sim_edges:%s" % name, trie.n)
            del lines, trie
        _self_replay_finding(ctx, sfctx, stats)
    finally:
        aio.run(sfcontext.close(sfctx), timeout=60)
    ctx.impl_trace(stats["transitions"])
    for key, v in sorted(stats.items()):
        ctx.count(key, v)
    for cls in ("get_blocks", "wake", "late_subscriber_replayed", "rule_satisfied_states", "with_recovered_termination"):
        ctx.require(stats[cls] > 0 or ctx.violations, "vacuous binding: no transition of class %s was replayed" % cls)
    ctx.assumptions += [
        "one outstanding get per (port, consumer); close at most once per (port, consumer) (Step.terminate)",
        "boundary rules between different ports are acyclic; at most one self-targeting rule per port (what _inject_tokens adds)",
        "get tasks are started eagerly (as `await port.get(c)` inside a step); woken gets complete in the next loop iteration",
        "queue contents are read through asyncio.Queue._queue (sizes through qsize() if that attribute is missing)",
        "what close() does to the task_done counter of the queue (it may raise ValueError) is not constrained by the property",
    ]


def replay(ctx, data):
    from ..sut import context as sfcontext
    from ..sut import port_world as pw
    d = data["detail"]
    k = d["constants"]
    path = d["path"]
    sfctx = sfcontext.build(path=ctx.scratch("sf"))
    try:
        if data["signature"].endswith("self-target-replay:double-enqueue"):
            _self_replay_finding(ctx, sfctx)
            return
        trie = Trie()
        exp = d.get("expected_state")
        # rebuild the expected model state of the last step only (the stored projection)
        node = trie.root
        for a in path:
            kk = _akey(a)
            node["ch"][kk] = {"ch": {}, "exp": None, "act": a, "done": False}
            node = node["ch"][kk]

        async def go():
            world = pw.World(sfctx, k["scn"], consumers_of(k), list(k.get("admit", "")), variant=d.get("variant", 0))
            try:
                raised = None
                for a in path:
                    raised = await world.apply(a)
                    if raised:
                        break
                return raised, world.project(), world.real_state_properties(), world.class_of(path[-1]["p"]) if path[-1]["p"] else "-"
            finally:
                await world.shutdown()
        res, exc = aio.run(go(), timeout=120)
        if exc is not None:
            raise MachineryError("replay failed in the harness: %r" % (exc,))
        raised, got, bad, cls = res
        ctx.case(("replay", json.dumps(path, sort_keys=True)))
        if raised:
            ctx.violation(data["signature"], dict(d, got=got), "replay: %s" % raised)
        elif exp is not None and _diff(got, exp) is not None:
            ctx.violation(data["signature"], dict(d, got_state=got), "replay: projection still differs: %s" % (_diff(got, exp)[:3],))
        elif bad:
            ctx.violation(data["signature"], dict(d, got_state=got, clauses=bad), "replay: %s" % (bad[0][0],))
        else:
            print("replay: the real ports now agree with the specification on this path")
    finally:
        aio.run(sfcontext.close(sfctx), timeout=60)
