"""C25 - commands run exactly once with verbatim arguments, environment and output (module Shell).

Part (b), quoting contexts (specs/Shell/ShellQuote.tla): TLC enumerates every value over 11 character
classes (length <= 3, thorough 4), proves that shlex.quote is transparent (also nested in `sh -c`) and
emits, for every lexical context, the word the POSIX shell hands to the command.  Binding: every value is
instantiated with concrete characters and pushed through the REAL LocalConnector.run (create_command:
export / cd), the REAL BaseConnector.run (persistent shell path = _build_shell_command, and the fallback
path), and CommandTemplateMap.get_command, executed by the real /bin/sh with a probe script that dumps
environment, cwd and argv as raw bytes.  Verdict: received == value (the property); the specification's
predicted word is compared as well (binding).

Part (a), session protocol (specs/Shell/Shell.tla): see part_a below.
"""
from __future__ import annotations

import asyncio
import json
import os
import shlex
import sys

from vh import aio
from vh.sut import shell_env as se

LEVEL = "model_checking"

CTX_NAME = {"UNQ": "unquoted-context", "DQ": "double-quote-context", "SQ": "shlex-quoted-context",
            "SQ2": "shlex-quoted-context"}


# ================================================================================================
# part (b): quoting
# ================================================================================================

class QuoteBench:
    """Scratch layout + the real connectors for the quoting runs."""

    def __init__(self, ctx):
        self.ctx = ctx
        self.root = os.path.realpath(ctx.scratch("quote"))
        self.wd = os.path.join(self.root, "wd")          # one directory per value
        self.out = os.path.join(self.root, "out")
        self.empty = os.path.join(self.root, "empty")    # cwd of the harness while commands run
        for d in (self.wd, self.out, self.empty):
            os.makedirs(d, exist_ok=True)
        self.probe = se.write_probe(self.root)
        self.n = 0
        self.runs = 0
        from streamflow.deployment.connector.local import LocalConnector
        self.local = LocalConnector("vh-local", self.root, 65536)
        self.Remote = se.make_remote_class()
        self.loc = se.location()

    def outprefix(self) -> str:
        self.n += 1
        return os.path.join(self.out, "o%d" % self.n)

    def workdir(self, s: str) -> str:
        d = os.path.join(self.wd, s)
        os.makedirs(d, exist_ok=True)
        return d


async def _run_probe(bench, conn, *, envs=None, workdir=None, args=None, job_name=None, timeout=60):
    """One real run of the probe through `conn.run` with environment values `envs` (VHK0..), a working
    directory and caller-quoted arguments; returns what the probe saw + what run() returned/raised."""
    out = bench.outprefix()
    envs = list(envs or [])
    cmd = ["sh", bench.probe, out, str(len(envs))] + [shlex.quote(a) for a in (args or [])]
    kw = {}
    if job_name is not None:
        kw["job_name"] = job_name
    bench.runs += 1
    res, exc = await se.guarded(
        conn.run(bench.loc, cmd, environment=({"%s%d" % (se.ENV_KEY, i): e for i, e in enumerate(envs)} if envs else None),
                 workdir=workdir, capture_output=True, timeout=timeout, **kw), timeout + 30)
    obs = se.read_probe(out)
    obs["returned"] = list(res) if isinstance(res, tuple) else res
    obs["raised"] = se.describe_exc(exc) if exc is not None else None
    return obs


def _received(obs, what, bench, i=0):
    """The word the command received at the given site, or None when the probe did not run (once)."""
    if obs["ran"] != 1:
        return None
    if what == "env":
        return obs["env"][i] if i < len(obs["env"]) else None
    if what == "cd":
        c = obs["cwd"]
        pre = bench.wd + "/"
        if c == bench.wd:
            return ""
        return c[len(pre):] if c.startswith(pre) else "<outside:%s>" % c
    if what == "arg":
        return obs["argv"][i] if i < len(obs["argv"]) else None
    raise AssertionError(what)


def _judge(ctx, site, ctxname, v, s, pred, got, obs, stats, path):
    """Property: got == s.  Binding: the specification's exact word, when it predicts one."""
    key = (site, path, se.cls_name(v))
    ctx.case(key, nontrivial=any(c != "plain" for c in v))
    exact = pred["kind"] == "word"
    pred_word = se.concrete(pred["word"]) if exact else None
    if exact:
        if got == pred_word:
            stats["binding_agree"] += 1
        else:
            stats["binding_diverge"] += 1
            if len(stats["diverge_samples"]) < 8:
                stats["diverge_samples"].append({"site": site, "path": path, "v": v, "spec": pred_word, "got": got})
    else:
        stats["binding_unspecified"] += 1
    stats["cases:%s" % site] += 1
    if got == s:
        if not exact or pred_word != s:
            stats["ok_although_spec_predicts_alteration"] += 1
        return True
    if pred["blame"] != "none":
        sig = "quoting:%s:%s:%s" % (site, CTX_NAME[ctxname], pred["blame"])
    else:
        odd = [c for c in v if c != "plain"]
        sig = "quoting:%s:%s:unpredicted:%s" % (site, CTX_NAME[ctxname], odd[0] if odd else se.cls_name(v))
    small = {k: obs.get(k) for k in ("ran", "cwd", "returned", "raised")}
    ctx.violation(sig, {"kind": "quoting", "site": site, "path": path, "v": v, "value": s, "received": got,
                        "spec": pred, "probe": small},
                  "%s via %s: value %r reached the command as %r" % (site, path, s, got))
    stats["violating:%s" % site] += 1
    return False


class _Stats(dict):
    def __getitem__(self, k):
        if k not in self:
            self[k] = [] if k.endswith("samples") else 0
        return dict.__getitem__(self, k)


def _chunks(xs, n):
    return [xs[i:i + n] for i in range(0, len(xs), n)]


def _pw(row, c):
    return se.concrete(row[c]["word"]) if row[c]["kind"] == "word" else None


async def _env_site(ctx, bench, stats, sem, site, c, path, batchable, singles, runner, B=40):
    """Environment values at one site.  Values for which the specification predicts an exact word are sent
    B at a time (B variables in one command); when anything in a batch deviates from the prediction the
    batch is repeated one value per command, so that a broken command line cannot mask its neighbours."""
    async def single(row):
        async with sem:
            s = se.concrete(row["v"])
            obs = await runner([s])
            _judge(ctx, site, c, row["v"], s, row[c], _received(obs, "env", bench, 0), obs, stats, path)

    async def batch(rows):
        async with sem:
            ss = [se.concrete(r["v"]) for r in rows]
            obs = await runner(ss)
        got = [_received(obs, "env", bench, i) for i in range(len(rows))]
        if all(g == _pw(r, c) for g, r in zip(got, rows)):
            for g, r, s in zip(got, rows, ss):
                _judge(ctx, site, c, r["v"], s, r[c], g, obs, stats, path)
        else:
            stats["batches_repeated_singly"] += 1
            await asyncio.gather(*(single(r) for r in rows))

    await asyncio.gather(*([batch(b) for b in _chunks(batchable, B)] + [single(r) for r in singles]))


async def _quote_binding(ctx, bench, table, sites, stats, plan):
    sem = asyncio.Semaphore(ctx.pick(8, 12))
    os.chdir(bench.empty)
    asis = sites["asis"]
    by_name = {se.cls_name(r["v"]): r for r in table}

    def split(c, sample_key):
        exact = [r for r in table if r[c]["kind"] == "word"]
        rest = [r for r in table if r[c]["kind"] != "word" and se.cls_name(r["v"]) in plan[sample_key]]
        return exact, rest

    # ---- create_command: export K="value"   (LocalConnector.run -> sh -c)
    c = asis["create_command:export"]
    ex, rest = split(c, "singles")
    await _env_site(ctx, bench, stats, sem, "create_command:export", c, "LocalConnector.run", ex, rest,
                    lambda ss: _run_probe(bench, bench.local, envs=ss))

    # ---- create_command: cd workdir   (one directory per command)
    c = asis["create_command:cd"]

    async def cd_case(row):
        v = row["v"]
        s = se.concrete(v)
        async with sem:
            obs = await _run_probe(bench, bench.local, workdir=bench.workdir(s))
        _judge(ctx, "create_command:cd", c, v, s, row[c], _received(obs, "cd", bench), obs, stats, "LocalConnector.run")

    await asyncio.gather(*(cd_case(by_name[n]) for n in plan["cd"]))

    # ---- caller-quoted arguments through LocalConnector.run's own sh -c layer
    c = asis["argv"]

    async def arg_batch(rows):
        ss = [se.concrete(r["v"]) for r in rows]
        async with sem:
            obs = await _run_probe(bench, bench.local, args=ss)
        got = [_received(obs, "arg", bench, i) for i in range(len(rows))]
        if len(rows) > 1 and not all(g == s for g, s in zip(got, ss)):
            stats["batches_repeated_singly"] += 1
            await asyncio.gather(*(arg_batch([r]) for r in rows))
            return
        for g, r, s in zip(got, rows, ss):
            _judge(ctx, "argv", c, r["v"], s, r[c], g, obs, stats, "LocalConnector.run")

    await asyncio.gather(*(arg_batch(b) for b in _chunks(table, 40)))

    # ---- template: CommandTemplateMap.get_command renders export K="value" into a script run by /bin/sh
    from streamflow.deployment.template import CommandTemplateMap
    tmap = CommandTemplateMap(default="#!/bin/sh\n\n{{streamflow_command}}",
                              template_map={"svc": "#!/bin/sh\n{{streamflow_environment}}\n{{streamflow_command}}\n"})

    async def template_run(ss):
        out = bench.outprefix()
        bench.runs += 1
        try:
            text = tmap.get_command(command="sh %s %s %d" % (bench.probe, out, len(ss)), template="svc",
                                    environment={"%s%d" % (se.ENV_KEY, i): s for i, s in enumerate(ss)}, workdir=None)
            exc = None
        except Exception as e:  # noqa
            text, exc = None, e
        if text is not None:
            script = out + ".script"
            with open(script, "w") as f:
                f.write(text)
            p = await asyncio.create_subprocess_exec("/bin/sh", script, stdin=asyncio.subprocess.DEVNULL,
                                                     stdout=asyncio.subprocess.DEVNULL,
                                                     stderr=asyncio.subprocess.DEVNULL)
            await asyncio.wait_for(p.wait(), 120)
        obs = se.read_probe(out)
        obs["returned"] = None
        obs["raised"] = se.describe_exc(exc) if exc else None
        return obs

    c = asis["get_command:export"]
    ex, rest = split(c, "singles_template")
    await _env_site(ctx, bench, stats, sem, "get_command:export", c, "CommandTemplateMap.get_command+/bin/sh", ex, rest,
                    template_run)

    # ---- BaseConnector.run, persistent shell path (_build_shell_command): B environment values + B arguments
    #      + one working directory per command; on any deviation the sites are repeated separately, singly.
    remote = bench.Remote("vh-remote", bench.root, 65536)
    c = asis["_build_shell_command:export"]
    path = "BaseConnector.run(shell)"
    hangs = 0
    cd_names = list(plan["cd_shell"])
    try:
        groups = _chunks(table, max(1, len(table) // max(1, len(cd_names))))
        for gi, rows in enumerate(groups):
            ss = [se.concrete(r["v"]) for r in rows]
            cdrow = by_name[cd_names[gi]] if gi < len(cd_names) else None
            cds = se.concrete(cdrow["v"]) if cdrow else None
            obs = await _run_probe(bench, remote, envs=ss, args=ss, workdir=bench.workdir(cds) if cdrow else None, timeout=20)
            ge = [_received(obs, "env", bench, i) for i in range(len(rows))]
            ga = [_received(obs, "arg", bench, i) for i in range(len(rows))]
            gc = _received(obs, "cd", bench) if cdrow else None
            if ge == ss and ga == ss and gc == cds and obs["raised"] is None:
                for g, r, s in zip(ge, rows, ss):
                    _judge(ctx, "_build_shell_command:export", c, r["v"], s, r[c], g, obs, stats, path)
                for g, r, s in zip(ga, rows, ss):
                    _judge(ctx, "argv", c, r["v"], s, r[c], g, obs, stats, path)
                if cdrow:
                    _judge(ctx, "_build_shell_command:cd", c, cdrow["v"], cds, cdrow[c], gc, obs, stats, path)
                continue
            stats["batches_repeated_singly"] += 1
            todo = [("_build_shell_command:export", "env", r) for r in rows] + [("argv", "arg", r) for r in rows]
            if cdrow:
                todo.append(("_build_shell_command:cd", "cd", cdrow))
            for site, what, r in todo:
                s = se.concrete(r["v"])
                kw = {"env": {"envs": [s]}, "arg": {"args": [s]}, "cd": {"workdir": bench.workdir(s) if r["v"] else None}}[what]
                o = await _run_probe(bench, remote, timeout=20, **kw)
                if o["raised"] and "Timeout" in o["raised"]:
                    hangs += 1
                _judge(ctx, site, c, r["v"], s, r[c], _received(o, what, bench), o, stats, path)
                if hangs >= 3:
                    break
            if hangs >= 3:
                stats["shell_path_aborted_after_hangs"] += 1
                break
    finally:
        await se.guarded(remote.undeploy(False), 30)

    # ---- BaseConnector.run, fallback path (job_name given => no persistent shell).  A site that fails even for
    #      the plain value is reported once as "run without a shell" and not enumerated further.
    remote = bench.Remote("vh-remote-fb", bench.root, 65536)
    order = [by_name["plain"]] + [r for r in table if r["v"] != ["plain"] and se.cls_name(r["v"]) in plan["fallback"]]
    broken = set()
    for idx, row in enumerate(order):
        v = row["v"]
        s = se.concrete(v)
        for site, what, kw in (("fallback:export", "env", {"envs": [s]}),
                               ("fallback:cd", "cd", {"workdir": bench.workdir(s) if v else None}),
                               ("fallback:argv", "arg", {"args": [s]})):
            if (what == "cd" and not v) or what in broken:
                continue
            o = await _run_probe(bench, remote, job_name="vh-job", timeout=30, **kw)
            got = _received(o, what, bench)
            if what == "arg" and got == s and o["argv"] != [s]:
                got = o["argv"]              # the whole argument vector must be the caller's
            ctx.case((site, se.cls_name(v)))
            stats["cases:%s" % site] += 1
            if got != s:
                small = {k: o.get(k) for k in ("ran", "cwd", "argv", "returned", "raised")}
                if idx == 0:
                    broken.add(what)
                    ctx.violation("fallback:argv-run-without-shell:%s" % what,
                                  {"kind": "fallback", "site": site, "v": v, "value": s, "received": got, "probe": small},
                                  "BaseConnector.run fallback path (%s): plain value %r reached the command as %r (%s)"
                                  % (what, s, got, o["raised"] or o["returned"]))
                    stats["fallback_broken:%s" % what] += 1
                else:
                    ctx.violation("quoting:%s:%s" % (site, [c for c in v if c != "plain"][0]),
                                  {"kind": "fallback", "site": site, "v": v, "value": s, "received": got, "probe": small},
                                  "BaseConnector.run fallback path (%s): value %r reached the command as %r" % (what, s, got))
        if len(broken) == 3:
            stats["fallback_enumeration_skipped"] += 1
            break


def _plan(ctx, table):
    """Which values go through the one-command-per-value runs (the batched runs always take every value)."""
    rng = ctx.rng("plan")
    names = {k: [se.cls_name(r["v"]) for r in table if len(r["v"]) == k] for k in range(0, 5)}
    short = names[0] + names[1] + names[2]

    def some(k, n):
        return rng.sample(names[k], min(n, len(names[k])))

    if ctx.quick:
        return {"singles": set(short + some(3, 40)), "singles_template": set(names[0] + names[1] + some(2, 30) + some(3, 20)),
                "cd": [n for n in short if n != "empty"] + some(3, 30),
                "cd_shell": [n for n in short if n != "empty"],
                "fallback": set(names[1] + some(2, 30))}
    return {"singles": set(short + names[3] + some(4, 400)), "singles_template": set(short + some(3, 300) + some(4, 200)),
            "cd": [n for n in short if n != "empty"] + names[3] + some(4, 400),
            "cd_shell": [n for n in short if n != "empty"] + names[3],
            "fallback": set(short + some(3, 200))}


def part_b(ctx):
    L = ctx.pick(3, 4)
    wd = ctx.spec_workdir("Shell")
    cfg = open(os.path.join(wd, "Gen_ShellQuote.cfg")).read().replace("L = 3", "L = %d" % L)
    r = ctx.tlc("Shell", "MC_ShellQuote", "Gen.cfg", workdir=wd, files={"Gen.cfg": cfg}, workers=1, timeout=2400)
    if not r.ok:
        ctx.require(False, "ShellQuote lemma fails in the model (%s): specification error\n%s" % (r.violated, r.stdout[-1500:]))
    rows = r.printed_json()
    sites = next(x["sites"] for x in rows if "sites" in x)
    table = [x for x in rows if "v" in x]
    n_expected = sum(11 ** k for k in range(L + 1))
    ctx.require(len(table) == n_expected, "expected %d values from TLC, got %d" % (n_expected, len(table)))
    for row in table:
        row["v"] = row["v"] or []
        for c in ("UNQ", "DQ", "SQ", "SQ2"):
            row[c]["word"] = row[c]["word"] or []
    # vacuity: the specification must predict alterations in the contexts the code uses today
    interp = {c: sorted({row[c]["blame"] for row in table} - {"none"}) for c in ("UNQ", "DQ", "SQ", "SQ2")}
    ctx.require(interp["SQ"] == [] and interp["SQ2"] == [] and len(interp["DQ"]) >= 4 and len(interp["UNQ"]) >= 9,
                "unexpected interpretation table %s" % interp)
    ctx.extra["interpreted_classes_by_context"] = interp
    ctx.extra["site_contexts"] = sites
    ctx.count("quoting_values", len(table))
    ctx.count("spec_predicts_alteration:DQ", sum(1 for x in table if x["DQ"]["blame"] != "none"))
    ctx.count("spec_predicts_alteration:UNQ", sum(1 for x in table if x["UNQ"]["blame"] != "none"))
    # oracles
    bad = se.which_any(["k", "kk", "kkk", "kkkk"])
    ctx.require(not bad, "the probe alphabet collides with executables %s" % bad)
    for name in ["k", "kk", "kkk", "kkkk"] + [n for n in os.environ if n.startswith(se.ENV_KEY)]:
        os.environ.pop(name, None)
    ctx.require(os.path.realpath("/bin/sh").endswith(("dash", "sh", "bash")), "no /bin/sh")
    bench = QuoteBench(ctx)
    plan = _plan(ctx, table)
    stats = _Stats()
    cwd = os.getcwd()
    try:
        _, exc = aio.run(_quote_binding(ctx, bench, table, sites, stats, plan), timeout=ctx.pick(900, 3000))
    finally:
        os.chdir(cwd)
    if exc is not None:
        raise exc
    ctx.count("quoting:commands_executed", bench.runs)
    for k, val in stats.items():
        if not k.endswith("samples"):
            ctx.count("quoting:" + k, val)
    if stats["diverge_samples"]:
        ctx.extra["binding_divergence_samples"] = stats["diverge_samples"]
        print("NOTE C25: the real /bin/sh result differs from the word predicted by ShellQuote for %d (site, value) pairs "
              "(the rendering context of a site changed, or the lexer model is wrong); first: %s"
              % (stats["binding_diverge"], stats["diverge_samples"][0]), flush=True)
    ctx.impl_trace(stats["binding_agree"] + stats["binding_diverge"] + stats["binding_unspecified"])
    ctx.sample({"value": table[200]["v"], "concrete": se.concrete(table[200]["v"]), "spec_DQ": table[200]["DQ"],
                "spec_UNQ": table[200]["UNQ"]})


# ================================================================================================
# part (a): session protocol
# ================================================================================================

ASIS = {"FallbackShell": "FALSE", "CloseOnFailure": "FALSE", "FallbackOnTimeout": "TRUE", "PreambleInShell": "FALSE"}
FIXED = {"FallbackShell": "TRUE", "CloseOnFailure": "TRUE", "FallbackOnTimeout": "FALSE", "PreambleInShell": "FALSE"}
LEAK = dict(ASIS, PreambleInShell="TRUE")
STATE_SHAPES = '{"probe", "nonl"}'
UTF_SHAPES_Q = '{"utf", "nonl"}'
UTF_SHAPES_T = '{"utf", "utfl", "multi"}'
UTF_WIDTHS = "{1, 2, 3, 4}"
REAL_BUFFERS = (1, 2, 3, 5, 65536)
STATE_PRES = '{"none", "wd", "env", "both"}'
INVARIANTS = ["TypeOK", "FreshEquivalence", "OwnOutput", "NoSpuriousTimeout", "ReturnedOnce", "NeverTwice", "VerbatimCommand"]


def _shell_cfg(n, timeout, kill, variant, invariants, gen=False, statuses="{0, 3}",
               shapes='{"empty", "nonl", "multi", "mlike"}', pres='{"none"}', utf_len=1, utf_widths="{2}",
               incremental=True, view=None):
    lines = ['CONSTANTS N = %d  Shapes = %s  Statuses = %s  Pres = %s' % (n, shapes, statuses, pres),
             "CONSTANTS AllowTimeout = %s  AllowKill = %s" % ("TRUE" if timeout else "FALSE", "TRUE" if kill else "FALSE"),
             "CONSTANTS " + "  ".join("%s = %s" % kv for kv in variant.items()),
             "CONSTANTS UtfLen = %d  UtfWidths = %s  IncrementalDecode = %s" % (utf_len, utf_widths, "TRUE" if incremental else "FALSE"),
             "INIT MCInit", "NEXT %s" % ("GenNext" if gen else "MCNext")]
    if (not gen) if view is None else view:
        lines.append("VIEW View")
    lines += ["INVARIANT %s" % i for i in invariants]
    return "\n".join(lines) + "\n"


def _norm_beh(b):
    b = dict(b)
    for key in ("hist", "attr", "ret", "runs", "garbled", "expected"):
        b[key] = b.get(key) or []
    for r in b["ret"]:
        r["out"] = r["out"] or []
    for a in b["attr"]:
        a["txt"] = a.get("txt") or []
    b["expected"] = [[e[0], e[1] or [], e[2]] for e in b["expected"]]
    return b


def _beh_key(b):
    return json.dumps([b["attr"], b["hist"]], sort_keys=True)


def _history_class(beh, k):
    """What happened in the session before call k."""
    seen = set()
    for s in beh["hist"]:
        if s["a"] == "call" and s["k"] == k:
            break
        if s["a"] in ("timeout", "kill"):
            seen.add(s["a"])
    return "after-" + "+".join(sorted(seen)) if seen else "clean"


def _state_leak(attr, g, exp):
    """A "probe" command printed a directory / variable value that is not the one a fresh process sees."""
    if attr["shape"] != "probe":
        return []
    want = dict(l.split("=", 1) for l in exp["out"].split("\n") if "=" in l)
    got = dict(l.split("=", 1) for l in g["out"].split("\n") if "=" in l)
    if set(got) != {"cw", "ev"}:
        return []
    return [name for key, name in (("cw", "cwd"), ("ev", "env")) if got[key] != want.get(key)]


def _judge_session(ctx, beh, obs, world, stats):
    """Property verdict for one replayed behaviour (+ agreement with the specification's prediction)."""
    from vh.sut import shell_session as ss
    n = len(beh["attr"])
    follows = True
    for k in range(1, n + 1):
        if obs.get("aborted_after") and k > obs["aborted_after"]:
            follows = False
            continue                       # the session was abandoned after a call that never returned
        attr = beh["attr"][k - 1]
        got = obs["calls"][k]
        g = {"kind": got["kind"], "out": ss.normalise_output(got["out"]) if got["kind"] == "ok" else "",
             "st": got["st"] if got["kind"] == "ok" else 0}
        exp = ss.expected_obs(beh, k)
        spec = ss.spec_obs(beh, k)
        spec_runs, spec_garbled = beh["runs"][k - 1], beh["garbled"][k - 1]
        same_as_spec = (g == spec)
        follows &= same_as_spec and obs["runs"][k] == spec_runs and obs["garbled"][k] == spec_garbled
        ctx.case((world, _beh_key(beh), k, beh.get("bufsize")), nontrivial=True)
        stats["%s:calls" % world] += 1
        hc = _history_class(beh, k)
        if beh.get("bufsize"):
            hc = "%s:buffer-%d" % (hc, beh["bufsize"])
        detail = {"kind": "session", "world": world, "behaviour": beh, "call": k, "observed": got, "expected": exp,
                  "spec": spec, "runs": obs["runs"][k], "spec_runs": spec_runs, "garbled": obs["garbled"][k],
                  "notes": obs.get("notes")}
        via = beh["ret"][k - 1]["via"]
        if g != exp:
            if g["kind"] == "ok" and exp["kind"] == "ok":
                clause = "output" if g["out"] != exp["out"] else "status"
                if clause == "output" and ss.REPLACEMENT in g["out"] and ss.REPLACEMENT not in exp["out"]:
                    # characters came back as U+FFFD: a read boundary inside a multi-byte character was not bridged
                    clause = "character-split-by-read"
            elif exp["kind"] == "ok":
                clause = "raised-%s" % g["kind"]
            else:
                clause = "%s-instead-of-timeout" % g["kind"]
            leak = _state_leak(attr, g, exp) if clause == "output" else []
            if leak:
                sig = None
                for what in leak:
                    ctx.violation("session:state-leak:%s" % what, detail,
                                  "%s session, call %d sees the %s left behind by an earlier command: expected %r, observed %r"
                                  % (world, k, {"cwd": "working directory", "env": "environment variable"}[what],
                                     exp["out"], g["out"]))
            elif same_as_spec and via == "shell" and clause in ("output", "status"):
                sig = "session:stale-output-after-timeout"
            elif same_as_spec and via == "fallback":
                sig = "fallback:argv-run-without-shell:session"
            else:
                sig = "session:%s:unpredicted:%s:%s" % (clause, attr["shape"], hc)
            if sig is not None:
                ctx.violation(sig, detail, "%s session, call %d (%s, %s): expected %s, observed %s"
                              % (world, k, attr["shape"], hc, exp, g))
            stats["%s:violating_calls" % world] += 1
        if obs["garbled"][k]:
            sig = ("fallback:argv-run-without-shell:session" if spec_garbled
                   else "session:command-line:unpredicted:%s:%s" % (attr["shape"], hc))
            ctx.violation(sig, detail, "%s session, command %d was executed with a command line that is not the caller's" % (world, k))
        if obs["runs"][k] != 1 and not (exp["kind"] == "timeout" and obs["runs"][k] == 0):
            if obs["runs"][k] >= 2 and obs["runs"][k] == spec_runs:
                sig = "fallback:double-execution-after-timeout"
            else:
                sig = "session:runs-%d:unpredicted:%s:%s" % (obs["runs"][k], attr["shape"], hc)
            ctx.violation(sig, detail, "%s session, command %d (%s) was executed %d times" % (world, k, hc, obs["runs"][k]))
            stats["%s:run_count_violations" % world] += 1
    stats["%s:behaviours" % world] += 1
    stats["%s:behaviours_following_spec" % world] += 1 if follows else 0
    if not follows and len(stats["%s:divergence_samples" % world]) < 4:
        stats["%s:divergence_samples" % world].append(
            {"attr": beh["attr"], "hist": beh["hist"], "spec": [ss.spec_obs(beh, k) for k in range(1, n + 1)],
             "spec_runs": beh["runs"], "observed": obs["calls"], "runs": obs["runs"], "notes": obs.get("notes"),
             "skipped": obs.get("skipped")})
    return follows


def _replay_fake_batch(ctx, behs, stats):
    from vh.sut import shell_session as ss

    async def all_():
        out = []
        for b in behs:
            out.append(await ss.replay_fake(b))
        return out
    res, exc = ss.run_virtual(all_())
    if exc is not None:
        raise exc
    for b, obs in zip(behs, res):
        if obs["unparsed"]:
            stats["fake:framing_not_understood"] += 1
            if stats["fake:framing_not_understood"] == 1:
                print("NOTE C25: the scripted shell does not understand what the code writes to the shell (%r); the "
                      "chunk-exact binding is skipped for such behaviours, the real /bin/sh binding still applies"
                      % obs["unparsed"][0][:120], flush=True)
            continue
        _judge_session(ctx, b, obs, "fake", stats)
        stats["fake:read_sizes"] = sorted(set(stats["fake:read_sizes"] or []) | set(obs["read_sizes"]))
    return res


def _features(b):
    f = set()
    for k, a in enumerate(b["attr"], 1):
        f.add(("shape", a["shape"], _history_class(b, k)))
        if a.get("txt"):
            f.add(("txt", tuple(a["txt"]), a["slow"]))
        f.add(("slow", a["slow"], a["tmo"]))
        f.add(("via", b["ret"][k - 1]["via"], b["ret"][k - 1]["kind"], a["shape"]))
        f.add(("runs", b["runs"][k - 1]))
    acts = [s["a"] for s in b["hist"]]
    for x, y in zip(acts, acts[1:]):
        f.add(("seq", x, y))
    for a1, a2 in zip(b["attr"], b["attr"][1:]):
        f.add(("state", a1.get("pre", "none"), a2["shape"], a2.get("pre", "none")))
    return f


def _select(behs, n, rng):
    """Greedy feature cover, then seeded fill."""
    from vh.sut import shell_session as ss
    by_proj = {}
    for b in behs:
        by_proj.setdefault(json.dumps(ss.projection(b), sort_keys=True), b)
    pool = sorted(by_proj.values(), key=_beh_key)
    chosen, covered = [], set()
    while pool and len(chosen) < n:
        best = max(pool, key=lambda b: (len(_features(b) - covered), -len(b["hist"])))
        if not (_features(best) - covered):
            break
        chosen.append(best)
        covered |= _features(best)
        pool.remove(best)
    rng.shuffle(pool)
    chosen += pool[:max(0, n - len(chosen))]
    return chosen


def _replay_real_batch(ctx, behs, stats):
    from vh.sut import shell_session as ss
    root = ctx.scratch("session")
    script = ss.write_cmd_script(root)
    counter = [0]
    w0 = os.path.join(root, "w0")          # the directory every persistent shell is started in
    os.makedirs(w0, exist_ok=True)
    os.environ.pop(ss.STATE_VAR, None)
    cwd0 = os.getcwd()
    os.chdir(w0)

    async def one(b, T, STALL):
        counter[0] += 1
        return await ss.replay_real(b, os.path.join(root, "s%d" % counter[0]), script, T, STALL, b.get("bufsize") or 65536)

    def follows(b, obs):
        n = len(b["attr"])
        for k in range(1, n + 1):
            got = obs["calls"][k]
            g = {"kind": got["kind"], "out": ss.normalise_output(got["out"]) if got["kind"] == "ok" else "",
                 "st": got["st"] if got["kind"] == "ok" else 0}
            if g != ss.spec_obs(b, k) or obs["runs"][k] != b["runs"][k - 1] or obs["garbled"][k] != b["garbled"][k - 1]:
                return False
        return True

    def timing_suspect(b, obs, T):
        """A command that is not slow ran into its timeout although the specification lets it answer from the
        shell: on an overloaded machine a process start can exceed any fixed timeout."""
        for k, a in enumerate(b["attr"], 1):
            c = obs["calls"][k]
            if a["slow"] == "no" and a["tmo"] and b["ret"][k - 1]["via"] == "shell" and c.get("elapsed", 0) >= 0.8 * T:
                return True
        return False

    async def spawn_latency():
        worst = 0.0
        for _ in range(4):
            import time as _time
            t0 = _time.time()
            p = await asyncio.create_subprocess_exec("/bin/sh", "-c", "sh -c true")
            await p.wait()
            worst = max(worst, _time.time() - t0)
        return worst

    async def all_():
        sem = asyncio.Semaphore(ctx.pick(24, 32))
        lat = await spawn_latency()
        T1 = min(6.0, max(1.0, 12 * lat))
        stats["real:spawn_latency_ms"] = int(lat * 1000)
        stats["real:timeout_used_ms"] = int(T1 * 1000)

        async def guarded_one(b):
            async with sem:
                obs = await one(b, T1, 7 * T1)
                if not follows(b, obs) and not obs.get("aborted_after"):
                    # not what the specification predicts: repeat with much larger margins before believing it
                    # (a call without timeout that never returned is not a matter of margins: judged as it is)
                    stats["real:repeated_with_larger_margins"] += 1
                    T2 = 4 * T1
                    obs = await one(b, T2, 7 * T2)
                    if not follows(b, obs) and timing_suspect(b, obs, T2):
                        obs["inconclusive"] = True
                return obs
        return await asyncio.gather(*(guarded_one(b) for b in behs))

    try:
        res, exc = aio.run(all_(), timeout=ctx.pick(900, 2400))
    finally:
        os.chdir(cwd0)
    if exc is not None:
        raise exc
    for b, obs in zip(behs, res):
        if obs.get("inconclusive"):
            stats["real:inconclusive_timing"] += 1
            print("NOTE C25: a real-shell replay is not judged: a fast command needed longer than %d ms to answer "
                  "(overloaded machine); the scripted-environment binding covers the same behaviour" % (4 * stats["real:timeout_used_ms"]),
                  flush=True)
            continue
        _judge_session(ctx, b, obs, "real", stats)
    return res


async def _large_outputs(ctx, stats):
    """Real shell, real /bin/sh: outputs of 0..1 MiB (with and without trailing newline) and exit codes."""
    root = ctx.scratch("large")
    gen = os.path.join(root, "gen.sh")
    with open(gen, "w") as f:
        f.write('#!/bin/sh\n# gen.sh BYTES NEWLINE STATUS\nhead -c "$1" /dev/zero | tr "\\000" "x"\n'
                'if [ "$2" = 1 ]; then echo; fi\nexit "$3"\n')
    Remote = se.make_remote_class()
    conn = Remote("vh-large", root, 65536)
    loc = se.location()
    sizes = ctx.pick([0, 1, 65535, 65536, 65537, 200000], [0, 1, 2, 4095, 4096, 65535, 65536, 65537, 131072, 1000000, 1048576])
    codes = ctx.pick([0, 1, 2, 127, 255], list(range(256)))
    cases = [(n, nl, 0) for n in sizes for nl in (0, 1)] + [(3, 1, c) for c in codes]
    try:
        for n, nl, code in cases:
            res, exc = await se.guarded(conn.run(loc, ["sh", gen, str(n), str(nl), str(code)], capture_output=True, timeout=120), 200)
            ctx.case(("large", n, nl, code))
            stats["real:size_and_status_cases"] += 1
            want = ("x" * n, code)
            got = tuple(res) if isinstance(res, tuple) else ("raised:%s" % se.describe_exc(exc) if exc else repr(res))
            if got != want:
                clause = "status" if isinstance(got, tuple) and got[0] == want[0] else "output"
                ctx.violation("session:%s:size-%d:newline-%d" % (clause, n, nl),
                              {"kind": "large", "n": n, "nl": nl, "code": code,
                               "got": (got[0][:80], got[1]) if isinstance(got, tuple) else got},
                              "persistent shell: %d bytes of output (trailing newline %d), exit %d came back as %s"
                              % (n, nl, code, (len(got[0]), got[1]) if isinstance(got, tuple) else got))
    finally:
        await se.guarded(conn.undeploy(False), 30)


UNICODE_SMALL = ["\u00e9", "\u20ac", "\U0001f600", "a\u00e9\u20ac\U0001f600", "\U0001f600\u00e9", "\u20ac\u20acx",
                 "caf\u00e9 \u20ac42 \U0001f600 na\u00efve \U0001f680 end"]


async def _unicode_outputs(ctx, stats):
    """Real shell, real /bin/sh, real pipe: outputs made of multi-byte characters.  The chunking of a real pipe cannot
    be imposed, but the connector's transferBufferSize bounds every read: (i) short texts through connectors with a
    buffer of 1..7 bytes (every read of 1..3 bytes necessarily ends inside the wider characters), (ii) 130 KB .. 1 MiB
    of 2-, 3- and 4-byte characters and of lines of varying alignment through the default 64 KiB buffer and through
    4099 bytes (a prime: the read boundaries drift through every offset of a character)."""
    root = ctx.scratch("unicode")
    Remote = se.make_remote_class()
    loc = se.location()
    conns = {}
    n_big = ctx.pick(70000, 350000)
    texts = [("small-%d" % i, t, bs) for i, t in enumerate(UNICODE_SMALL) for bs in ctx.pick((1, 2, 3, 7), (1, 2, 3, 4, 5, 7, 16))]
    big = [("width-%d" % w, ss_chars(w) * n_big) for w in (2, 3, 4)]
    big.append(("mixed-lines", "\n".join("x" * (i % 7) + "\u20ac" * 150 + "\U0001f600" * (i % 5) + "\u00e9" * (i % 3)
                                        for i in range(ctx.pick(300, 1500)))))
    texts += [(name, t, bs) for name, t in big for bs in (65536, 4099)]
    import time as _time
    slow = 0
    try:
        for idx, (name, text, bs) in enumerate(texts):
            if bs not in conns:
                conns[bs] = Remote("vh-unicode-%d" % bs, root, bs)
            for nl in (0, 1):
                if slow >= 3:
                    # three commands already ran into the (generous) timeout of the shell path, each one reported below
                    # as a violation: the rest of the family would only wait for the same timeout again
                    stats["real:unicode_output_cases_skipped_after_timeouts"] += 1
                    continue
                path = os.path.join(root, "t%d_%d.txt" % (idx, nl))
                with open(path, "w", encoding="utf-8") as f:
                    f.write(text + ("\n" if nl else ""))
                limit = 30 if name.startswith("small") else 120
                t0 = _time.time()
                res, exc = await se.guarded(conns[bs].run(loc, ["cat", path], capture_output=True, timeout=limit), limit + 60)
                if _time.time() - t0 >= 0.9 * limit:
                    slow += 1
                ctx.case(("unicode", name, bs, nl))
                stats["real:unicode_output_cases"] += 1
                want = (text, 0)
                got = tuple(res) if isinstance(res, tuple) else ("raised:%s" % se.describe_exc(exc) if exc else repr(res))
                if got != want:
                    split = isinstance(got, tuple) and isinstance(got[0], str) and "\ufffd" in got[0]
                    first = next((i for i, (a, b) in enumerate(zip(text, got[0])) if a != b), min(len(text), len(got[0]))) \
                        if isinstance(got, tuple) and isinstance(got[0], str) else None
                    ctx.violation("session:%s:unicode-%s:buffer-%d" % ("character-split-by-read" if split else "output",
                                                                     name.split("-")[0] if name.startswith("small") else name, bs),
                                  {"kind": "large", "text": name, "chars": len(text), "bytes": len(text.encode()), "nl": nl,
                                   "buffer": bs, "first_difference_at_char": first,
                                   "got": (got[0][max(0, (first or 0) - 10):(first or 0) + 30], got[1]) if isinstance(got, tuple) else got},
                                  "persistent shell with transferBufferSize %d: %d characters (%d bytes) of multi-byte text came "
                                  "back %s" % (bs, len(text), len(text.encode()),
                                               ("with %d U+FFFD, first difference at character %s" % (got[0].count("\ufffd"), first))
                                               if split else (got if not isinstance(got, tuple) else "altered (length %d, status %s)"
                                                              % (len(got[0]), got[1]))))
    finally:
        for c in conns.values():
            await se.guarded(c.undeploy(False), 30)


def ss_chars(w):
    from vh.sut import shell_session as ss
    return ss.CHARS[w]


def _quiet_logs():
    import logging
    try:
        from streamflow.log_handler import logger
        logger.setLevel(logging.ERROR)
    except Exception:  # noqa
        pass


def _t(ctx, what):
    import time
    now = time.time()
    last = getattr(ctx, "_c25_t", ctx.t0)
    ctx.extra.setdefault("phase_wall_s", {})[what] = round(now - last, 1)
    ctx._c25_t = now


def _model_cex(ctx, invs):
    """As coded, the model violates the property: one TLC counterexample per invariant (prefix behaviours)."""
    from vh.sut import shell_session as ss
    cex = []
    # as coded: the model predicts violations; every counterexample is replayed on the real code below
    cex = []
    for inv in invs:
        r = ctx.tlc("Shell", "MC_Shell", "asis.cfg", files={"asis.cfg": _shell_cfg(2, True, True, ASIS, [inv])}, timeout=1800)
        ctx.require(r.error == "invariant" and r.trace, "the as-coded model was expected to violate %s" % inv)
        last = r.trace[-1]["state"]
        n = len(last["attr"])
        b = _norm_beh({"attr": last["attr"], "hist": last["hist"], "ret": last["ret"], "runs": last["runs"],
                       "garbled": last["garbled"], "expected": None})
        # the counterexample stops at the violation: the calls that were not made are not judged
        b["expected"] = [[("timeout" if a["slow"] != "no" else "ok"),
                          ([] if a["slow"] != "no" else _strip_tokens(ss.out_tokens(a["shape"], k + 1))),
                          (0 if a["slow"] != "no" else a["status"])] for k, a in enumerate(b["attr"])]
        b["cex_of"] = inv
        b["partial"] = True
        cex.append(b)
    return cex


def _replay_cex(ctx, cex, stats, where="model_counterexamples"):
    from vh.sut import shell_session as ss
    # the model's counterexamples, replayed: does the real code follow them?  (A counterexample is a prefix of a
    # behaviour; the verdicts on the code come from the complete generated behaviours above, here we only record
    # whether the code reproduces what the model says for the calls that were made.)
    for b in cex:
        made = sorted({s_["k"] for s_ in b["hist"] if s_["a"] == "call"})
        pb = _only_calls(b, set(made))
        res, exc = ss.run_virtual(ss.replay_fake(pb))
        if exc is not None:
            raise exc
        ok = True
        for k in made:
            if b["ret"][k - 1]["kind"] == "none":
                continue
            got = res["calls"][k]
            g = {"kind": got["kind"], "out": ss.normalise_output(got["out"]) if got["kind"] == "ok" else "",
                 "st": got["st"] if got["kind"] == "ok" else 0}
            ok &= (g == ss.spec_obs(pb, k))
        stats["fake:%s_replayed" % ("counterexamples" if where == "model_counterexamples" else where)] += 1
        stats["fake:%s_followed_by_the_code" % ("counterexamples" if where == "model_counterexamples" else where)] += 1 if ok else 0
        ctx.extra.setdefault(where, []).append(
            {"invariant": b["cex_of"], "attr": pb["attr"], "hist": b["hist"], "code_follows": ok})


def part_a(ctx):
    from vh.sut import shell_session as ss
    stats = _Stats()
    _quiet_logs()
    # ---- 1. the model
    r = ctx.tlc("Shell", "MC_Shell", "clean.cfg", files={"clean.cfg": _shell_cfg(3, False, False, ASIS, INVARIANTS)}, timeout=1800)
    if not r.ok:
        ctx.require(False, "Shell: the protocol without timeouts/failures violates %s in the model: specification error\n%s"
                    % (r.violated, r.stdout[-1500:]))
    nfix = ctx.pick(2, 3)
    r = ctx.tlc("Shell", "MC_Shell", "fixed.cfg", files={"fixed.cfg": _shell_cfg(nfix, True, True, FIXED, INVARIANTS)}, timeout=3000)
    if not r.ok:
        ctx.require(False, "Shell: the repaired protocol violates %s in the model\n%s" % (r.violated, r.stdout[-1500:]))
    # the shell's own state (cwd, exported variable): as coded the preamble of a command runs in a child process
    r = ctx.tlc("Shell", "MC_Shell", "state.cfg",
                files={"state.cfg": _shell_cfg(3, False, False, ASIS, [i for i in INVARIANTS if i not in ("NoSpuriousTimeout", "VerbatimCommand")]
                                               + ["ShellStateUnchanged"], statuses="{0}", shapes=STATE_SHAPES, pres=STATE_PRES)},
                timeout=1800)
    if not r.ok:
        ctx.require(False, "Shell: the as-coded protocol changes the session state in the model (%s)\n%s" % (r.violated, r.stdout[-1500:]))
    # text made of multi-byte characters: the pipe carries byte units, a chunk may end inside a character, the
    # shell's incremental decoder carries the pending units to the next read (every chunking, every text of <= 2
    # characters of 1..4 units, two commands in a row)
    r = ctx.tlc("Shell", "MC_Shell", "utf.cfg",
                files={"utf.cfg": _shell_cfg(2, False, False, ASIS, INVARIANTS + ["WholeCharacters"], statuses=ctx.pick("{0}", "{0, 3}"),
                                             shapes=ctx.pick(UTF_SHAPES_Q, UTF_SHAPES_T), utf_len=2, utf_widths=UTF_WIDTHS)},
                timeout=3000)
    if not r.ok:
        ctx.require(False, "Shell: multi-byte text is not returned verbatim in the model (%s): specification error\n%s"
                    % (r.violated, r.stdout[-1500:]))
    utf_cex = []
    if not ctx.quick:
        # repaired protocol with timeouts that fire while half a character is pending in the decoder
        r = ctx.tlc("Shell", "MC_Shell", "utf_fixed.cfg",
                    files={"utf_fixed.cfg": _shell_cfg(2, True, True, FIXED, INVARIANTS + ["WholeCharacters"], statuses="{0}",
                                                       shapes=UTF_SHAPES_Q, utf_len=2, utf_widths="{2, 4}")}, timeout=3000)
        if not r.ok:
            ctx.require(False, "Shell: the repaired protocol loses multi-byte text in the model (%s)\n%s" % (r.violated, r.stdout[-1500:]))
        # sensitivity: a decoder without memory (every chunk decoded on its own) must violate WholeCharacters in the model
        r = ctx.tlc("Shell", "MC_Shell", "utf_stateless.cfg",
                    files={"utf_stateless.cfg": _shell_cfg(1, False, False, ASIS, ["WholeCharacters"], statuses="{0}", shapes='{"utf"}',
                                                           utf_len=1, utf_widths=UTF_WIDTHS, incremental=False)}, timeout=1800)
        ctx.require(r.error == "invariant" and r.trace, "per-chunk decoding must violate WholeCharacters in the model")
        last = r.trace[-1]["state"]
        b = _norm_beh({"attr": last["attr"], "hist": last["hist"], "ret": last["ret"], "runs": last["runs"],
                       "garbled": last["garbled"], "expected": None})
        b["expected"] = [["ok", ss.out_tokens(a["shape"], k + 1, txt=a["txt"]), a["status"]] for k, a in enumerate(b["attr"])]
        b["cex_of"] = "WholeCharacters (IncrementalDecode = FALSE)"
        utf_cex.append(b)
    if not ctx.quick:
        # sensitivity: with the preamble executed by the session shell itself the model must see the leak
        r = ctx.tlc("Shell", "MC_Shell", "leak.cfg",
                    files={"leak.cfg": _shell_cfg(2, False, False, LEAK, ["FreshEquivalence"], statuses="{0}",
                                                  shapes=STATE_SHAPES, pres=STATE_PRES)}, timeout=1800)
        ctx.require(r.error == "invariant", "a preamble executed by the session shell must violate FreshEquivalence in the model")
    cex = _model_cex(ctx, ctx.pick([], ["FreshEquivalence", "ReturnedOnce", "NeverTwice", "VerbatimCommand"]))
    ctx.count("session:model_counterexamples", len(cex))
    _t(ctx, "a:model")
    # ---- 2. behaviours for the binding (as-coded variant: the environment choices are the same in every variant)
    g = ctx.tlc("Shell", "MC_Shell", "gen.cfg", files={"gen.cfg": _shell_cfg(3, True, True, ASIS, [], gen=True)}, workers=1,
                count=False, simulate={"num": ctx.pick(260, 2500), "depth": 90}, timeout=3000)
    seen, behs = set(), []
    for b in g.printed_json():
        if "hist" not in b:
            continue
        b = _norm_beh(b)
        key = _beh_key(b)
        if key not in seen:
            seen.add(key)
            behs.append(b)
    g2 = ctx.tlc("Shell", "MC_Shell", "gen_state.cfg",
                 files={"gen_state.cfg": _shell_cfg(3, False, False, ASIS, [], gen=True, statuses="{0}", shapes=STATE_SHAPES,
                                                    pres=STATE_PRES)}, workers=1, count=False,
                 simulate={"num": ctx.pick(120, 600), "depth": 60}, timeout=1800)
    state_behs = []
    for b in g2.printed_json():
        if "hist" not in b:
            continue
        b = _norm_beh(b)
        key = _beh_key(b)
        if key not in seen:
            seen.add(key)
            state_behs.append(b)
    follow_up = sum(1 for b in state_behs for a1, a2 in zip(b["attr"], b["attr"][1:])
                    if a1["pre"] != "none" and a2["shape"] == "probe" and a2["pre"] != "both")
    ctx.require(follow_up >= 10, "vacuous: only %d probe commands follow a command with workdir/environment" % follow_up)
    ctx.count("session:state_behaviours_generated", len(state_behs))
    ctx.count("session:probe_after_preamble_pairs", follow_up)
    # behaviours whose commands print multi-byte text (timeouts, stalls in the middle of a character and shell death
    # included): simulated, thorough: additionally EVERY chunking of every text of <= 2 characters (one command)
    utf_behs = []
    gens = [ctx.tlc("Shell", "MC_Shell", "gen_utf.cfg",
                    files={"gen_utf.cfg": _shell_cfg(2, True, True, ASIS, [], gen=True, statuses="{0}",
                                                     shapes=ctx.pick(UTF_SHAPES_Q, '{"utf", "utfl", "nonl"}'), utf_len=2,
                                                     utf_widths=UTF_WIDTHS)}, workers=1, count=False,
                    simulate={"num": ctx.pick(400, 2000), "depth": 70}, timeout=3000)]
    if not ctx.quick:
        gens.append(ctx.tlc("Shell", "MC_Shell", "gen_utf_all.cfg",
                            files={"gen_utf_all.cfg": _shell_cfg(1, False, False, ASIS, [], gen=True, statuses="{0}", shapes='{"utf"}',
                                                                 utf_len=2, utf_widths=UTF_WIDTHS)}, workers=1, count=False, timeout=3000))
    for gx in gens:
        for b in gx.printed_json():
            if "hist" not in b:
                continue
            b = _norm_beh(b)
            key = _beh_key(b)
            if key not in seen:
                seen.add(key)
                utf_behs.append(b)
    ctx.count("session:utf_behaviours_generated", len(utf_behs))
    ctx.require(len(utf_behs) >= 100, "only %d behaviours with multi-byte text generated" % len(utf_behs))
    ctx.require(len(behs) >= 100, "only %d behaviours generated" % len(behs))
    acts = {}
    for b in behs:
        for s_ in b["hist"]:
            acts[s_["a"]] = acts.get(s_["a"], 0) + 1
    ctx.require(all(acts.get(a, 0) > 0 for a in ("call", "run", "read", "timeout", "wake", "kill")),
                "vacuous generation: action counts %s" % acts)
    ctx.extra["session_actions_in_generated_behaviours"] = acts
    ctx.count("session:behaviours_generated", len(behs))
    ctx.count("session:model_predicts_violation", sum(1 for b in behs if any(
        [r_["kind"], r_["out"], r_["st"]] != e for r_, e in zip(b["ret"], b["expected"])) or any(x > 1 for x in b["runs"])
        or any(b["garbled"])))
    _t(ctx, "a:generate")
    # ---- 3. chunk-exact binding on the scripted environment (virtual time)
    _replay_fake_batch(ctx, behs + state_behs, stats)
    res = _replay_fake_batch(ctx, utf_behs, stats)
    split = [o["split_reads"] for o in res if not o["unparsed"]]
    stats["fake:reads_ending_inside_a_character"] = sum(split)
    stats["fake:behaviours_with_a_read_ending_inside_a_character"] = sum(1 for x in split if x)
    ctx.require(sum(1 for x in split if x) >= ctx.pick(50, 400) or stats["fake:framing_not_understood"],
                "vacuous: only %d replayed behaviours had a read that ends inside a multi-byte character" % sum(1 for x in split if x))
    _replay_cex(ctx, cex, stats)
    _replay_cex(ctx, utf_cex, stats, "decoder_sensitivity")
    ctx.sample({"behaviour": {"attr": behs[0]["attr"], "hist": behs[0]["hist"]}, "spec_ret": behs[0]["ret"]})
    _t(ctx, "a:fake")
    # ---- 4. real /bin/sh sessions
    chosen = _select(behs, ctx.pick(24, 120), ctx.rng("real")) + _select(state_behs, ctx.pick(14, 80), ctx.rng("real-state"))
    # multi-byte text in real sessions: the read size (transferBufferSize) is the handle on the chunking
    chosen += [dict(b, bufsize=REAL_BUFFERS[i % len(REAL_BUFFERS)])
               for i, b in enumerate(_select(utf_behs, ctx.pick(12, 60), ctx.rng("real-utf")))]
    _replay_real_batch(ctx, chosen, stats)
    _t(ctx, "a:real")
    _, exc = aio.run(_large_outputs(ctx, stats), timeout=1200)
    if exc is not None:
        raise exc
    _, exc = aio.run(_unicode_outputs(ctx, stats), timeout=1800)
    if exc is not None:
        raise exc
    _t(ctx, "a:large")
    for k, val in stats.items():
        if k.endswith("samples"):
            if val:
                ctx.extra["session_" + k] = val
        elif isinstance(val, list):
            ctx.extra["session_" + k] = val
        else:
            ctx.count("session:" + k, val)
    for w in ("fake", "real"):
        nb, nf = stats["%s:behaviours" % w], stats["%s:behaviours_following_spec" % w]
        if nb != nf:
            print("NOTE C25: %d of %d %s-session behaviours do not follow the as-coded specification (the protocol "
                  "changed, or the model is wrong); see evidence session_%s:divergence_samples" % (nb - nf, nb, w, w), flush=True)
    ctx.impl_trace(stats["fake:behaviours"] + stats["real:behaviours"])


def _strip_tokens(toks):
    toks = list(toks)
    while toks and toks[0][0] == "nl":
        toks.pop(0)
    while toks and toks[-1][0] == "nl":
        toks.pop()
    return toks


def _only_calls(b, made):
    """Restrict a (prefix) behaviour to the calls that were made."""
    n = max(made) if made else 0
    c = dict(b)
    for key in ("attr", "ret", "runs", "garbled", "expected"):
        c[key] = b[key][:n]
    return c


# ================================================================================================

def _record_signatures(ctx):
    """Every signature handed to ctx.violation is counted in the evidence (to audit stale known-finding patterns)."""
    seen = ctx.extra.setdefault("signatures_seen", {})
    orig = ctx.violation

    def violation(signature, detail=None, what=""):
        seen[signature] = seen.get(signature, 0) + 1
        return orig(signature, detail, what)
    ctx.violation = violation


def run(ctx):
    _record_signatures(ctx)
    ctx.rule = ("(b) every sequence of <=3 (thorough 4) character classes out of 11, instantiated with concrete characters, as "
                "environment value, working directory and argument through the real LocalConnector.run, BaseConnector.run (shell "
                "path and fallback path) and CommandTemplateMap.get_command, executed by /bin/sh with a probe script; non-trivial = "
                "the value has a non-plain character")
    _quiet_logs()
    if os.environ.get("VH_C25_PART", "ab").find("b") >= 0:
        part_b(ctx)
        _t(ctx, "b")
    if os.environ.get("VH_C25_PART", "ab").find("a") >= 0:
        part_a(ctx)
    if os.environ.get("VH_C25_PART", "ab").find("c") >= 0:      # development aid: only the counterexample loop
        st = _Stats()
        _replay_cex(ctx, _model_cex(ctx, ["FreshEquivalence", "ReturnedOnce", "NeverTwice", "VerbatimCommand"]), st)
        ctx.extra["cex_stats"] = dict(st)
    ctx.assumptions += ["/bin/sh is dash (POSIX sh); variables k, kk, kkk and VHK are unset and no executable of those names exists",
                        "returned output is compared modulo str.strip(), which every run path applies"]


def replay(ctx, data):
    """Re-run exactly the failing case: one (site, value) of part (b) or one behaviour of part (a)."""
    _quiet_logs()
    d = data.get("detail", {})
    kind = d.get("kind")
    if kind == "session" and d.get("behaviour"):
        beh = _norm_beh(d["behaviour"])
        stats = _Stats()
        if d.get("world") == "real":
            _replay_real_batch(ctx, [beh], stats)
        else:
            _replay_fake_batch(ctx, [beh], stats)
        return
    if kind == "quoting" and d.get("site") in SITE_RUN:
        bench = QuoteBench(ctx)
        stats = _Stats()
        v, s, site = d["v"], d["value"], d["site"]
        what = SITE_RUN[site]
        ctxname = {"unquoted-context": "UNQ", "double-quote-context": "DQ"}.get(data["signature"].split(":")[-2 if "unpredicted" not in data["signature"] else -3], "SQ2")

        async def one():
            os.chdir(bench.empty)
            if d.get("path", "").startswith("CommandTemplateMap"):
                return None
            conn = bench.local if d.get("path", "").startswith("LocalConnector") else bench.Remote("vh-remote", bench.root, 65536)
            kw = {"env": {"envs": [s]}, "arg": {"args": [s]}, "cd": {"workdir": bench.workdir(s)}}[what]
            o = await _run_probe(bench, conn, timeout=30, **kw)
            if conn is not bench.local:
                await se.guarded(conn.undeploy(False), 30)
            return o
        cwd = os.getcwd()
        try:
            o, exc = aio.run(one(), timeout=300)
        finally:
            os.chdir(cwd)
        if exc is not None:
            raise exc
        if o is not None:
            _judge(ctx, site, ctxname, v, s, d["spec"], _received(o, what, bench), o, stats, d.get("path", "?"))
            return
    run(ctx)


SITE_RUN = {"create_command:export": "env", "create_command:cd": "cd", "argv": "arg",
            "_build_shell_command:export": "env", "_build_shell_command:cd": "cd", "get_command:export": "env"}
