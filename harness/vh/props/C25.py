"""C25 - commands run exactly once with verbatim arguments, environment and output (module Shell).

Part (b), quoting contexts (specs/Shell/ShellQuote.tla): TLC enumerates every value over 11 character
classes (length <= 3, thorough 4), proves that shlex.quote is transparent (also nested in `sh -c`) and
emits, for every lexical context, the word the POSIX shell hands to the command.  Binding: every value is
instantiated with concrete characters and pushed through the REAL LocalConnector.run (create_command:
export / cd), the REAL BaseConnector.run (persistent shell path = _build_shell_command, and the fallback
path), and CommandTemplateMap.get_command, executed by the real /bin/sh with a probe script that dumps
environment, cwd and argv as raw bytes.  Verdict: received == value (the property); the specification's
predicted word is compared as well (binding).

Part (a), session protocol (specs/Shell/Shell.tla): see part_a below.
"""
from __future__ import annotations

import asyncio
import json
import os
import shlex
import sys

from vh import aio
from vh.sut import shell_env as se

LEVEL = "model_checking"

CTX_NAME = {"UNQ": "unquoted-context", "DQ": "double-quote-context", "SQ": "shlex-quoted-context",
            "SQ2": "shlex-quoted-context"}


# ================================================================================================
# part (b): quoting
# ================================================================================================

class QuoteBench:
    """Scratch layout + the real connectors for the quoting runs."""

    def __init__(self, ctx):
        self.ctx = ctx
        self.root = os.path.realpath(ctx.scratch("quote"))
        self.wd = os.path.join(self.root, "wd")          # one directory per value
        self.out = os.path.join(self.root, "out")
        self.empty = os.path.join(self.root, "empty")    # cwd of the harness while commands run
        for d in (self.wd, self.out, self.empty):
            os.makedirs(d, exist_ok=True)
        self.probe = se.write_probe(self.root)
        self.n = 0
        self.runs = 0
        from streamflow.deployment.connector.local import LocalConnector
        self.local = LocalConnector("vh-local", self.root, 65536)
        self.Remote = se.make_remote_class()
        self.loc = se.location()

    def outprefix(self) -> str:
        self.n += 1
        return os.path.join(self.out, "o%d" % self.n)

    def workdir(self, s: str) -> str:
        d = os.path.join(self.wd, s)
        os.makedirs(d, exist_ok=True)
        return d


async def _run_probe(bench, conn, *, envs=None, workdir=None, args=None, job_name=None, timeout=60):
    """One real run of the probe through `conn.run` with environment values `envs` (VHK0..), a working
    directory and caller-quoted arguments; returns what the probe saw + what run() returned/raised."""
    out = bench.outprefix()
    envs = list(envs or [])
    cmd = ["sh", bench.probe, out, str(len(envs))] + [shlex.quote(a) for a in (args or [])]
    kw = {}
    if job_name is not None:
        kw["job_name"] = job_name
    bench.runs += 1
    res, exc = await se.guarded(
        conn.run(bench.loc, cmd, environment=({"%s%d" % (se.ENV_KEY, i): e for i, e in enumerate(envs)} if envs else None),
                 workdir=workdir, capture_output=True, timeout=timeout, **kw), timeout + 30)
    obs = se.read_probe(out)
    obs["returned"] = list(res) if isinstance(res, tuple) else res
    obs["raised"] = se.describe_exc(exc) if exc is not None else None
    return obs


def _received(obs, what, bench, i=0):
    """The word the command received at the given site, or None when the probe did not run (once)."""
    if obs["ran"] != 1:
        return None
    if what == "env":
        return obs["env"][i] if i < len(obs["env"]) else None
    if what == "cd":
        c = obs["cwd"]
        pre = bench.wd + "/"
        if c == bench.wd:
            return ""
        return c[len(pre):] if c.startswith(pre) else "<outside:%s>" % c
    if what == "arg":
        return obs["argv"][i] if i < len(obs["argv"]) else None
    raise AssertionError(what)


def _judge(ctx, site, ctxname, v, s, pred, got, obs, stats, path):
    """Property: got == s.  Binding: the specification's exact word, when it predicts one."""
    key = (site, path, se.cls_name(v))
    ctx.case(key, nontrivial=any(c != "plain" for c in v))
    exact = pred["kind"] == "word"
    pred_word = se.concrete(pred["word"]) if exact else None
    if exact:
        if got == pred_word:
            stats["binding_agree"] += 1
        else:
            stats["binding_diverge"] += 1
            if len(stats["diverge_samples"]) < 8:
                stats["diverge_samples"].append({"site": site, "path": path, "v": v, "spec": pred_word, "got": got})
    else:
        stats["binding_unspecified"] += 1
    stats["cases:%s" % site] += 1
    if got == s:
        if not exact or pred_word != s:
            stats["ok_although_spec_predicts_alteration"] += 1
        return True
    if pred["blame"] != "none":
        sig = "quoting:%s:%s:%s" % (site, CTX_NAME[ctxname], pred["blame"])
    else:
        odd = [c for c in v if c != "plain"]
        sig = "quoting:%s:%s:unpredicted:%s" % (site, CTX_NAME[ctxname], odd[0] if odd else se.cls_name(v))
    small = {k: obs.get(k) for k in ("ran", "cwd", "returned", "raised")}
    ctx.violation(sig, {"kind": "quoting", "site": site, "path": path, "v": v, "value": s, "received": got,
                        "spec": pred, "probe": small},
                  "%s via %s: value %r reached the command as %r" % (site, path, s, got))
    stats["violating:%s" % site] += 1
    return False


class _Stats(dict):
    def __getitem__(self, k):
        if k not in self:
            self[k] = [] if k.endswith("samples") else 0
        return dict.__getitem__(self, k)


def _chunks(xs, n):
    return [xs[i:i + n] for i in range(0, len(xs), n)]


def _pw(row, c):
    return se.concrete(row[c]["word"]) if row[c]["kind"] == "word" else None


async def _env_site(ctx, bench, stats, sem, site, c, path, batchable, singles, runner, B=40):
    """Environment values at one site.  Values for which the specification predicts an exact word are sent
    B at a time (B variables in one command); when anything in a batch deviates from the prediction the
    batch is repeated one value per command, so that a broken command line cannot mask its neighbours."""
    async def single(row):
        async with sem:
            s = se.concrete(row["v"])
            obs = await runner([s])
            _judge(ctx, site, c, row["v"], s, row[c], _received(obs, "env", bench, 0), obs, stats, path)

    async def batch(rows):
        async with sem:
            ss = [se.concrete(r["v"]) for r in rows]
            obs = await runner(ss)
        got = [_received(obs, "env", bench, i) for i in range(len(rows))]
        if all(g == _pw(r, c) for g, r in zip(got, rows)):
            for g, r, s in zip(got, rows, ss):
                _judge(ctx, site, c, r["v"], s, r[c], g, obs, stats, path)
        else:
            stats["batches_repeated_singly"] += 1
            await asyncio.gather(*(single(r) for r in rows))

    await asyncio.gather(*([batch(b) for b in _chunks(batchable, B)] + [single(r) for r in singles]))


async def _quote_binding(ctx, bench, table, sites, stats, plan):
    sem = asyncio.Semaphore(ctx.pick(8, 12))
    os.chdir(bench.empty)
    asis = sites["asis"]
    by_name = {se.cls_name(r["v"]): r for r in table}

    def split(c, sample_key):
        exact = [r for r in table if r[c]["kind"] == "word"]
        rest = [r for r in table if r[c]["kind"] != "word" and se.cls_name(r["v"]) in plan[sample_key]]
        return exact, rest

    # ---- create_command: export K="value"   (LocalConnector.run -> sh -c)
    c = asis["create_command:export"]
    ex, rest = split(c, "singles")
    await _env_site(ctx, bench, stats, sem, "create_command:export", c, "LocalConnector.run", ex, rest,
                    lambda ss: _run_probe(bench, bench.local, envs=ss))

    # ---- create_command: cd workdir   (one directory per command)
    c = asis["create_command:cd"]

    async def cd_case(row):
        v = row["v"]
        s = se.concrete(v)
        async with sem:
            obs = await _run_probe(bench, bench.local, workdir=bench.workdir(s))
        _judge(ctx, "create_command:cd", c, v, s, row[c], _received(obs, "cd", bench), obs, stats, "LocalConnector.run")

    await asyncio.gather(*(cd_case(by_name[n]) for n in plan["cd"]))

    # ---- caller-quoted arguments through LocalConnector.run's own sh -c layer
    c = asis["argv"]

    async def arg_batch(rows):
        ss = [se.concrete(r["v"]) for r in rows]
        async with sem:
            obs = await _run_probe(bench, bench.local, args=ss)
        got = [_received(obs, "arg", bench, i) for i in range(len(rows))]
        if len(rows) > 1 and not all(g == s for g, s in zip(got, ss)):
            stats["batches_repeated_singly"] += 1
            await asyncio.gather(*(arg_batch([r]) for r in rows))
            return
        for g, r, s in zip(got, rows, ss):
            _judge(ctx, "argv", c, r["v"], s, r[c], g, obs, stats, "LocalConnector.run")

    await asyncio.gather(*(arg_batch(b) for b in _chunks(table, 40)))

    # ---- template: CommandTemplateMap.get_command renders export K="value" into a script run by /bin/sh
    from streamflow.deployment.template import CommandTemplateMap
    tmap = CommandTemplateMap(default="#!/bin/sh\n\n{{streamflow_command}}",
                              template_map={"svc": "#!/bin/sh\n{{streamflow_environment}}\n{{streamflow_command}}\n"})

    async def template_run(ss):
        out = bench.outprefix()
        bench.runs += 1
        try:
            text = tmap.get_command(command="sh %s %s %d" % (bench.probe, out, len(ss)), template="svc",
                                    environment={"%s%d" % (se.ENV_KEY, i): s for i, s in enumerate(ss)}, workdir=None)
            exc = None
        except Exception as e:  # noqa
            text, exc = None, e
        if text is not None:
            script = out + ".script"
            with open(script, "w") as f:
                f.write(text)
            p = await asyncio.create_subprocess_exec("/bin/sh", script, stdin=asyncio.subprocess.DEVNULL,
                                                     stdout=asyncio.subprocess.DEVNULL,
                                                     stderr=asyncio.subprocess.DEVNULL)
            await asyncio.wait_for(p.wait(), 120)
        obs = se.read_probe(out)
        obs["returned"] = None
        obs["raised"] = se.describe_exc(exc) if exc else None
        return obs

    c = asis["get_command:export"]
    ex, rest = split(c, "singles_template")
    await _env_site(ctx, bench, stats, sem, "get_command:export", c, "CommandTemplateMap.get_command+/bin/sh", ex, rest,
                    template_run)

    # ---- BaseConnector.run, persistent shell path (_build_shell_command): B environment values + B arguments
    #      + one working directory per command; on any deviation the sites are repeated separately, singly.
    remote = bench.Remote("vh-remote", bench.root, 65536)
    c = asis["_build_shell_command:export"]
    path = "BaseConnector.run(shell)"
    hangs = 0
    cd_names = list(plan["cd_shell"])
    try:
        groups = _chunks(table, max(1, len(table) // max(1, len(cd_names))))
        for gi, rows in enumerate(groups):
            ss = [se.concrete(r["v"]) for r in rows]
            cdrow = by_name[cd_names[gi]] if gi < len(cd_names) else None
            cds = se.concrete(cdrow["v"]) if cdrow else None
            obs = await _run_probe(bench, remote, envs=ss, args=ss, workdir=bench.workdir(cds) if cdrow else None, timeout=20)
            ge = [_received(obs, "env", bench, i) for i in range(len(rows))]
            ga = [_received(obs, "arg", bench, i) for i in range(len(rows))]
            gc = _received(obs, "cd", bench) if cdrow else None
            if ge == ss and ga == ss and gc == cds and obs["raised"] is None:
                for g, r, s in zip(ge, rows, ss):
                    _judge(ctx, "_build_shell_command:export", c, r["v"], s, r[c], g, obs, stats, path)
                for g, r, s in zip(ga, rows, ss):
                    _judge(ctx, "argv", c, r["v"], s, r[c], g, obs, stats, path)
                if cdrow:
                    _judge(ctx, "_build_shell_command:cd", c, cdrow["v"], cds, cdrow[c], gc, obs, stats, path)
                continue
            stats["batches_repeated_singly"] += 1
            todo = [("_build_shell_command:export", "env", r) for r in rows] + [("argv", "arg", r) for r in rows]
            if cdrow:
                todo.append(("_build_shell_command:cd", "cd", cdrow))
            for site, what, r in todo:
                s = se.concrete(r["v"])
                kw = {"env": {"envs": [s]}, "arg": {"args": [s]}, "cd": {"workdir": bench.workdir(s) if r["v"] else None}}[what]
                o = await _run_probe(bench, remote, timeout=20, **kw)
                if o["raised"] and "Timeout" in o["raised"]:
                    hangs += 1
                _judge(ctx, site, c, r["v"], s, r[c], _received(o, what, bench), o, stats, path)
                if hangs >= 3:
                    break
            if hangs >= 3:
                stats["shell_path_aborted_after_hangs"] += 1
                break
    finally:
        await se.guarded(remote.undeploy(False), 30)

    # ---- BaseConnector.run, fallback path (job_name given => no persistent shell).  A site that fails even for
    #      the plain value is reported once as "run without a shell" and not enumerated further.
    remote = bench.Remote("vh-remote-fb", bench.root, 65536)
    order = [by_name["plain"]] + [r for r in table if r["v"] != ["plain"] and se.cls_name(r["v"]) in plan["fallback"]]
    broken = set()
    for idx, row in enumerate(order):
        v = row["v"]
        s = se.concrete(v)
        for site, what, kw in (("fallback:export", "env", {"envs": [s]}),
                               ("fallback:cd", "cd", {"workdir": bench.workdir(s) if v else None}),
                               ("fallback:argv", "arg", {"args": [s]})):
            if (what == "cd" and not v) or what in broken:
                continue
            o = await _run_probe(bench, remote, job_name="vh-job", timeout=30, **kw)
            got = _received(o, what, bench)
            if what == "arg" and got == s and o["argv"] != [s]:
                got = o["argv"]              # the whole argument vector must be the caller's
            ctx.case((site, se.cls_name(v)))
            stats["cases:%s" % site] += 1
            if got != s:
                small = {k: o.get(k) for k in ("ran", "cwd", "argv", "returned", "raised")}
                if idx == 0:
                    broken.add(what)
                    ctx.violation("fallback:argv-run-without-shell:%s" % what,
                                  {"kind": "fallback", "site": site, "v": v, "value": s, "received": got, "probe": small},
                                  "BaseConnector.run fallback path (%s): plain value %r reached the command as %r (%s)"
                                  % (what, s, got, o["raised"] or o["returned"]))
                    stats["fallback_broken:%s" % what] += 1
                else:
                    ctx.violation("quoting:%s:%s" % (site, [c for c in v if c != "plain"][0]),
                                  {"kind": "fallback", "site": site, "v": v, "value": s, "received": got, "probe": small},
                                  "BaseConnector.run fallback path (%s): value %r reached the command as %r" % (what, s, got))
        if len(broken) == 3:
            stats["fallback_enumeration_skipped"] += 1
            break


def _plan(ctx, table):
    """Which values go through the one-command-per-value runs (the batched runs always take every value)."""
    rng = ctx.rng("plan")
    names = {k: [se.cls_name(r["v"]) for r in table if len(r["v"]) == k] for k in range(0, 5)}
    short = names[0] + names[1] + names[2]

    def some(k, n):
        return rng.sample(names[k], min(n, len(names[k])))

    if ctx.quick:
        return {"singles": set(short + some(3, 90)), "singles_template": set(names[0] + names[1] + some(2, 40) + some(3, 40)),
                "cd": [n for n in short if n != "empty"] + some(3, 60),
                "cd_shell": [n for n in short if n != "empty"],
                "fallback": set(names[1] + some(2, 30))}
    return {"singles": set(short + names[3] + some(4, 800)), "singles_template": set(short + some(3, 400) + some(4, 300)),
            "cd": [n for n in short if n != "empty"] + names[3] + some(4, 800),
            "cd_shell": [n for n in short if n != "empty"] + names[3],
            "fallback": set(short + some(3, 200))}


def part_b(ctx):
    L = ctx.pick(3, 4)
    wd = ctx.spec_workdir("Shell")
    cfg = open(os.path.join(wd, "Gen_ShellQuote.cfg")).read().replace("L = 3", "L = %d" % L)
    r = ctx.tlc("Shell", "MC_ShellQuote", "Gen.cfg", workdir=wd, files={"Gen.cfg": cfg}, workers=1, timeout=2400)
    if not r.ok:
        ctx.require(False, "ShellQuote lemma fails in the model (%s): specification error\n%s" % (r.violated, r.stdout[-1500:]))
    rows = r.printed_json()
    sites = next(x["sites"] for x in rows if "sites" in x)
    table = [x for x in rows if "v" in x]
    n_expected = sum(11 ** k for k in range(L + 1))
    ctx.require(len(table) == n_expected, "expected %d values from TLC, got %d" % (n_expected, len(table)))
    for row in table:
        row["v"] = row["v"] or []
        for c in ("UNQ", "DQ", "SQ", "SQ2"):
            row[c]["word"] = row[c]["word"] or []
    # vacuity: the specification must predict alterations in the contexts the code uses today
    interp = {c: sorted({row[c]["blame"] for row in table} - {"none"}) for c in ("UNQ", "DQ", "SQ", "SQ2")}
    ctx.require(interp["SQ"] == [] and interp["SQ2"] == [] and len(interp["DQ"]) >= 4 and len(interp["UNQ"]) >= 9,
                "unexpected interpretation table %s" % interp)
    ctx.extra["interpreted_classes_by_context"] = interp
    ctx.extra["site_contexts"] = sites
    ctx.count("quoting_values", len(table))
    ctx.count("spec_predicts_alteration:DQ", sum(1 for x in table if x["DQ"]["blame"] != "none"))
    ctx.count("spec_predicts_alteration:UNQ", sum(1 for x in table if x["UNQ"]["blame"] != "none"))
    # oracles
    bad = se.which_any(["k", "kk", "kkk", "kkkk"])
    ctx.require(not bad, "the probe alphabet collides with executables %s" % bad)
    for name in ["k", "kk", "kkk", "kkkk"] + [n for n in os.environ if n.startswith(se.ENV_KEY)]:
        os.environ.pop(name, None)
    ctx.require(os.path.realpath("/bin/sh").endswith(("dash", "sh", "bash")), "no /bin/sh")
    bench = QuoteBench(ctx)
    plan = _plan(ctx, table)
    stats = _Stats()
    cwd = os.getcwd()
    try:
        _, exc = aio.run(_quote_binding(ctx, bench, table, sites, stats, plan), timeout=ctx.pick(900, 3000))
    finally:
        os.chdir(cwd)
    if exc is not None:
        raise exc
    ctx.count("quoting:commands_executed", bench.runs)
    for k, val in stats.items():
        if not k.endswith("samples"):
            ctx.count("quoting:" + k, val)
    if stats["diverge_samples"]:
        ctx.extra["binding_divergence_samples"] = stats["diverge_samples"]
        print("NOTE C25: the real /bin/sh result differs from the word predicted by ShellQuote for %d (site, value) pairs "
              "(the rendering context of a site changed, or the lexer model is wrong); first: %s"
              % (stats["binding_diverge"], stats["diverge_samples"][0]), flush=True)
    ctx.impl_trace(stats["binding_agree"] + stats["binding_diverge"] + stats["binding_unspecified"])
    ctx.sample({"value": table[200]["v"], "concrete": se.concrete(table[200]["v"]), "spec_DQ": table[200]["DQ"],
                "spec_UNQ": table[200]["UNQ"]})


# ================================================================================================

def run(ctx):
    ctx.rule = ("(b) every sequence of <=3 (thorough 4) character classes out of 11, instantiated with concrete characters, as "
                "environment value, working directory and argument through the real LocalConnector.run, BaseConnector.run (shell "
                "path and fallback path) and CommandTemplateMap.get_command, executed by /bin/sh with a probe script; non-trivial = "
                "the value has a non-plain character")
    part_b(ctx)
    ctx.assumptions += ["/bin/sh is dash (POSIX sh); variables k, kk, kkk and VHK are unset and no executable of those names exists",
                        "returned output is compared modulo str.strip(), which every run path applies"]


def replay(ctx, data):
    run(ctx)
