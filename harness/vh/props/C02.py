"""C02 - combinators emit exactly the right combinations, whatever the arrival order (module Combinator).

Model: specs/Combinator transcribes Combinator._add_to_list/_add_to_port, the de-duplicating _add_to_port
and _product of CartesianProductCombinator, _product of DotProductCombinator (LIFO pop, loop variable
re-binding), get_tag and the recursive combine() literally, including the exceptions the code raises, and
defines separately the declarative Expected(stream).  TLC checks, for every stream of the family (<= 3
ports, <= 3 tokens per port, every port one depth, at most one token per tag, depths mixed freely) and
every arrival permutation: emitted bag = Expected at quiescence, no combination twice, nothing outside
Expected ever emitted.

Binding: TLC emits every complete behaviour (arrival order, the emitted bag after each arrival, Expected);
each is replayed on the REAL combinator classes inside a real CombinatorStep (tokens put on real input
ports one at a time, loop to quiescence, output ports read back):
  * the real emitted bag is compared with the model's after EVERY arrival (exceptions included);
  * the real final bag is compared with Expected: that is the verdict of the property;
  * the final bags of all replayed orders of one stream are compared with each other (order independence).
Classes in which the literal algorithm itself violates the property in the model are replayed the same
way: the real code agreeing with the model there is a genuine defect (specific signature).
Inner-schema broadcast (families "innerbroadcast"/"innershared", trees dot(dot(A,B),C) and dot(cartesian(A,B),C)): the
sibling port C is strictly deeper than the schemas of the inner combinator (tags of depth 4 for the cartesian one), so
the element the outer combinator broadcasts/pours between its keys is an inner SCHEMA - one mutable dict stored under
several keys in the code, a value in the model.  Model-checked and replayed in the quick tier (all arrival orders of
every stream with >= 2 tokens on C and <= 4 tokens in all; simulation up to 6 tokens).
Single-port depth mixes (off the domain: no engine step emits them) are explored and counted under
`extra`, never reported as violations.
"""
from __future__ import annotations

import json

from concurrent.futures import ThreadPoolExecutor

from vh import aio

LEVEL = "model_checking"

INVS = ["I_Exact", "I_NoDup", "I_Sound"]


def cfg(kind, np_, maxper, maxtotal, mix, mindepth, gen=False):
    # mindepth: the shallowest tags, or (shallowest, deepest) when the universe goes deeper than 3 components
    mindepth, maxdepth = mindepth if isinstance(mindepth, tuple) else (mindepth, 3)
    t = ['CONSTANTS TreeKind = "%s"  NP = %d  MaxPer = %d  MaxTotal = %d  Mix = "%s"  MinDepth = %d  MaxDepth = %d' % (
        kind, np_, maxper, maxtotal, mix, mindepth, maxdepth),
        "  Tree <- MCTree", "  StreamSet <- MCStreams", "  Record = %s" % ("TRUE" if gen else "FALSE"), "INIT Init"]
    if gen:
        t += ["NEXT GenNext"]
    else:
        t += ["NEXT Next"] + ["INVARIANT %s" % i for i in INVS]
    return "\n".join(t) + "\n"


# classes: (tree kind, ports, mix, min depth) ; HOLD: the model satisfies the property there
def plan(ctx):
    Q = ctx.quick
    mc = [  # label, kind, np, maxper, maxtotal, mix, mindepth
        ("dot:2", "dot", 2, 3, 4 if Q else 6, "any", 1),
        ("dot:3", "dot", 3, 1 if Q else 2, 3 if Q else 5, "any", 1),
        ("cart1:2:same", "cart1", 2, 2 if Q else 3, 4 if Q else 6, "same", 2),
        ("dotcart:3", "dotcart", 3, 2, 4 if Q else 5, "innersame", 2),
    ]
    # the element the outer combinator broadcasts between its keys is a SCHEMA of the inner combinator (a mutable dict
    # in the code): sibling port C strictly deeper than the inner schemas, <= 2 (thorough: 3) tokens per port
    mc += [("dotdot:3:innerbroadcast", "dotdot", 3, 2 if Q else 3, 4 if Q else 5, "innerbroadcast", 1),
           ("dotcart:3:innerbroadcast", "dotcart", 3, 2, 4 if Q else 5, "innerbroadcast", (2, 4))]
    if not Q:
        mc += [("cart1:3:same", "cart1", 3, 2, 5, "same", 2),
               ("cart2:2:same", "cart2", 2, 3, 6, "same", 3),
               ("dotdot:3", "dotdot", 3, 2, 5, "any", 1),
               ("dot:3:3each", "dot", 3, 3, 6, "same", 2)]
    gen = [  # exhaustive generation of complete behaviours (small totals), replayed on the code
        ("dot:2", "dot", 2, 2, 3 if Q else 4, "any", 1, None),
        ("dot:3", "dot", 3, 1 if Q else 2, 3 if Q else 4, "any", 1, None),
        ("cart1:2:same", "cart1", 2, 2, 4, "same", 2, None),
        ("cart1:2:mixed", "cart1", 2, 2, 3 if Q else 4, "mixed", 2, None),
        ("dotcart:3", "dotcart", 3, 2, 4, "innersame", 2, {"num": ctx.pick(150, 1500), "depth": 12}),
        ("cartdot:3", "cartdot", 3, 1 if Q else 2, 3 if Q else 4, "any", 2, None),
        ("dot:2:offdomain", "dot", 2, 2, 3, "offdomain", 1, None),
    ]
    # exhaustive: >= 2 tokens on C (one inner schema under several keys), every arrival order; simulation: the whole family
    gen += [("dotdot:3:innershared", "dotdot", 3, 2, 4, "innershared", 1, None),
            ("dotcart:3:innershared", "dotcart", 3, 2, 4, "innershared", (2, 4), None),
            ("dotdot:3:innerbroadcast:sim", "dotdot", 3, 3, 6, "innerbroadcast", 1, {"num": ctx.pick(250, 1500), "depth": 14}),
            ("dotcart:3:innerbroadcast:sim", "dotcart", 3, 3, 6, "innerbroadcast", (2, 4), {"num": ctx.pick(120, 1500), "depth": 14})]
    if not Q:
        gen += [("dotdot:3", "dotdot", 3, 2, 4, "any", 1, {"num": 1500, "depth": 12}),
                ("dotdot:3:innershared:5", "dotdot", 3, 3, 5, "innershared", (1, 2), None),   # A, B at depth 1, up to 3 tokens on C at depth 2
                ("cart2:2:same", "cart2", 2, 2, 4, "same", 3, None),
                ("cartcart:3", "cartcart", 3, 1, 3, "any", 2, None),
                ("dotcart:3:innermixed", "dotcart", 3, 1, 3, "innermixed", 2, None),
                ("cart1:3:same", "cart1", 3, 2, 5, "same", 2, {"num": 1000, "depth": 12}),
                ("dot:3:sim", "dot", 3, 3, 7, "any", 1, {"num": 1500, "depth": 14}),
                ("cart1:2:offdomain", "cart1", 2, 2, 3, "offdomain", 1, None)]
    return mc, gen


def _run_jobs(ctx, mc, gen):
    prepared = []
    for i, j in enumerate(mc):
        name = "M%d.cfg" % i
        prepared.append(("mc", j, name, ctx.spec_workdir("Combinator", {name: cfg(*j[1:])}), {"workers": 4}))
    for i, j in enumerate(gen):
        name = "G%d.cfg" % i
        kw = {"workers": 1}
        if j[7]:
            kw["simulate"] = j[7]
        prepared.append(("gen", j, name, ctx.spec_workdir("Combinator", {name: cfg(*j[1:7], gen=True)}), kw))

    def one(p):
        kind, j, name, wd, kw = p
        if kind == "mc":
            # bounded in time: an exhaustive run that does not finish on an overloaded machine is an incomplete
            # exploration (every visited state was checked), never a failure of the check
            kw.update(allow_timeout=True, timeout=ctx.pick(420, 800))
        else:
            kw.update(timeout=1800)
        return _partial_stats(ctx, name, ctx.tlc("Combinator", "MC_Combinator", name, workdir=wd, count=False,
                                                 max_heap="3g", **kw))
    with ThreadPoolExecutor(max_workers=ctx.pick(8, 6)) as ex:
        rs = list(ex.map(one, prepared))
    return [(p[0], p[1], r) for p, r in zip(prepared, rs)]


def _partial_stats(ctx, cfg_name, r):
    """A time-boxed exhaustive run that did not finish has no final statistics line: read the last progress line
    (TLC prints thousands separators there, which vh.tlc's parser does not accept)."""
    import re
    if r.timed_out and r.distinct == 0:
        ms = re.findall(r"([\d,]+) states generated(?: \([^)]*\))?, ([\d,]+) distinct states found", r.stdout or "")
        if ms:
            r.generated, r.distinct = (int(x.replace(",", "")) for x in ms[-1])
            for rec in ctx.tlc_runs:
                if rec.get("cfg") == cfg_name:
                    rec.update(states=r.distinct, transitions=r.generated, complete=False)
    return r


# ------------------------------------------------------------------------------------------------
def _ts(t):
    return ".".join(str(c) for c in t)


def model_bag(bagseq):
    out = []
    for e in bagseq or []:
        sch = tuple(sorted((x[0], _ts(x[1]), _ts(x[2])) for x in e["schema"]))
        out += [sch] * e["n"]
    return sorted(out)


def expected_bag(exp):
    return sorted(tuple(sorted((x[0], _ts(x[1]), _ts(x[2])) for x in s)) for s in (exp or []))


CART_ITEMS = {"cart1": None, "cart2": None, "dotcart": ("A", "B"), "cartcart": None, "cartdot": None}


# trees dot(inner(A,B), C): how much deeper than A, B the schemas emitted by the inner combinator are
INNER_SCHEMA_EXTRA_DEPTH = {"dotdot": 0, "dotcart": 1}


def mix_class(stream, kind="dot"):
    """same: all ports one depth; mixed: several depths, but the items of every cartesian product agree;
    cartmixed: the items of a cartesian product have different depths; offdomain: a port carries two depths;
    innerbroadcast: dot(inner(A,B),C) with C strictly deeper than the schemas of the inner combinator: the element
    that the outer combinator broadcasts / pours between its keys is an inner SCHEMA (a dict in the code)."""
    per_port = {p["port"]: {len(t) for t in p["tags"]} for p in stream}
    if any(len(d) > 1 for d in per_port.values()):
        return "offdomain"
    if len(set().union(*per_port.values())) == 1:
        return "same"
    if kind in CART_ITEMS:
        ports = CART_ITEMS[kind] or tuple(per_port)
        if len(set().union(*(per_port[p] for p in ports))) > 1:
            return "cartmixed"
    if kind in INNER_SCHEMA_EXTRA_DEPTH and "C" in per_port:
        if min(per_port["C"]) > max(per_port["A"] | per_port["B"]) + INNER_SCHEMA_EXTRA_DEPTH[kind]:
            return "innerbroadcast"
    return "mixed"


def shared_inner_schema(b):
    """dot(inner(A,B),C): does the rule prescribe one inner schema (same A and B tokens) in >= 2 combinations, i.e. is
    one schema object of the inner combinator stored under several keys of the outer one?  Returns 0 (no), 1 (yes) or
    2 (yes, and in this arrival order a C token it joins arrives after the inner schema was complete AND had already been
    emitted in another combination: the stored schema is used again after an emission)."""
    groups = {}
    for sch in b["expected"]:
        d = {x[0]: _ts(x[1]) for x in sch}
        if "C" in d:
            groups.setdefault((d.get("A"), d.get("B")), []).append(d["C"])
    best = 0
    pos = {(h["port"], _ts(h["tag"])): i for i, h in enumerate(b["hist"])}
    for (a, bb), cs in groups.items():
        if len(cs) < 2:
            continue
        best = max(best, 1)
        if ("A", a) in pos and ("B", bb) in pos:
            done = max(pos[("A", a)], pos[("B", bb)])
            if max(pos.get(("C", c), -1) for c in cs) > done:
                best = 2
    return best


def symptom(real_bag, exp_bag, error):
    if error is not None:
        return error[0]
    if len(set(real_bag)) < len(real_bag):
        return "duplicate-combination"
    rs, es = set(real_bag), set(exp_bag)
    if rs < es:
        return "missing-combination"
    if es < rs:
        return "unexpected-combination"
    # same ports/values but different tags?
    strip = lambda bag: sorted(tuple((p, s) for p, s, _ in sch) for sch in bag)
    if strip(real_bag) == strip(exp_bag):
        return "wrong-tag"
    return "wrong-combinations"


async def replay_one(ctx, session, R, b, label, finals):
    """b: one behaviour printed by TLC.  Returns the real final bag (or None when the step diverged)."""
    kind, stream = b["tree"], b["stream"]
    np_ = len(stream)
    mix = mix_class(stream, kind)
    off = mix == "offdomain"
    rig = await R.CombRig(session, kind, np_).start()
    arrivals = [(h["port"], h["tag"]) for h in b["hist"]]
    stream_key = json.dumps([kind, stream], sort_keys=True)
    detail = {"tree": kind, "np": np_, "stream": stream, "arrivals": arrivals, "behaviour": b, "label": label}
    try:
        real_bag, error = [], None
        diverged = None
        steps = list(b["hist"])
        # when the model stops early (it predicts an exception) the remaining tokens are not fed; when the real step
        # diverges from the model we keep feeding the remaining tokens of the stream so that the FINAL bag can be judged
        fed = set()
        for i, h in enumerate(steps):
            await rig.arrive(h["port"], h["tag"])
            fed.add((h["port"], _ts(h["tag"])))
            obs = rig.observe()
            real_bag, error = sorted(obs["schemas"]), obs["error"]
            mbag = model_bag(h["bag"])
            merr = None if h["err"] == "none" else "raise:" + h["err"]
            rerr = error[0] if error else None
            if diverged is None and (real_bag != mbag or merr != rerr or obs["ragged"]):
                diverged = {"step": i, "got": real_bag, "model": mbag, "error": error, "model_error": merr,
                            "symptom": symptom(real_bag, mbag, error if merr != rerr else None)}
                if off:
                    ctx.count("extra:offdomain_model_divergence")
                    return None
            if error is not None:
                break
        if diverged is not None and error is None:
            for p in stream:          # tokens the model never fed because it predicted an exception
                for t in p["tags"]:
                    if (p["port"], _ts(t)) not in fed:
                        await rig.arrive(p["port"], t)
                        arrivals.append((p["port"], t))
            obs = rig.observe()
            real_bag, error = sorted(obs["schemas"]), obs["error"]
        exp = expected_bag(b["expected"])
        if diverged is None:
            finals.setdefault(stream_key, {})[json.dumps(arrivals)] = (real_bag, error)
        order_txt = [p + ":" + _ts(t) for p, t in arrivals]
        stream_txt = [(p["port"], [_ts(t) for t in p["tags"]]) for p in stream]
        if real_bag != exp or error is not None:
            sym = symptom(real_bag, exp, error)
            if off:
                ctx.count("extra:offdomain_final_bag_differs_from_rule:%s" % kind)
                return real_bag
            ctx.require(diverged is not None or not b["ok"],
                        "model says ok but the real final bag differs from Expected without any step divergence")
            ctx.violation("%s:%s:%s" % (kind, mix, sym), dict(detail, got=real_bag, expected=exp, error=error, diverged=diverged),
                          "%s over ports %s, arrival order %s: emitted %s%s; the property requires %s%s" % (
                              kind, stream_txt, order_txt, real_bag, " then raised %s" % error[1] if error else "", exp,
                              "" if diverged is None else " (first difference from the literal model at arrival %d: model %s)" % (
                                  diverged["step"] + 1, diverged["model"])))
        elif diverged is not None:
            ctx.violation("%s:%s:step-divergence:%s" % (kind, mix, diverged["symptom"]), dict(detail, diverged=diverged, expected=exp),
                          "%s over ports %s: after %s the real combinator had emitted %s%s, the literal model %s%s (the final bag is the expected one)" % (
                              kind, stream_txt, order_txt[:diverged["step"] + 1], diverged["got"],
                              " and raised %s" % diverged["error"][1] if diverged["error"] else "", diverged["model"],
                              " and raises %s" % diverged["model_error"] if diverged["model_error"] else ""))
        elif not b["ok"]:
            ctx.require(False, "model says not ok but the real final bag equals Expected and no step diverged: %s" % json.dumps(b)[:600])
        return real_bag
    finally:
        await rig.stop()


def _one_stream_files(stream):
    tl = lambda t: "<<%s>>" % ", ".join(str(c) for c in t)
    body = ", ".join('%s |-> {%s}' % (p["port"], ", ".join(tl(t) for t in p["tags"])) for p in stream)
    return "[%s]" % body


def collect(ctx):
    """Run TLC (model checking + generation); returns the behaviours to bind: [(label, behaviour)]."""
    mc, gen = plan(ctx)
    results = _run_jobs(ctx, mc, gen)
    behaviours = []
    for kind, j, r in results:
        label = j[0]
        if kind == "mc":
            if r.error in ("invariant", "property"):
                # never a verdict by itself: replay the violating stream (all its orders) on the real code
                st = (r.trace or [{}])[0].get("state", {}).get("stream")
                ctx.require(st is not None, "model violation in %s without a readable counterexample\n%s" % (label, r.stdout[-1200:]))
                stream = [{"port": p, "tags": st[p]} for p in sorted(st)]
                text = cfg(*j[1:7], gen=True).replace("StreamSet <- MCStreams", "StreamSet <- OneStream")
                mod = ("---- MODULE MC_One ----\nEXTENDS MC_Combinator\nOneStream == {%s}\n====\n" % _one_stream_files(stream))
                g = ctx.tlc("Combinator", "MC_One", "One.cfg", files={"One.cfg": text, "MC_One.tla": mod}, workers=1, count=False, timeout=1200)
                bs = g.printed_json()
                ctx.require(len(bs) > 0, "could not regenerate the behaviours of the violating stream %s" % stream)
                behaviours += [(label + ":model-counterexample", b) for b in bs]
                ctx.count("model_counterexamples_replayed")
            elif r.timed_out and r.error is None:
                ctx.count("model_runs_incomplete(timeout)")
            else:
                ctx.require(r.ok, "TLC failed on %s: %s\n%s" % (label, r.error, r.stdout[-1200:]))
            ctx.states += r.distinct
            ctx.transitions += r.generated
            ctx.require(r.distinct > 100 and (r.depth >= 3 or r.timed_out), "vacuous model run %s" % label)
            ctx.count("model_states:%s" % label, r.distinct)
        else:
            ctx.require(r.error is None, "generation run %s failed: %s\n%s" % (label, r.error, r.stdout[-800:]))
            bs = r.printed_json()
            ctx.require(len(bs) > 0, "generation run %s produced no behaviour" % label)
            seen = set()
            for b in bs:
                # the family of the specification and the class computed by the driver must agree
                ctx.require(j[5] not in ("innerbroadcast", "innershared") or mix_class(b["stream"], b["tree"]) == "innerbroadcast",
                            "generation run %s printed a stream outside its family: %s" % (label, b["stream"]))
                k = json.dumps(b, sort_keys=True)
                if k not in seen:
                    seen.add(k)
                    behaviours.append((label, b))
            ctx.count("behaviours:%s" % label, len(seen))
    return behaviours


def run(ctx):
    from vh.sut import sg_rigs as R
    ctx.rule = ("TLC enumerates streams of the family (<=3 ports, <=3 tokens per port, one depth per port, depths mixed) and all "
                "arrival permutations; every complete behaviour it prints (exhaustively for small totals, by simulation above) is "
                "replayed token by token into a real CombinatorStep and the emitted bag is compared after every arrival and with "
                "Expected at the end; a behaviour is non-trivial when Expected is non-empty or the code raises")
    behaviours = collect(ctx)
    bind(ctx, R, behaviours)


def bind(ctx, R, behaviours):
    ctx.exhaustive = True
    finals = {}

    async def main():
        session = R.Session()
        try:
            n = 0
            for label, b in behaviours:
                mix = mix_class(b["stream"], b["tree"])
                nontrivial = len(b["expected"]) > 0 or any(h["err"] != "none" for h in b["hist"])
                ctx.case(json.dumps([b["tree"], b["stream"], [(h["port"], h["tag"]) for h in b["hist"]]]), nontrivial)
                await replay_one(ctx, session, R, b, label, finals)
                n += 1
                ctx.count("replays:%s:%s" % (b["tree"], mix))
                if len(b["expected"]) >= 2:
                    ctx.count("replays:>=2_combinations_expected")
                if any(len(p["tags"][0]) != len(b["stream"][0]["tags"][0]) for p in b["stream"]) and b["tree"].startswith("dot") and b["expected"]:
                    ctx.count("replays:dot_broadcast_parent_to_child")
                if mix == "innerbroadcast" and b["tree"] in INNER_SCHEMA_EXTRA_DEPTH:
                    sh = shared_inner_schema(b)
                    if sh >= 1:
                        ctx.count("replays:inner_schema_shared_by_>=2_deeper_keys:%s" % b["tree"])
                    if sh >= 2:
                        ctx.count("replays:inner_schema_used_again_after_an_emission:%s" % b["tree"])
                if len(ctx.samples) < 3 and b["ok"] and len(b["expected"]) >= 2 and mix == "mixed" and len(ctx.samples) == sum(1 for x in ctx.samples if x["tree"] != b["tree"]):
                    ctx.sample({"tree": b["tree"], "stream": {p["port"]: [_ts(t) for t in p["tags"]] for p in b["stream"]},
                                "arrival_order": [h["port"] + ":" + _ts(h["tag"]) for h in b["hist"]],
                                "emitted": [list(s) for s in model_bag(b["hist"][-1]["bag"])]})
            ctx.impl_trace(n)
        finally:
            await session.close()
    _, err = aio.run(main(), timeout=ctx.pick(900, 3000))
    if err is not None:
        raise err
    # order independence on the real code: all replayed orders of one stream must end with the same bag
    for sk, orders in finals.items():
        kind, stream = json.loads(sk)
        mix = mix_class(stream, kind)
        outcomes = {}
        for o, (bag, error) in orders.items():
            outcomes.setdefault(json.dumps([bag, error[0] if error else None]), []).append(json.loads(o))
        if len(orders) > 1:
            ctx.count("streams_with_several_orders_replayed")
        if len(outcomes) > 1:
            if mix == "offdomain":
                ctx.count("extra:offdomain_order_dependent_streams:%s" % kind)
                continue
            ex = [(json.loads(k), v[0]) for k, v in list(outcomes.items())[:2]]
            ctx.violation("%s:%s:order-dependent" % (kind, mix),
                          {"tree": kind, "np": len(stream), "stream": stream, "outcomes": [{"result": k, "order": o} for k, o in ex], "kind": "order"},
                          "%s over %s: arrival order %s ends with %s but order %s ends with %s" % (
                              kind, [(p["port"], [_ts(t) for t in p["tags"]]) for p in stream],
                              [p + ":" + _ts(t) for p, t in ex[0][1]], ex[0][0], [p + ":" + _ts(t) for p, t in ex[1][1]], ex[1][0]))
    for k in ("replays:dot:same", "replays:dot:mixed", "replays:cart1:same", "replays:dotcart:same", "replays:>=2_combinations_expected",
              "replays:dot_broadcast_parent_to_child", "streams_with_several_orders_replayed",
              "replays:dotdot:innerbroadcast", "replays:dotcart:innerbroadcast",
              "replays:inner_schema_shared_by_>=2_deeper_keys:dotdot", "replays:inner_schema_shared_by_>=2_deeper_keys:dotcart",
              "replays:inner_schema_used_again_after_an_emission:dotdot",
              "replays:inner_schema_used_again_after_an_emission:dotcart"):
        ctx.require(ctx.counters.get(k, 0) > 0, "vacuous: class %s never exercised" % k)
    ctx.extra["extra"] = {k: v for k, v in ctx.counters.items() if k.startswith("extra:")}
    ctx.assumptions += [
        "domain: every port carries tags of one depth, at most one token per tag (what scatter, loop and combinator steps emit); "
        "tag components are single digits (get_tag compares string lengths; multi-digit components are C33's subject)",
        "cartesian products are explored on tags deep enough that the group key is not the empty string",
        "inner combinators own all their ports (add_combinator(inner, inner.get_items(recursive=True)) as the translator does)",
        "one arrival = one atomic reaction of CombinatorStep.run (tokens are put one at a time and the loop is run to quiescence)",
    ]


def replay(ctx, data):
    from vh.sut import sg_rigs as R
    d = data["detail"]

    async def main():
        session = R.Session()
        try:
            if d.get("kind") == "order":
                res = []
                for oc in d["outcomes"]:
                    rig = await R.CombRig(session, d["tree"], d["np"]).start()
                    try:
                        for p, t in oc["order"]:
                            await rig.arrive(p, t)
                        o = rig.observe()
                        res.append(json.dumps([sorted(o["schemas"]), o["error"][0] if o["error"] else None]))
                    finally:
                        await rig.stop()
                if len(set(res)) > 1:
                    ctx.violation(data["signature"], d, "still order dependent: %s" % res)
            else:
                await replay_one(ctx, session, R, d["behaviour"], d.get("label", "replay"), {})
        finally:
            await session.close()
    _, err = aio.run(main(), timeout=600)
    if err is not None:
        raise err
