"""C30 - CWL tools receive exactly the arguments the reference runner passes (module CWLBinding).

Model: specs/CWLBinding transcribes the CWL v1.2 command-line binding algorithm (as cwltool executes it) over
abstract text; MC_CWLBinding enumerates families of tools (1..3 bound inputs x every binding option x value
shapes; arguments; ShellCommandRequirement with shellQuote: false; stdin/stdout/stderr; EnvVarRequirement) and
checks the sanity theorems of the transcription; Gen_CWLBinding serialises [tool, expected argv/env/redirections].
Thorough: larger random tools (up to 6 inputs + 3 arguments) by simulation.
Steps (families jobs-*): ONE tool description executed for 2..3 jobs whose values and value shapes differ
(CWLBinding "Steps": what job j receives is what the reference gives that job ALONE; HOME / TMPDIR /
$(runtime.*) are the job's own directories): bound by running the tool scattered over the jobs under StreamFlow
(one CWLCommand object, several execute() calls) and comparing every job with cwltool running that job alone.
Binding: every enumerated tool is given concrete text (character classes), rendered to a CWL v1.2
CommandLineTool whose baseCommand is a probe script, and run (a) with cwltool in-process -- THE ORACLE: a
specification/cwltool disagreement is a specification error (machinery error, exit 2, never a violation) -- and
(b) with streamflow.cwl.runner in-process on the local connector (CWLCommand._get_executable_command ->
create_command -> LocalConnector -> /bin/sh).  The probe's observations are compared: argv, EnvVarRequirement
environment, stdin content, captured stdout/stderr.
"""
from __future__ import annotations

import json
import os
import shutil
import time
from concurrent.futures import ProcessPoolExecutor, TimeoutError as FTimeout
import multiprocessing

LEVEL = "translation_validation"

FAMILIES = ["single", "noshellq", "order", "quirk", "shell", "streams",
            "jobs-single", "jobs-streams", "jobs-args", "jobs-multi", "jobs-shell"]


# ---------------------------------------------------------------------------------------------------------
# variants: which concrete text every slot of a tool gets
# ---------------------------------------------------------------------------------------------------------
def _assign(cb, tool, mode, k, rr, avoid=None):
    """-> (text: {slot key: content}, classes: {slot key: class}, hot slot key or None).

    mode "hot": one slot (the k-th among those whose content is free) gets the next character class of a
    global round-robin, every other slot is plain; mode "mix": every free slot gets a class of its own.
    avoid(slot key) -> True: never the hot slot."""
    slots = cb.slots_of(tool)
    free = [s for s in slots if (s[2] == "any" or s[1] == "int") and not (avoid and avoid(s[0]))]
    text, classes, hot = {}, {}, None
    if mode == "hot" and free:
        hot = free[k % len(free)]
    for n, (key, kind, sem) in enumerate(slots):
        if sem != "any" and kind != "int":
            cls = sem
        elif mode == "mix" or (hot is not None and key == hot[0]):
            lst = cb.classes_for(kind)
            rr[kind] = rr.get(kind, 0) + 1
            cls = lst[(rr[kind] + k) % len(lst)]
        else:
            cls = "plain"
        text[key] = cb.text_for(kind, sem, cls, n, key[0])
        classes[key] = cls
    # distinct redirection targets
    if ("stdout",) in text and text.get(("stderr",)) == text[("stdout",)]:
        text[("stderr",)] = "e" + text[("stderr",)]
    return text, classes, (hot[0] if hot else None)


def _assign_step(cb, c, k, rr):
    """Concrete text of every job of a step: the text of the DOCUMENT (prefixes, separators, literal valueFrom,
    argument strings, envValues, stdout/stderr names) is that of job 1 (one hot slot, like a single tool);
    the VALUES of the later jobs are plain text different from every other job's, except that the first string
    value of a scalar input gets the next character class of the round-robin.
    -> list of {"tool", "exp", "text", "classes", "hot"}"""
    tools = [c["tool"]] + [cb.with_vals(c["tool"], vals) for vals in c["more"]]
    exps = [c["exp"]] + list(c["expmore"])
    # (text of a bound ARRAY parameter stays inert: with special text there the step fails as a whole or differs
    #  everywhere because of the listed finding C30-array-binding-not-shell-quoted, and nothing else would be seen)
    arrays = {f["name"] for f in c["tool"]["inputs"] if f["ty"].endswith("[]") and (f["b"]["has"] or f["ib"]["has"])}
    text1, classes1, hot1 = _assign(cb, tools[0], "hot", k, rr,
                                    avoid=lambda key: len(key) >= 3 and key[1] in ("in", "item") and key[2] in arrays)
    jobs = [{"tool": tools[0], "exp": exps[0], "text": text1, "classes": classes1, "hot": hot1}]
    for j, (t, e) in enumerate(zip(tools[1:], exps[1:]), start=1):
        text, classes, hot = {}, {}, None
        scalar = {f["name"] for f in t["inputs"] if f["val"]["t"] == "str"}
        for n, (key, kind, sem) in enumerate(cb.slots_of(t)):
            if kind in ("doc", "sname"):
                text[key], classes[key] = text1[key], classes1[key]
                continue
            if sem != "any" and kind != "int":
                cls = sem
            elif hot is None and kind == "value" and key[0] == "val" and key[2] in scalar:
                lst = cb.classes_for(kind)
                rr[kind] = rr.get(kind, 0) + 1
                cls = lst[(rr[kind] + k + j) % len(lst)]
                hot = key
            else:
                cls = "plain"
            text[key] = cb.text_for(kind, sem, cls, n + 30 * j, key[0])
            classes[key] = cls
        jobs.append({"tool": t, "exp": e, "text": text, "classes": classes, "hot": hot})
    return jobs


# ---------------------------------------------------------------------------------------------------------
# diagnosis: name the binding feature and the character class of a difference
# ---------------------------------------------------------------------------------------------------------
def _binding_label(b, shell):
    parts = []
    if b["prefix"]:
        parts.append("prefix")
    if b["sep"] == "false":
        parts.append("separate=false")
    if b["isep"]:
        parts.append("itemSeparator")
    if b["vf"] != "none":
        parts.append("valueFrom")
    if b["sq"] == "false":
        parts.append("shellQuote=false" if shell else "shellQuote=false(no-requirement)")
    if b["sq"] == "true":
        parts.append("shellQuote=true")
    return "+".join(parts) or "plain-binding"


def _type_label(f):
    """string | array-of-string(n=2) ... (no brackets: signatures are matched with fnmatch)"""
    if f["ty"].endswith("[]"):
        n = len(f["val"]["v"]) if f["val"]["t"] == "arr" else "null"
        return "array-of-%s(n=%s)" % (f["ty"][:-2], n)
    return f["ty"]


def _owner_feature(tool, ow):
    shell = tool["shell"]
    if ow["o"] == "arg":
        a = tool["args"][ow["i"]]
        lab = "arguments:" + (a["kind"] if a["kind"] != "rec" else _binding_label(a["b"], shell))
        ref = a["ref"] if a["kind"] == "expr" else a["b"]["vfref"] if a["kind"] == "rec" and a["b"]["vf"] == "ref" else ""
        if ref:
            lab += "->" + _type_label(next(x for x in tool["inputs"] if x["name"] == ref))
    else:
        f = next(x for x in tool["inputs"] if x["name"] == ow["of"])
        b = f["ib"] if ow["o"] == "item" else f["b"]
        lab = ("item:" if ow["o"] == "item" else "") + _type_label(f) + ":" + _binding_label(b, shell)
        if ow["o"] == "in" and f["ib"]["has"]:
            lab += ":with-item-binding"
        if ow["o"] == "item" and not f["b"]["has"]:
            lab += ":no-outer-binding"
        if ow["o"] == "item" and f["b"]["has"]:
            outer = [x for x in _binding_label(f["b"], shell).split("+") if x.startswith(("itemSeparator", "shellQuote", "valueFrom"))]
            if outer:
                lab += ":outer-" + "+".join(outer)
    return lab + (":ShellCommandRequirement" if shell else "")


def _word_class(word_atoms, classes, cb):
    cl = []
    for a in word_atoms:
        c = classes.get(cb.atom_key(a))
        if c and c != "plain" and c not in cl:
            cl.append(c)
    return "+".join(cl) or "plain"


def _slot_uses(tool, key):
    """Where the text of a slot ends up (for failures of the whole run)."""
    uses = []
    kind, o, of, i = (list(key) + [None] * 4)[:4]
    if key[0] in ("stdout", "stderr"):
        return [key[0] + "-name"]
    if o == "env":
        return ["EnvVarRequirement"]
    if o == "arg":
        return [_owner_feature(tool, {"o": "arg", "of": "", "i": i})]
    if o == "item":
        return [_owner_feature(tool, {"o": "item", "of": of, "i": 0})]
    f = next(x for x in tool["inputs"] if x["name"] == of)
    if kind in ("pre", "sep", "lit"):
        return [_owner_feature(tool, {"o": "in", "of": of, "i": 0})]
    if any(e["kind"] == "ref" and e["ref"] == of for e in tool["env"]):
        uses.append("EnvVarRequirement")
    if tool["stdin"] == of:
        uses.append("stdin")
    if f["b"]["has"] or f["ib"]["has"]:
        uses.append(_owner_feature(tool, {"o": "in" if f["b"]["has"] else "item", "of": of, "i": 0}))
    if any((a["kind"] == "expr" and a["ref"] == of) or (a["kind"] == "rec" and a["b"]["vfref"] == of) for a in tool["args"]):
        uses.append("arguments:ref")
    return uses or ["unbound-input"]


# classes whose text means something to sh when it is not quoted
# (non-ASCII text is inert for sh but shlex.quote wraps it in quotes, so double escaping shows on it: not inert)
INERT = {"plain", "dash", "refval", "int0", "intneg", "intmax", "int10"}


def _taint(tool, classes):
    """Special text inside a bound ARRAY parameter (its items, prefix, itemSeparator, literal valueFrom): named in
    the signature because a difference anywhere later in the command line may be a consequence of it."""
    out = []
    for key, cls in classes.items():
        if cls in INERT or len(key) < 4 or key[1] not in ("in", "item") or key[0] == "content":
            continue
        f = next((x for x in tool["inputs"] if x["name"] == key[2]), None)
        if f is None or not f["ty"].endswith("[]") or not (f["b"]["has"] or f["ib"]["has"]):
            continue
        if key[0] in ("val", "path"):
            ow = {"o": "in" if f["b"]["has"] else "item", "of": f["name"], "i": 0}
        else:
            ow = {"o": key[1], "of": f["name"], "i": 0}
        lab = _owner_feature(tool, ow).replace(":ShellCommandRequirement", "") + "/" + cls
        if lab not in out:
            out.append(lab)
    return ",".join(sorted(out)[:3])


def _positions_tie(tool):
    pos = [f["b"]["pos"] for f in tool["inputs"] if f["b"]["has"]] + [a["b"]["pos"] if a["kind"] == "rec" else 0 for a in tool["args"]]
    return len(pos) != len(set(pos))


RT_WHAT = {"<OUTDIR>": "own-output-directory", "<TMPDIR>": "own-temp-directory",
           "<OUTDIR of another job>": "output-directory-of-another-job", "<TMPDIR of another job>": "temp-directory-of-another-job",
           "<TMPDIR shared with another job>": "shared-with-another-job", "<TMPDIR: not a directory>": "not-a-directory",
           "<TMPDIR differs from runtime.tmpdir>": "differs-from-runtime.tmpdir", "<unset>": "unset"}


def compare(ctx, cb, case, res, report=True, step=None):
    """Compare the oracle's and StreamFlow's observations of one concrete case.  Returns the list of
    (signature, what) differences (reported through ctx.violation when `report`).
    step: None, or {"index": j, "n": number of jobs, "case": the step} when the case is job j of a step (the
    signature then ends with ':step-of-<n>-jobs' and the detail holds the whole step for the replay)."""
    tool, exp, classes, hot = case["tool"], case["exp"], case["classes"], case["hot"]
    text = case["text"]
    want = cb.expected_of(exp, tool, text)
    ref, sf = res["ref"], res["sf"]
    diffs = []
    if hot:
        hot_cls, hot_uses = classes.get(hot, "plain"), "+".join(_slot_uses(tool, hot))
    else:       # every slot has a class of its own: name all the special ones and where they are used
        special = [k for k, c in classes.items() if c != "plain"]
        hot_cls = "+".join(sorted({classes[k] for k in special})) or "plain"
        uses = []
        for k in special:
            for u in _slot_uses(tool, k):
                if u not in uses:
                    uses.append(u)
        hot_uses = "+".join(uses) or "no-text"

    taint = _taint(tool, classes)

    def add(sig, what, extra=None):
        if taint:
            sig += ":with=" + taint
        if step:
            sig += ":step-of-%d-jobs" % step["n"]
            what = "job %d of %d of one step: %s" % (step["index"] + 1, step["n"], what)
        diffs.append((sig, what))
        if report:
            d = {"kind": "case", "family": case["fam"], "tool": tool, "exp": exp,
                 "text": [[list(k), v] for k, v in text.items()],
                 "classes": [[list(k), v] for k, v in classes.items()], "hot": list(hot) if hot else None,
                 "explicit_zero": case["explicit_zero"], "document": res.get("doc"), "job": res.get("job"),
                 "reference": {k: ref.get(k) for k in ("argv", "env", "rt", "stdin", "stdout", "stderr", "rc")},
                 "streamflow": {k: sf.get(k) for k in ("argv", "env", "rt", "HOME", "TMPDIR", "cwd", "stdin", "stdout", "stderr", "rc", "log")}}
            d.update(extra or {})
            if step:
                d.update(kind="step", job_index=step["index"], step=_step_detail(step["case"]), workflow=res.get("wf"))
            ctx.violation(sig, d, what)

    if not sf["ok"]:
        add("run-fails:%s:class=%s" % (hot_uses, hot_cls),
            "the tool runs under the reference but fails under StreamFlow (rc=%s): %s" % (sf.get("rc"), (sf.get("log") or "")[-160:].replace("\n", " | ")))
        return diffs
    # argv
    ra = cb.normalise_argv(ref["argv"], want["argv"])
    sa = cb.normalise_argv(sf["argv"], want["argv"])
    if ra != sa:
        n = min(len(ra), len(sa))
        i = next((j for j in range(n) if ra[j] != sa[j]), n)
        owners = exp["owners"]
        if sorted(ra) == sorted(sa):
            j = next((x for x in range(len(ra)) if ra[x] == sa[i]), i)     # where the reference has StreamFlow's i-th word
            o1, o2 = (owners[min(i, len(owners) - 1)], owners[min(j, len(owners) - 1)]) if owners else (None, None)
            kinds = sorted({o1["o"], o2["o"]}) if owners else ["?"]
            labs = sorted({_owner_feature(tool, o1), _owner_feature(tool, o2)}) if owners else ["?"]
            sig = "argv-differs:order:%s:%s:%s" % ("/".join(kinds), "same-position" if _positions_tie(tool) else "distinct-positions",
                                                   "|".join(labs))
        else:
            ow = owners[min(i, len(owners) - 1)] if owners else None
            feat = _owner_feature(tool, ow) if ow else "no-binding"
            cls = _word_class(exp["argv"][min(i, len(exp["argv"]) - 1)], classes, cb) if exp["argv"] else hot_cls
            sig = "argv-differs:%s:class=%s" % (feat, cls)
        add(sig, "argv differs at word %d: reference %r, StreamFlow %r" % (i, ra[i:i + 3], sa[i:i + 3]))
    # environment
    if ref["env"] != sf["env"]:
        names = sorted(k for k in set(ref["env"]) | set(sf["env"]) if ref["env"].get(k) != sf["env"].get(k))
        for nme in names[:1]:
            e = next((x for x in exp["env"] if x["name"] == nme), None)
            cls = _word_class(e["text"], classes, cb) if e else "undeclared"
            if e and any(a["k"] == "rt" for a in e["text"]):        # $(runtime.outdir) / $(runtime.tmpdir)
                cls = "runtime.%s=%s" % (e["text"][0]["of"], RT_WHAT.get(sf["env"].get(nme), "other-directory"))
            add("env-differs:EnvVarRequirement:class=%s" % cls,
                "environment variable %s: reference %r, StreamFlow %r" % (nme, ref["env"].get(nme), sf["env"].get(nme)))
    # the runtime environment: HOME is the job's own output directory, TMPDIR its own temporary directory
    for nme in ("HOME", "TMPDIR"):
        if sf.get("rt", {}).get(nme) != want["rt"][nme]:
            got = sf.get("rt", {}).get(nme)
            add("env-differs:%s:%s" % (nme, RT_WHAT.get(got, "other-directory")),
                "%s of the process is %r (%s); the reference sets it to the job's %s; the process runs in %r"
                % (nme, sf.get(nme), RT_WHAT.get(got, "neither of the job's directories"), RT_WHAT[want["rt"][nme]], sf.get("cwd")))
    if ref.get("stdin") != sf.get("stdin"):
        add("stdin-differs:stdin:class=%s" % classes.get(("path", "in", exp["stdin"], 0), "none"),
            "stdin content: reference %r, StreamFlow %r" % (ref.get("stdin"), sf.get("stdin")))
    for k in ("stdout", "stderr"):
        if ref.get(k) != sf.get(k):
            if k == "stdout" and ref.get(k) == "PROBE-STDOUT\n" and sorted((sf.get(k) or "").splitlines()) == ["PROBE-STDERR", "PROBE-STDOUT"]:
                add("stdout-differs:stderr-merged-into-stdout:%s" % ("stderr-redirected" if tool["stderr"] else "stderr-not-redirected"),
                    "the file that captures stdout (%r) also holds what the tool wrote to stderr: reference %r, StreamFlow %r"
                    % (want[k], ref.get(k), sf.get(k)))
                continue
            add("%s-differs:%s-name:class=%s" % (k, k, classes.get((k,), "none")),
                "captured %s (file %r): reference %r, StreamFlow %r" % (k, want[k], ref.get(k), sf.get(k)))
    return diffs


def _step_detail(sc):
    return {"id": sc["id"], "fam": sc["fam"], "explicit_zero": sc["explicit_zero"],
            "jobs": [{"tool": jb["tool"], "exp": jb["exp"], "text": [[list(k), v] for k, v in jb["text"].items()],
                      "classes": [[list(k), v] for k, v in jb["classes"].items()], "hot": list(jb["hot"]) if jb["hot"] else None}
                     for jb in sc["jobs"]]}


def _step_from_detail(d):
    return {"id": d["id"], "fam": d["fam"], "explicit_zero": d["explicit_zero"],
            "jobs": [{"tool": jb["tool"], "exp": jb["exp"], "text": {tuple(k): v for k, v in jb["text"]},
                      "classes": {tuple(k): v for k, v in jb["classes"]}, "hot": tuple(jb["hot"]) if jb["hot"] else None}
                     for jb in d["jobs"]]}


def _job_case(sc, j):
    """Job j of a step as a case of its own (what compare / spec_vs_oracle work on)."""
    jb = sc["jobs"][j]
    return {"id": "%s#%d" % (sc["id"], j + 1), "fam": sc["fam"], "tool": jb["tool"], "exp": jb["exp"], "text": jb["text"],
            "classes": jb["classes"], "hot": jb["hot"], "explicit_zero": sc["explicit_zero"]}


def _job_result(r, j):
    return {"ref": r["jobs"][j]["ref"], "sf": r["jobs"][j]["sf"], "doc": r.get("doc"), "job": (r.get("job") or [None] * (j + 1))[j],
            "wf": r.get("wf")}


def compare_step(ctx, cb, sc, r, report=True):
    """Every job of the step against the reference's answer for that job alone."""
    n = len(sc["jobs"])
    diffs = []
    all_fail = all(not r["jobs"][j]["sf"]["ok"] for j in range(n))
    for j in range(n):
        diffs += compare(ctx, cb, _job_case(sc, j), _job_result(r, j), report, step={"index": j, "n": n, "case": sc})
        if all_fail:        # the step failed as a whole: one report
            break
    return diffs


def spec_vs_oracle(cb, case, res):
    """None when the specification's expected answer equals what cwltool gave the probe, else a description."""
    want = cb.expected_of(case["exp"], case["tool"], case["text"])
    ref = res["ref"]
    if not ref["ok"]:
        return "the reference fails on a tool the specification calls well-formed: rc=%s %s" % (ref.get("rc"), (ref.get("log") or "")[-300:])
    canon = [cb.canon_word(w) for w in want["argv"]]
    got = cb.normalise_argv(ref["argv"], want["argv"])
    if got != canon:
        return "argv: specification %r, cwltool %r" % (canon, got)
    if ref["env"] != want["env"]:
        return "env: specification %r, cwltool %r" % (want["env"], ref["env"])
    if ref.get("rt") != want["rt"]:
        return "runtime environment: specification %r, cwltool %r (HOME=%r TMPDIR=%r cwd=%r)" % (want["rt"], ref.get("rt"), ref.get("HOME"),
                                                                                            ref.get("TMPDIR"), ref.get("cwd"))
    if ref["stdin"] != want["stdin"]:
        return "stdin: specification %r, cwltool %r" % (want["stdin"], ref["stdin"])
    if want["stdout"] is not None and ref.get("stdout") != "PROBE-STDOUT\n":
        return "stdout file %r: cwltool captured %r" % (want["stdout"], ref.get("stdout"))
    if want["stderr"] is not None and ref.get("stderr") != "PROBE-STDERR\n":
        return "stderr file %r: cwltool captured %r" % (want["stderr"], ref.get("stderr"))
    return None


# ---------------------------------------------------------------------------------------------------------
def _pool(ctx, cb, n):
    scratch = ctx.scratch("run")
    mp = multiprocessing.get_context("spawn")
    return ProcessPoolExecutor(max_workers=n, mp_context=mp, initializer=cb.init_worker, initargs=(scratch,))


def _run_cases(ctx, cb, cases, workers):
    """Run all concrete cases; returns {id: result}."""
    results = {}
    t0 = time.time()
    payload = [{"id": c["id"], "explicit_zero": c["explicit_zero"], "timeout": 900,
                "jobs": [{"tool": jb["tool"], "text": [[list(k), v] for k, v in jb["text"].items()]} for jb in c["jobs"]]}
               if c.get("jobs") else
               {"id": c["id"], "tool": c["tool"], "text": [[list(k), v] for k, v in c["text"].items()],
                "explicit_zero": c["explicit_zero"], "timeout": 900} for c in cases]
    ex = _pool(ctx, cb, workers)
    try:
        futs = [ex.submit(cb.run_case, p) for p in payload]
        budget = 1800 + 10.0 * len(cases)          # harness watchdog for the whole batch
        for f, p in zip(futs, payload):
            try:
                r = f.result(timeout=max(60, budget - (time.time() - t0)))
            except FTimeout:
                ctx.require(False, "harness watchdog: case %s did not finish (machinery, not a verdict)" % p["id"])
            except Exception as e:  # worker died
                ctx.require(False, "pool worker failed on case %s: %r" % (p["id"], e))
            results[r["id"]] = r
    finally:
        ex.shutdown(wait=False, cancel_futures=True)
    return results


def _features_of(tool):
    fs = set()
    for f in tool["inputs"]:
        fs.add("type:" + f["ty"] + ("?" if f["opt"] else ""))
        fs.add("value:" + (f["val"]["t"] if f["val"]["t"] != "arr" else "arr%d" % len(f["val"]["v"])))
        for b, p in ((f["b"], ""), (f["ib"], "item:")):
            if b["has"]:
                fs.update(p + x for x in _binding_label(b, tool["shell"]).split("+"))
                if b["pos"] != 0:
                    fs.add("position")
    for a in tool["args"]:
        fs.add("arguments:" + a["kind"])
    for k in ("stdin", "stdout", "stderr"):
        if tool[k]:
            fs.add(k)
    if tool["env"]:
        fs.add("EnvVarRequirement")
    if any(e["kind"] == "rt" for e in tool["env"]):
        fs.add("EnvVarRequirement:runtime")
    if tool["shell"]:
        fs.add("ShellCommandRequirement")
    return fs


def _probe_oracles(ctx):
    ctx.require(os.path.exists("/bin/sh"), "/bin/sh is missing")
    try:
        import cwltool.main  # noqa
    except Exception as e:
        ctx.require(False, "cwltool (the oracle) cannot be imported: %r" % (e,))


def _generate(ctx):
    """TLC: sanity theorems on every enumerated tool + JSON of [family, tool, expected]."""
    wd = ctx.spec_workdir("CWLBinding")
    of = os.path.join(wd, "cases.json")
    cfg = open(os.path.join(wd, "MC_CWLBinding.cfg")).read() + "\nCONSTANT MinElems = 99\n"
    r = ctx.tlc("CWLBinding", "Gen_CWLBinding", "Gen_all.cfg", workdir=wd, files={"Gen_all.cfg": cfg},
                env={"OUT_FILE": of}, timeout=900)
    ctx.require(r.ok, "the transcription violates its own sanity theorem %s (specification error):\n%s" % (r.violated, r.stdout[-1500:]))
    ctx.require(os.path.exists(of), "Gen_CWLBinding wrote no cases")
    cases = json.load(open(of))
    ctx.require(r.distinct == len(cases), "TLC visited %d tools but serialised %d" % (r.distinct, len(cases)))
    if not ctx.quick:
        n = 70
        s = ctx.tlc("CWLBinding", "Gen_CWLBinding", "Sim_CWLBinding.cfg", workdir=wd, workers=1,
                    simulate={"num": n, "depth": 10}, timeout=900)
        ctx.require(s.error is None, "simulation run failed: %s %s\n%s" % (s.error, s.violated, s.stdout[-1500:]))
        seen = set()
        for c in s.printed_json():
            key = json.dumps(c["tool"], sort_keys=True)
            if key not in seen:
                seen.add(key)
                cases.append(c)
        ctx.count("simulated_tools", len(seen))
        ctx.require(len(seen) >= 50, "simulation produced only %d tools" % len(seen))
    return cases


def run(ctx):
    from vh.sut import cwlbind as cb
    _probe_oracles(ctx)
    ctx.rule = ("TLC enumerates tool descriptions (families single/noshellq/order/quirk/shell/streams; thorough: + random "
                "tools of up to 6 inputs and 3 arguments by simulation) and STEPS (families jobs-*: one description, 2..3 jobs "
                "with different values / value shapes, compared job by job) and evaluates the expected argv/env/redirections "
                "and runtime environment (HOME, TMPDIR, $(runtime.*)); "
                "each tool is instantiated with concrete text (one 'hot' slot per variant gets the next character class, "
                "thorough: also all-slots-special variants) and run under cwltool (oracle; specification must agree) and "
                "StreamFlow; a case is non-trivial when the tool binds at least one non-null value")
    cases = _generate(ctx)
    # canonical order: the order in which TLC enumerates a set depends on the order in which it interned the strings
    # of the specification, i.e. on unrelated edits; the seed-driven selection below must not
    cases.sort(key=lambda c: json.dumps([c["tool"], c.get("more")], sort_keys=True))
    by_fam = {}
    for c in cases:
        by_fam.setdefault(c["fam"], []).append(c)
    for f in FAMILIES:
        ctx.require(by_fam.get(f), "family %s is empty" % f)
        ctx.count("enumerated:" + f, len(by_fam[f]))
    # --- selection (VERIF_C30_ONLY=fam,fam / VERIF_C30_LIMIT=n: development knobs, never set by the registered commands)
    only = [x for x in os.environ.get("VERIF_C30_ONLY", "").split(",") if x]
    if only:
        cases = [c for c in cases if c["fam"] in only]
        by_fam = {f: [c for c in cases if c["fam"] == f] for f in FAMILIES}
    rng = ctx.rng("select")
    if ctx.quick:
        quota = {"single": 70, "noshellq": 24, "order": 40, "quirk": 4, "shell": 30, "streams": 32,
                 "jobs-single": 8, "jobs-streams": 5, "jobs-args": 3, "jobs-multi": 3, "jobs-shell": 2}
        chosen = []
        for f in FAMILIES:
            lst = list(by_fam[f])
            rng.shuffle(lst)
            chosen += lst[:quota[f]]
        modes = ["hot"]
        ctx.exhaustive = False
    else:
        # every enumerated and simulated tool; of the steps a stratified sample (each costs 2..3 reference runs + a workflow)
        squota = {"jobs-single": 80, "jobs-streams": 40, "jobs-args": 30, "jobs-multi": 30, "jobs-shell": 20}
        chosen = [c for c in cases if c["fam"] not in squota]
        for f in FAMILIES:
            if f in squota:
                lst = list(by_fam[f])
                rng.shuffle(lst)
                chosen += lst[:squota[f]]
        modes = ["hot", "mix"]
        ctx.exhaustive = True
    limit = int(os.environ.get("VERIF_C30_LIMIT", "0") or 0)
    if limit:
        rng.shuffle(chosen)
        chosen = chosen[:limit]
    # --- concrete cases
    rr = {}
    concrete = []
    for n, c in enumerate(chosen):
        seen_texts = set()
        if c.get("more"):       # a step: one text variant (the jobs already differ from each other)
            concrete.append({"id": "%s-%d" % (c["fam"], n), "fam": c["fam"], "jobs": _assign_step(cb, c, n, rr),
                             "explicit_zero": n % 3 == 0})
            continue
        for v, mode in enumerate(modes):
            text, classes, hot = _assign(cb, c["tool"], mode, n + v * 7, rr)
            tkey = json.dumps(sorted((list(k), x) for k, x in text.items()))
            if tkey in seen_texts:          # nothing left to vary in this tool
                continue
            seen_texts.add(tkey)
            concrete.append({"id": "%s-%d-%d" % (c["fam"], n, v), "fam": c["fam"], "tool": c["tool"], "exp": c["exp"],
                             "text": text, "classes": classes, "hot": hot, "explicit_zero": (n + v) % 3 == 0})
    dev = bool(only or limit)
    ctx.programs = len(chosen)
    workers = int(os.environ.get("VERIF_C30_WORKERS", "0") or 0) or max(2, min(14, (os.cpu_count() or 4) - 2))
    results = _run_cases(ctx, cb, concrete, workers)
    # --- verdicts
    disagreements = []
    feats, cls_seen = {}, {}
    steps = jobs_run = shape_changes = 0
    for c in concrete:
        r = results[c["id"]]
        ctx.require("harness_error" not in r, "harness error while running %s: %s" % (c["id"], r.get("harness_error")))
        if c.get("jobs"):
            n = len(c["jobs"])
            ctx.require(all(x["ref"].get("rc") != "timeout" and x["sf"].get("rc") != "timeout" for x in r["jobs"]),
                        "watchdog expired while running %s (machinery, not a verdict)" % c["id"])
            bad = [(j, d) for j in range(n) for d in [spec_vs_oracle(cb, _job_case(c, j), _job_result(r, j))] if d is not None]
            ctx.disagreements_checked += n
            if bad:
                j, d = bad[0]
                disagreements.append((_job_case(c, j), d, _job_result(r, j)))
                continue
            steps += 1
            jobs_run += n
            shapes = {json.dumps([f["val"] for f in jb["tool"]["inputs"]], sort_keys=True) for jb in c["jobs"]}
            shape_changes += len(shapes) > 1
            ctx.case(c["id"] + ":" + json.dumps([sorted((list(k), v) for k, v in jb["classes"].items()) for jb in c["jobs"]]),
                     nontrivial=any(jb["exp"]["argv"] or jb["exp"]["env"] for jb in c["jobs"]))
            ctx.impl_trace(1)
            for jb in c["jobs"]:
                for f in _features_of(jb["tool"]):
                    feats[f] = feats.get(f, 0) + 1
                for cl in set(jb["classes"].values()):
                    cls_seen[cl] = cls_seen.get(cl, 0) + 1
            feats["step:%d-jobs" % n] = feats.get("step:%d-jobs" % n, 0) + 1
            diffs = compare_step(ctx, cb, c, r)
            if not diffs and not any("step" in x for x in ctx.samples) and len(ctx.samples) < 6:
                ctx.sample({"family": c["fam"], "step": True, "document": r["doc"], "jobs": r["job"],
                            "argv_both_runners": [x["sf"]["argv"] for x in r["jobs"]],
                            "env_both_runners": [dict(x["sf"]["env"], **x["sf"]["rt"]) for x in r["jobs"]]})
            continue
        ctx.require(r["ref"].get("rc") != "timeout" and r["sf"].get("rc") != "timeout",
                    "watchdog expired while running %s (machinery, not a verdict)" % c["id"])
        d = spec_vs_oracle(cb, c, r)
        ctx.disagreements_checked += 1
        if d is not None:
            disagreements.append((c, d, r))
            continue
        nontrivial = bool(c["exp"]["argv"]) or bool(c["exp"]["env"])
        ctx.case(c["id"] + ":" + json.dumps(sorted((list(k), v) for k, v in c["classes"].items())), nontrivial=nontrivial)
        ctx.impl_trace(1)
        for f in _features_of(c["tool"]):
            feats[f] = feats.get(f, 0) + 1
        for cl in set(c["classes"].values()):
            cls_seen[cl] = cls_seen.get(cl, 0) + 1
        diffs = compare(ctx, cb, c, r)
        if not diffs and len(ctx.samples) < 4 and c["exp"]["argv"]:
            ctx.sample({"family": c["fam"], "document": r["doc"], "job": r["job"], "argv_both_runners": r["sf"]["argv"],
                        "env": r["sf"]["env"]})
    ctx.extra["features_exercised"] = dict(sorted(feats.items()))
    ctx.extra["character_classes"] = dict(sorted(cls_seen.items()))
    ctx.count("concrete_runs", len(concrete))
    ctx.count("steps_run", steps)
    ctx.count("jobs_of_steps_run", jobs_run)
    ctx.count("steps_whose_jobs_differ_in_shape", shape_changes)
    if disagreements:
        c, d, r = disagreements[0]
        for c2, d2, r2 in disagreements[1:12]:
            print("spec-vs-oracle disagreement %s: %s | inputs=%s job=%s" % (c2["id"], d2[:400], json.dumps(r2.get("doc", {}).get("inputs"))[:300],
                                                                          json.dumps(r2.get("job"))[:300]), flush=True)
        ctx.require(False, "SPECIFICATION ERROR (not a verdict on StreamFlow): %d case(s) where CWLBinding.tla disagrees with "
                           "cwltool, first: %s\n  %s\n  document=%s\n  job=%s" % (len(disagreements), c["id"], d,
                                                                            json.dumps(r.get("doc")), json.dumps(r.get("job"))))
    # vacuity guards
    need = ["prefix", "separate=false", "itemSeparator", "valueFrom", "shellQuote=false", "item:prefix", "position",
            "arguments:str", "arguments:rec", "stdin", "stdout", "EnvVarRequirement", "ShellCommandRequirement",
            "value:null", "value:bool", "value:arr0", "value:arr2", "value:file", "value:int"]
    need += ["step:2-jobs", "step:3-jobs", "EnvVarRequirement:runtime"]
    missing = [f for f in need if not feats.get(f)]
    ctx.require(dev or not missing, "vacuous run: features never exercised: %s" % missing)
    ctx.require(dev or (steps >= 10 and shape_changes >= 4),
                "vacuous run: only %d steps of several jobs (%d with jobs of different shapes)" % (steps, shape_changes))
    miss_cls = [k for k in ("plain", "space", "squote", "dquote", "dollar", "backtick", "backslash", "newline", "semicolon",
                            "glob", "nonascii", "empty", "dash") if not cls_seen.get(k)]
    ctx.require(dev or not miss_cls, "vacuous run: character classes never used: %s" % miss_cls)
    ctx.assumptions += [
        "oracle = cwltool (in-process, --no-container --relax-path-checks); the specification is required to agree with it on every run case",
        "tools are restricted to the domain where the reference succeeds (e.g. no 'separate: false' without prefix)",
        "File arguments are compared up to the staging directory (basename and surrounding text must be equal)",
        "words that are not shell-quoted use five fixed contents whose lexing by sh is part of the specification",
        "local execution only (LocalConnector, /bin/sh); literal text of the CWL document never contains '$(' or '${'",
        "a job's output directory is the directory its process starts in; its temporary directory is what $(runtime.tmpdir) "
        "evaluates to when the tool publishes it, else $TMPDIR (then only required to be a directory of the job's own)",
        "steps: the several jobs of one tool are the elements of a scatter (dotproduct over all inputs); the order in which "
        "StreamFlow executes them is not controlled (the specification makes the answer independent of it); the oracle runs every job alone",
    ]


def replay(ctx, data):
    from vh.sut import cwlbind as cb
    d = data["detail"]
    if d.get("kind") == "step":
        sc = _step_from_detail(d["step"])
        sc["id"] = "replay"
        res = _run_cases(ctx, cb, [sc], 1)["replay"]
        ctx.require("harness_error" not in res, "harness error: %s" % res.get("harness_error"))
        for j in range(len(sc["jobs"])):
            dis = spec_vs_oracle(cb, _job_case(sc, j), _job_result(res, j))
            ctx.require(dis is None, "specification disagrees with cwltool on job %d of the replayed step: %s" % (j + 1, dis))
        diffs = compare_step(ctx, cb, sc, res)
        print("replayed: %s" % ("; ".join(s for s, _ in diffs) or "no difference between the reference and StreamFlow"))
        return
    if d.get("kind") != "case":
        return run(ctx)
    text = {tuple(k): v for k, v in d["text"]}
    classes = {tuple(k): v for k, v in d["classes"]}
    c = {"id": "replay", "fam": d["family"], "tool": d["tool"], "exp": d["exp"], "text": text, "classes": classes,
         "hot": tuple(d["hot"]) if d["hot"] else None, "explicit_zero": d["explicit_zero"]}
    res = _run_cases(ctx, cb, [c], 1)["replay"]
    ctx.require("harness_error" not in res, "harness error: %s" % res.get("harness_error"))
    dis = spec_vs_oracle(cb, c, res)
    ctx.require(dis is None, "specification disagrees with cwltool on the replayed case: %s" % dis)
    diffs = compare(ctx, cb, c, res)
    print("replayed: %s" % ("; ".join(s for s, _ in diffs) or "no difference between the reference and StreamFlow"))
