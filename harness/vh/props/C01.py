"""C01 - scatter then gather returns the original list in its original order (module ScatterGather).

Model: specs/ScatterGather transcribes ScatterStep._scatter, an arbitrary element-wise stage (any
permutation, may fail after any subset) and GatherStep.run/_gather (size_map, token_map, keys_completed,
per-port terminations, forced gather, terminate) for the two wirings of the translator (chained depth-1
gathers; one gather with depth = D).  TLC checks I1 (identity), I2 (at most one output per key), I3 (no
forced gather on failure), ScatterOK and L1 (exactly one output per list: as a temporal property under
weak fairness on the small configurations and as the at-rest invariant everywhere) over all interleavings
of element / size / termination arrivals and all permutations of the elements.

Binding (spec -> code), three ways:
  (a) behaviours produced by TLC (all complete behaviours for depth 1, n <= 3/4; random simulation for the
      nested wirings and for n in {10, 11, 12, 15}; structured orders - reverse, rotations, lexicographic,
      "last before 2" - for n >= 10) are replayed into a REAL GatherStep (real ports, in-memory SQLite):
      the arrivals of each gather of the behaviour are put one at a time, the loop is run to quiescence
      and the output port (tags + values) is compared with the model's output log after every arrival;
  (b) for every input list a chain of REAL ScatterSteps is fed the list and its element/size ports are
      compared with the model's Scatter actions;
  (c) whole workflows  ScatterStep^D -> out-of-order element-wise step -> GatherStep(s)  are run by the
      real StreamFlowExecutor under seeded database completion delays and seeded element reordering; the
      result must be the identity (chained) / the row-major flattening (flat).
"""
from __future__ import annotations

import json
import random
from concurrent.futures import ThreadPoolExecutor

from vh import aio

LEVEL = "model_checking"

INVS = ["I1_Identity", "I2_AtMostOnce", "I3_NoForcedOnFailure", "ScatterOK", "TypeOK", "L1_AtRest"]


def cfg(d, mode, shapes, lo=0, hi=0, n=0, orders="Free", size_st=("completed", "skipped"),
        elem_st=("completed", "skipped", "failed"), drop=True, eager=False, record=False, live=False, gen=False):
    q = lambda xs: "{%s}" % ", ".join('"%s"' % x for x in xs)
    t = ["CONSTANTS D = %d  Mode = \"%s\"  Lo = %d  Hi = %d  N = %d" % (d, mode, lo, hi, n),
         "  ShapeSet <- %s" % shapes, "  OrderFor <- %s" % orders,
         "  SizeTermSt = %s" % q(size_st), "  ElemTermSt = %s" % q(elem_st),
         "  Drop = %s  Eager = %s  Record = %s" % tuple("TRUE" if b else "FALSE" for b in (drop, eager, record))]
    if gen:
        t += ["INIT Init", "NEXT GenNext"]
    elif live:
        t += ["SPECIFICATION FairSpec", "PROPERTY L1_ExactlyOne"] + ["INVARIANT %s" % i for i in INVS]
    else:
        t += ["INIT Init", "NEXT Next"] + ["INVARIANT %s" % i for i in INVS]
    return "\n".join(t) + "\n"


# ------------------------------------------------------------------------------------------------
# comparison of one real gather with the model
# ------------------------------------------------------------------------------------------------

def _tagstr(t):
    return ".".join(str(c) for c in t)


def _norm(x):
    return json.dumps(x, sort_keys=True)


def classify(model_out, real_out):
    """model_out: [(tag str, expected python value)], real_out: [(tag str, value)] -> None | clause"""
    m = sorted((t, _norm(v)) for t, v in model_out)
    r = sorted((t, _norm(v)) for t, v in real_out)
    if m == r:
        return None
    mt, rt = sorted(t for t, _ in m), sorted(t for t, _ in r)
    if mt != rt:
        if len(set(rt)) < len(rt):
            return "duplicate-output"
        if set(rt) < set(mt) or len(rt) < len(mt):
            return "missing-output"
        if set(mt) < set(rt) or len(rt) > len(mt):
            return "unexpected-output"
        return "wrong-tag"
    md, rd = dict(model_out), dict(real_out)
    for t in md:
        if _norm(md[t]) != _norm(rd.get(t)):
            a, b = md[t], rd.get(t)
            if isinstance(a, list) and isinstance(b, list) and sorted(map(_norm, a)) == sorted(map(_norm, b)):
                return "element-order"
            return "elements"
    return "elements"


def _size_class(evs):
    n = sum(1 for e in evs if e["ev"] == "elem")
    return "n=0" if n == 0 else "n=1" if n == 1 else "n=2..9" if n < 10 else "n>=10"


async def replay_gather(ctx, session, R, evs, depth, meta):
    """evs: the events of ONE gather of a model behaviour, in order.  Returns True when the real step agreed."""
    rig = await R.GatherRig(session, depth).start()
    ok = True
    try:
        for i, ev in enumerate(evs):
            try:
                await rig.arrive(ev)
            except TimeoutError as e:
                ctx.require(False, "rig did not become quiescent: %s" % e)
            nxt = evs[i + 1]["ev"] if i + 1 < len(evs) else None
            if nxt == "finish":
                continue        # the second termination and the end-of-stream processing are one reaction of the code
            obs = rig.observe()
            exp_out = [(_tagstr(o["tag"]), R.expected_value(o["val"])) for o in ev["out"]]
            clause = None
            if obs["error"] is not None:
                clause = obs["error"][0]
            else:
                clause = classify(exp_out, obs["out"])
                if clause is None and ev["ev"] == "finish" and not obs["done"]:
                    clause = "no-termination"
                if clause is None and ev["ev"] == "finish" and obs["term"] is None:
                    clause = "no-termination-token"
            if clause is not None:
                forced = ev["ev"] == "finish"
                sig = "gather:depth=%d:%s:%s:%s" % (depth, clause, "end-of-stream" if forced else "on-" + ev["ev"],
                                                   _size_class(evs))
                ctx.violation(sig, {"kind": "gather", "depth": depth, "events": evs[:i + 1], "meta": meta,
                                    "expected_out": exp_out, "got_out": obs["out"], "error": obs["error"]},
                              "GatherStep(depth=%d) after %s: output port holds %s, the specification says %s%s" % (
                                  depth, [e["ev"] + (":" + _tagstr(e["tag"]) if e["tag"] else "") for e in evs[:i + 1]],
                                  obs["out"], exp_out, " (raised %s)" % obs["error"][1] if obs["error"] else ""))
                ok = False
                break
            # internal state and status: projections that the property does not constrain -> counters only
            if obs["smk"] is not None and (obs["smk"] != sorted(_tagstr(t) for t in ev["smk"]) or
                                           obs["tmk"] != sorted(_tagstr(t) for t in ev["tmk"])):
                ctx.count("extra:internal_key_sets_differ")
            if ev["ev"] == "finish" and obs["term"] != ev["fin"]:
                ctx.count("extra:final_status_differs")
    finally:
        await rig.stop()
    return ok


def split_behaviour(b):
    """-> [(g, depth, events of gather g)]"""
    d, mode = b["d"], b["mode"]
    out = []
    for g in sorted({e["g"] for e in b["hist"]}):
        out.append((g, 1 if mode == "chained" else d, [e for e in b["hist"] if e["g"] == g]))
    return out


def behaviour_key(evs, depth):
    return _norm([depth] + [[e["ev"], e["tag"], e["val"] if e["ev"] != "elem" else 0] for e in evs])


# ------------------------------------------------------------------------------------------------
def value_of_shape(shape, d, p=()):
    if len(p) == d:
        return {"leaf": list(p)}
    return [value_of_shape(s, d, p + (i,)) for i, s in enumerate(shape)]


def flatten(val):
    if isinstance(val, dict):
        return [val]
    out = []
    for v in val:
        out += flatten(v)
    return out


async def check_scatter(ctx, session, R, b):
    """ScatterStep chain on the behaviour's input list vs the model's Scatter actions."""
    d, shape = b["d"], b["shape"]
    val = value_of_shape(shape, d)
    chain = await R.ScatterChain(session, d).start()
    try:
        await chain.feed(val)
        obs = chain.observe()
    finally:
        await chain.stop()

    def sub(p):
        v = val
        for i in p:
            v = v[i]
        return v
    for k in range(d):
        err = obs["errors"][k]
        exp_el = sorted((_tagstr([0] + p), _norm(R.expected_value(sub(p)))) for p in b["elem"][k])
        exp_sz = sorted((_tagstr([0] + s["path"]), s["n"]) for s in b["size"][k])
        got_el = sorted((t, _norm(v)) for t, v in obs["elem"][k][0])
        got_sz = sorted((t, v) for t, v in obs["size"][k][0])
        clause = None
        if err is not None:
            clause = err[0]
        elif got_el != exp_el:
            clause = "elements" if sorted(t for t, _ in got_el) == sorted(t for t, _ in exp_el) else "element-tags"
        elif got_sz != exp_sz:
            clause = "size-token"
        elif obs["elem"][k][1] is None or obs["size"][k][1] is None:
            clause = "no-termination-token"
        if clause:
            ctx.violation("scatter:level=%d:%s" % (k + 1, clause),
                          {"kind": "scatter", "d": d, "shape": shape, "level": k + 1, "expected_elem": exp_el, "got_elem": got_el,
                           "expected_size": exp_sz, "got_size": got_sz, "error": err, "behaviour": {"d": d, "shape": shape, "elem": b["elem"], "size": b["size"]}},
                          "ScatterStep %d of %d on list %s: element port %s / size port %s, specification says %s / %s" % (
                              k + 1, d, shape, got_el, got_sz, exp_el, exp_sz))
            return False
    return True


async def check_workflow(ctx, session, R, d, mode, shape, seed):
    val = value_of_shape(shape, d)
    rng = random.Random("%s/%s/%s/%s" % (ctx.seed, seed, d, mode))
    r = await R.run_workflow(session, d, mode, val, rng)
    exp_val = R.expected_value(val if mode == "chained" else flatten(val))
    exp = [("0", exp_val)]
    clause = r["error"][0] if r["error"] else classify(exp, r["out"])
    if clause is None and (not isinstance(r["result"], dict) or _norm(r["result"].get("out")) != _norm(exp_val)):
        clause = "executor-result"
    nleaves = len(flatten(val))
    reordered = r["order"] != sorted(r["order"], key=lambda t: [int(c) for c in t.split(".")])
    ctx.case(("wf", d, mode, _norm(shape), tuple(r["order"])), nontrivial=reordered or nleaves <= 1)
    ctx.count("workflow_runs")
    if reordered:
        ctx.count("workflow_runs_reordered")
    if nleaves >= 10:
        ctx.count("workflow_runs_n>=10")
    if clause:
        ctx.violation("workflow:%s:d=%d:%s:%s" % (mode, d, clause, "n>=10" if nleaves >= 10 else "n<10"),
                      {"kind": "workflow", "d": d, "mode": mode, "shape": shape, "seed": seed, "order": r["order"],
                       "expected": exp, "got": r["out"], "result": r["result"], "error": r["error"]},
                      "scatter^%d -> element-wise step (emission order %s) -> gather [%s]: output %s, expected %s%s" % (
                          d, r["order"], mode, r["out"], exp, " (%s)" % r["error"][1] if r["error"] else ""))
        return False
    return True


def _flat_shape(n):
    return [[] for _ in range(n)]


def workflow_cases(ctx):
    rng = ctx.rng("wf")
    cases = []
    for n in (0, 1, 2, 3, 5, 10, 11, 12, 15, 23):
        cases.append((1, "chained", _flat_shape(n)))
    for sh in ([[[], []], [[], [], []]], [[[], [], []], [], [[]]], [[] for _ in range(3)], [[[]] * 11, [[]] * 2], [[[]] * 2] * 11):
        sh = json.loads(json.dumps(sh))
        cases.append((2, "chained", sh))
        cases.append((2, "flat", sh))
    for sh in ([[[[], []], [[], []]], [[[], []], [[], []]]], [[[[]], []], [], [[[], [], []]]]):
        sh = json.loads(json.dumps(sh))
        cases.append((3, "chained", sh))
        cases.append((3, "flat", sh))
    reps = ctx.pick(3, 25)
    out = []
    for c in cases:
        for i in range(reps):
            out.append(c + (rng.randrange(10 ** 9),))
    return out


# ------------------------------------------------------------------------------------------------
def _tlc_jobs(ctx):
    """(label, kind, cfg text, kwargs).  Few JVMs: every job is one TLC run."""
    Q = ctx.quick
    jobs = []
    few = dict(size_st=("completed",), elem_st=("completed", "failed"))
    # exhaustive model checking
    jobs.append(("mc:d1:n<=4", "mc", cfg(1, "chained", "MCShapes", 0, 4, live=True), {}))
    jobs.append(("mc:d2:chained:n<=2", "mc", cfg(2, "chained", "MCShapes", 0, 2, live=not Q, **(few if Q else {})), {}))
    jobs.append(("mc:d2:flat:n<=%d" % (2 if Q else 3), "mc", cfg(2, "flat", "MCShapes", 0, 2 if Q else 3), {}))
    if not Q:
        jobs.append(("mc:d2:chained:n<=3", "mc", cfg(2, "chained", "MCShapes", 0, 3, **few), {}))
        jobs.append(("mc:d3:flat:2x2x2", "mc", cfg(3, "flat", "Rect", 2, 2, **few), {}))
        jobs.append(("mc:d3:chained:2x2x2", "mc", cfg(3, "chained", "Rect", 2, 2, **few), {}))
        jobs.append(("mc:d3:chained:n<=1", "mc", cfg(3, "chained", "MCShapes", 0, 1), {}))
    # generation: ALL complete behaviours, depth 1
    jobs.append(("gen:d1:n<=%d" % (3 if Q else 4), "gen",
                 cfg(1, "chained", "MCShapes", 0, 3 if Q else 4, size_st=("completed", "skipped") if Q else ("completed",),
                     elem_st=("completed", "failed"), eager=True, record=True, gen=True), {"workers": 1}))
    if not Q:
        jobs.append(("gen:d1:n<=2:statuses", "gen",
                     cfg(1, "chained", "MCShapes", 0, 2, eager=True, record=True, gen=True), {"workers": 1}))
    # structured orders for n >= 10: all interleavings with the size token and the terminations
    jobs.append(("gen:struct:n>=10", "gen",
                 cfg(1, "chained", "OneFlat" if Q else "BigFlats", n=12, orders="StructuredQ" if Q else "Structured", size_st=("completed",),
                     elem_st=("completed",), drop=not Q, eager=True, record=True, gen=True), {"workers": 1}))
    # simulation: random permutations for n in {10, 11, 12, 15} and the nested wirings
    num = ctx.pick(120, 1600)
    jobs.append(("sim:d1:n>=10", "sim", cfg(1, "chained", "BigFlats", eager=True, record=True, gen=True, **few),
                 {"workers": 1, "simulate": {"num": num, "depth": 70}}))
    numn = ctx.pick(80, 600)
    jobs.append(("sim:d2:chained", "sim", cfg(2, "chained", "MCShapes", 0, 3, eager=True, record=True, gen=True),
                 {"workers": 1, "simulate": {"num": numn, "depth": 120}}))
    jobs.append(("sim:d3:flat", "sim", cfg(3, "flat", "MCShapes", 1, 2, eager=True, record=True, gen=True),
                 {"workers": 1, "simulate": {"num": numn // 2, "depth": 200}}))
    jobs.append(("sim:d2:flat", "sim", cfg(2, "flat", "MCShapes", 0, 4, eager=True, record=True, gen=True),
                 {"workers": 1, "simulate": {"num": numn // 2 if Q else numn, "depth": 120}}))
    if not Q:
        jobs.append(("sim:d3:chained", "sim", cfg(3, "chained", "MCShapes", 0, 2, eager=True, record=True, gen=True),
                     {"workers": 1, "simulate": {"num": numn, "depth": 200}}))
    return jobs


def _partial_stats(ctx, cfg_name, r):
    """A time-boxed exhaustive run that did not finish has no final statistics line: read the last progress line
    (TLC prints thousands separators there, which vh.tlc's parser does not accept)."""
    import re
    if r.timed_out and r.distinct == 0:
        ms = re.findall(r"([\d,]+) states generated(?: \([^)]*\))?, ([\d,]+) distinct states found", r.stdout or "")
        if ms:
            r.generated, r.distinct = (int(x.replace(",", "")) for x in ms[-1])
            for rec in ctx.tlc_runs:
                if rec.get("cfg") == cfg_name:
                    rec.update(states=r.distinct, transitions=r.generated, complete=False)
    return r


def _run_tlc_jobs(ctx, jobs):
    prepared = []
    for i, (label, kind, text, kw) in enumerate(jobs):
        name = "J%d.cfg" % i
        wd = ctx.spec_workdir("ScatterGather", {name: text})
        prepared.append((label, kind, name, wd, kw))

    def one(p):
        label, kind, name, wd, kw = p
        kw = dict(kw)
        if kind == "mc":
            kw.setdefault("coverage", True)
            kw.setdefault("workers", 4)
        kw.setdefault("max_heap", "3g")
        if kind == "mc":
            # exhaustive runs are bounded in time: on an overloaded machine a run that does not finish is recorded as
            # an incomplete exploration (every visited state was checked), never as a failure of the check
            kw.setdefault("allow_timeout", True)
            kw.setdefault("timeout", ctx.pick(420, 800))
        else:
            kw.setdefault("timeout", 1800)
        return _partial_stats(ctx, name, ctx.tlc("ScatterGather", "MC_ScatterGather", name, workdir=wd, count=False, **kw))
    with ThreadPoolExecutor(max_workers=ctx.pick(8, 6)) as ex:
        results = list(ex.map(one, prepared))
    return [(p[0], p[1], r) for p, r in zip(prepared, results)]


def collect(ctx):
    """Run TLC (model checking + generation) and return the behaviours to bind: [(label, behaviour)]."""
    results = _run_tlc_jobs(ctx, _tlc_jobs(ctx))
    behaviours = []
    for label, kind, r in results:
        if kind == "mc":
            if r.timed_out and r.error is None:
                ctx.count("model_runs_incomplete(timeout)")
            elif not r.ok:
                # a counterexample in the model alone is never a verdict on the code: it means the model or the
                # environment assumptions are wrong (the unchanged model passes): machinery error
                ctx.require(False, "ScatterGather model violates %s in %s (%s)\n%s" % (r.violated, label, r.error, r.stdout[-1500:]))
            ctx.states += r.distinct
            ctx.transitions += r.generated
            need = ["Scatter", "RecvSizeAny", "RecvLeafAny", "TermSize", "TermLeaf", "Finish"]
            if ":chained" in label and not label.startswith("mc:d1"):
                need += ["RecvInner", "TermInner"]
            if ":flat" in label:
                need += ["Aggregate"]
            if not r.timed_out:
                ctx.require_coverage(r, need)
            ctx.count("model_states:%s" % label, r.distinct)
        else:
            ctx.require(r.error is None, "generation run %s failed: %s\n%s" % (label, r.error, r.stdout[-800:]))
            bs = r.printed_json()
            ctx.require(len(bs) > 0, "generation run %s produced no behaviour" % label)
            seen = set()
            for b in bs:
                k = _norm(b)
                if k in seen:
                    continue
                seen.add(k)
                behaviours.append((label, b))
            ctx.count("behaviours:%s" % label, len(seen))
    return behaviours


def run(ctx):
    from vh.sut import sg_rigs as R
    ctx.rule = ("TLC explores every interleaving of element/size/termination arrivals and every permutation of the elements "
                "(exhaustively for depth 1 n<=4, depth 2 n<=3 per level, 2x2x2 depth 3); each complete behaviour it emits is "
                "replayed arrival by arrival into a real GatherStep and the output port is compared with the model after every "
                "arrival; a behaviour is non-trivial when it delivers at least one element or size token; whole workflows are "
                "non-trivial when the element-wise step really reordered the elements")
    behaviours = collect(ctx)
    bind(ctx, R, behaviours)


def bind(ctx, R, behaviours):
    ctx.exhaustive = True

    async def main():
        session = R.Session()
        try:
            done = set()
            shapes_done = set()
            nb = 0
            for label, b in behaviours:
                sk = _norm([b["d"], b["shape"]])
                if sk not in shapes_done:
                    shapes_done.add(sk)
                    ctx.case(("scatter", sk), nontrivial=True)
                    await check_scatter(ctx, session, R, b)
                    ctx.count("scatter_chains_checked")
                for g, depth, evs in split_behaviour(b):
                    key = behaviour_key(evs, depth)
                    if key in done:
                        ctx.count("gather_replays_skipped_duplicates")
                        continue
                    done.add(key)
                    nontrivial = any(e["ev"] in ("elem", "size") for e in evs)
                    ctx.case(key, nontrivial)
                    ok = await replay_gather(ctx, session, R, evs, depth, {"source": label, "g": g, "d": b["d"], "mode": b["mode"], "shape": b["shape"]})
                    nb += 1
                    ctx.count("gather_replays:%s" % _size_class(evs))
                    ctx.count("gather_replays:depth=%d" % depth)
                    if any(e["ev"] == "finish" and len(e["out"]) > len(evs[i - 1]["out"]) for i, e in enumerate(evs) if i > 0):
                        ctx.count("gather_replays:with_forced_gather")
                    if any(e["ev"] == "termE" and e["val"] == "failed" for e in evs):
                        ctx.count("gather_replays:failed_stream")
                    els = [e["tag"] for e in evs if e["ev"] == "elem"]
                    if els != sorted(els):
                        ctx.count("gather_replays:elements_out_of_order")
                    if len(ctx.samples) < 3 and len(els) >= 3 and els != sorted(els) and ok:
                        ctx.sample({"gather_depth": depth, "arrivals": [[e["ev"], _tagstr(e["tag"]), e["val"] if e["ev"] != "elem" else None] for e in evs],
                                    "final_output": [[_tagstr(o["tag"]), R.expected_value(o["val"])] for o in evs[-1]["out"]]})
            ctx.impl_trace(nb)
            for (d, mode, shape, seed) in workflow_cases(ctx):
                await check_workflow(ctx, session, R, d, mode, shape, seed)
            ctx.impl_trace(ctx.counters.get("workflow_runs", 0))
        finally:
            await session.close()

    # whole workflows: seeded delays on the database completions (the real nondeterminism of the engine)
    _, err = aio.run(main(), timeout=ctx.pick(600, 3000))
    if err is not None:
        raise err
    for k in ("gather_replays:n=0", "gather_replays:n>=10", "gather_replays:with_forced_gather", "gather_replays:failed_stream",
              "gather_replays:elements_out_of_order", "gather_replays:depth=2", "gather_replays:depth=3", "workflow_runs_reordered",
              "workflow_runs_n>=10"):
        ctx.require(ctx.counters.get(k, 0) > 0, "vacuous: class %s never exercised" % k)
    ctx.extra["extra"] = {k: v for k, v in ctx.counters.items() if k.startswith("extra:")}
    ctx.assumptions += [
        "the element-wise stage forwards every element exactly once unless it fails; size tokens are dropped only for non-empty lists",
        "termination statuses COMPLETED / SKIPPED / FAILED (CANCELLED is sent only while the executor aborts the run)",
        "an arrival and its consumption by the GatherStep are one action (one coroutine per step, FIFO ports)",
        "tokens are saved to the database before they are put on a port (what every engine step does)",
    ]


def replay(ctx, data):
    from vh.sut import sg_rigs as R
    d = data["detail"]

    async def main():
        session = R.Session()
        try:
            if d.get("kind") == "gather":
                # the stored events are a prefix; the expected outputs are stored with every event
                await replay_gather(ctx, session, R, d["events"], d["depth"], d.get("meta", {}))
            elif d.get("kind") == "scatter":
                await check_scatter(ctx, session, R, d["behaviour"])
            elif d.get("kind") == "workflow":
                await check_workflow(ctx, session, R, d["d"], d["mode"], d["shape"], d["seed"])
        finally:
            await session.close()
    _, err = aio.run(main(), timeout=600)
    if err is not None:
        raise err
