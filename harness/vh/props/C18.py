"""C18 - recovery re-runs only failed jobs and producers of lost data (module Recovery).

Model: specs/Recovery/Recovery.tla: `Graph` is ProvenanceGraph.build_graph (backward closure from the failed job's
input instances through UNAVAILABLE instances up to available ones); TLC checks OnlyNeeded (a job is attempted
twice only if it failed itself or one of its instances was lost when a consumer's recovery needed it) on the
complete state graph of every plan and emits, per plan and observable schedule, the number of attempts of EVERY
phase of EVERY job.  Binding: each chosen plan runs on the real engine and the attempts of all jobs (injector
counters + rows of the `execution` table) are compared with the model - including the jobs that must NOT run
again (other scatter elements, jobs on the other location, descendants).

Second family (fork/join DAGs, partial data loss): chains with skip edges (`dag4`..`dag6`, one topological order, so
the real engine is sequential by itself), two fail-stop failures in sequence, each losing the outputs of a chosen set
of provenance ancestors of the failing job (`fail_sel`: per-job directories and all their copies, not a whole
location).  These are the histories in which a recovery meets an old LOST instance of a job and a newer AVAILABLE one
on the same port (GraphMapper._update_token: the available one wins, the job must not run again); the model
classifies every plan (`superseded`: late / early = the order in which the breadth-first walk meets the two).

Third family (overlapping recoveries, module RecoveryConc with the ROLLBACK window made visible): consumers of one
producer fail together, the first failure destroys the producer's output; TLC enumerates the interleavings, the ones
in which a recovery synchronizes while the producer - rolled back by another recovery - has NOT been scheduled again
yet (status ROLLBACK) are imposed on the real engine with gates: the second recovery must attach to the first one's
workflow and the producer runs once more, not twice (`is_recovering` must cover ROLLBACK).
"""
from __future__ import annotations

import json

from vh.sut import recov_model as rm

LEVEL = "model_checking"


def check_case(ctx, case):
    det = {k: case.get(k) for k in ("shape", "plan", "limit", "dummy", "serial", "seed", "model_kw") if k in case}
    sig = case["sig"]
    if case["hang"]:
        ctx.count("runs_hung")
        ctx.violation("c18:hang:%s" % sig, dict(det, events_tail=case.get("events_tail")),
                      "the run never ended, so no job count can be compared (the model proves that every plan terminates)")
        return False
    o, rec = case["o"], case["rec"]
    det.update({"observed": o, "natural_failures": case["natural"]})
    if rec is None:
        if case["stale"]:
            ctx.violation("c18:reexecution:%s" % sig, dict(det, why=case["why"]),
                          "jobs re-executed outside the model's roll-back set (stale JobToken): %s" % case["why"])
        else:
            ctx.violation("c18:schedule-not-in-model:%s" % sig, dict(det, why=case["why"]), case["why"])
        return False
    det["model"] = {k: rec[k] for k in ("outcome", "attempts", "version", "hist", "rolled", "failed")}
    if case["shape"].startswith("dag") and o["outcome"] == "raised" and rec["outcome"] == "done":
        # (C16 does not run this family: a recovery that gives up is reported here; no count can be compared)
        ctx.violation("c18:raised:%s" % sig, dict(det, error=case.get("error")),
                      "the run raised (%s); the model completes this plan with attempts %s" % (case.get("error"), rec["attempts"]))
        return False
    d = [x for x in rm.diff(rec, o) if x[0] != "outcome"]
    if not d:
        return True
    name, m, r = d[0]
    if name.startswith("attempts"):
        x = name.split(":")[1]
        clause = "reexecuted-unneeded" if r > m else "not-reexecuted"
        ctx.violation("c18:%s:%s:%s" % (clause, rm.role(case["shape"], x), sig), dict(det, diff=d),
                      "job %s ran phase %s %d times, the model (failed jobs + producers of lost data) says %d; all differences: %s" % (
                          x, name.split(":")[2], r, m, d[:5]))
    else:
        ctx.violation("c18:%s:%s" % (name.split(":")[0], sig), dict(det, diff=d), "counts differ from the model: %s" % d[:5])
    return False


def run(ctx):
    ctx.rule = ("the plans of C16; for every plan the attempts of every phase of every job are compared with the model's terminal state "
                "for the same observable schedule; non-trivial = at least one injected failure")
    specs = rm.c16_specs(ctx)
    preds = rm.model_runs(ctx, [(s, kw) for s, kw, _ in specs])
    cases = rm.c16_cases(ctx, preds, specs)
    n_must_not = 0
    for i, (shape, k, serial) in enumerate(cases):
        recs = preds[shape][k]
        case = rm.run_case(ctx, shape, recs, serial=serial, seed=ctx.seed * 100003 + i)
        plan = recs[0]["plan"] or {}
        ctx.case((shape, k), nontrivial=bool(plan))
        ctx.impl_trace(1)
        check_case(ctx, case)
        if case["hang"] and ctx.counters.get("runs_hung", 0) >= 8:
            ctx.count("aborted_after_8_hangs(remaining plans not run)")
            break
        rec = case.get("rec")
        if rec and plan:
            untouched = [x for x in rec["attempts"] if max(rec["attempts"][x].values()) == 1]
            rolled = rec.get("rolled") or []
            n_must_not += bool(untouched)
            ctx.count("jobs_that_must_not_rerun", len(untouched))
            ctx.count("jobs_rolled_back_for_lost_data", len(rolled))
            if any(v[1] == "fail_stop" for v in plan.values()) and untouched and rolled:
                ctx.count("plans_with_partial_frontier")
        ctx.count("real:%s" % shape)
        if i in (7, 50, 90):
            ctx.sample({"shape": shape, "plan": plan, "model_attempts": rec and rec["attempts"],
                        "real_attempts": None if case["hang"] else case["o"]["attempts"], "schedule": None if case["hang"] else case["o"]["hist"]})
    ctx.require(n_must_not >= 20, "vacuous: only %d plans contain a job that must not run again" % n_must_not)
    run_dags(ctx, len(cases))
    run_window(ctx)
    ctx.exhaustive = False
    ctx.assumptions += ["see C16; availability is that of files on the volatile directories; the model's data instances are (job, generation)",
                        "two-location pipelines (pipeNx) give frontiers that stop at data surviving on the other location"]


def run_dags(ctx, base):
    """Fork/join DAGs, two failures in sequence with partial data loss (see the module docstring)."""
    specs = rm.dag_specs(ctx)
    preds = rm.model_runs(ctx, [(s, kw) for s, kw, _ in specs])
    cases = rm.dag_cases(ctx, preds, specs)
    kws = {s: kw for s, kw, _ in specs}
    n = {}
    for i, (shape, k, cls) in enumerate(cases):
        recs = preds[shape][k]
        # free running: the shapes have one topological order; seeded completion delays as everywhere else
        case = rm.run_case(ctx, shape, recs, serial=False, seed=ctx.seed * 100003 + base + i)
        case["model_kw"] = {kk: (list(v) if isinstance(v, tuple) else v) for kk, v in kws[shape].items()}
        plan = recs[0]["plan"] or {}
        ctx.case((shape, k), nontrivial=bool(plan))
        ctx.impl_trace(1)
        ok = check_case(ctx, case)
        n[cls] = n.get(cls, 0) + 1
        ctx.count("real:%s" % shape)
        ctx.count("real:dag:%s" % cls)
        if ok:
            ctx.count("real:dag:%s:agree" % cls)
        if case["hang"] and ctx.counters.get("runs_hung", 0) >= 8:
            ctx.count("aborted_after_8_hangs(remaining plans not run)")
            break
        rec = case.get("rec")
        if rec and cls == "late":
            ctx.count("jobs_not_rolled_back_because_a_newer_instance_is_available", len({x for r in recs for x, _ in r["superseded"]}))
            if n[cls] == 1:
                ctx.sample({"shape": shape, "plan": plan, "superseded": recs[0]["superseded"], "model_attempts": rec["attempts"],
                            "real_attempts": None if case["hang"] else case["o"]["attempts"]})
    ctx.require(n.get("late", 0) >= 2, "vacuous: only %d plans in which a lost instance is superseded by an available one (late order)" % n.get("late", 0))
    ctx.require(n.get("rest", 0) >= 10, "vacuous: only %d ordinary fork/join plans" % n.get("rest", 0))
    ctx.assumptions += ["fork/join family: failures are injected in the execute phase only; a fail-stop with partial loss removes every "
                        "output file the chosen jobs produced so far and every copy the data manager relates to it; plans in which two "
                        "transfer steps of one job fail at once are not run (concurrent recoveries: C19)"]


def check_window(ctx, b):
    o = rm.run_window(ctx, b)
    cons = sorted(b["needs"])
    cls = "fan%d:%s:sync-in-rollback-window" % (b["n"], b["ph"])
    det = {"family": "window", "n": b["n"], "wiper": b["wiper"], "needs": b["needs"], "phases": b["ph"], "trace": b["trace"],
           "model": {k: b[k] for k in ("pc", "saw", "dec", "link", "execs", "losses")}, "observed": o}
    m_dec = {c: {p: b["dec"][c][p] for p in b["needs"][c]} for c in cons}
    if o["outcome"] != "return":
        ctx.violation("c18:%s:%s" % ("hang" if o["outcome"] == "hang" else "raised", cls), det,
                      "overlapping recoveries: the run did not return (%s %s); the model terminates with producer executions %s" % (o["outcome"], o["error"], b["execs"]))
        return False
    over = {p: (n, b["execs"][p]) for p, n in o["execs"].items() if n > b["execs"][p]}
    if over:
        ctx.violation("c18:reexecuted-unneeded:src:%s" % cls, det,
                      "a producer already rolled back by one recovery (status ROLLBACK, not yet scheduled again) was rolled back again by the overlapping "
                      "recovery: executions (real, model) %s, decisions %s, model %s" % (over, o["decisions"], m_dec))
        return False
    if o["script_failed"] or o["decisions"] != m_dec or o["execs"] != b["execs"]:
        ctx.violation("c18:overlap-model-mismatch:%s" % cls, det, "the real engine did not follow the behaviour: gate %s, decisions %s (model %s), executions %s (model %s)" % (
            o["script_failed"], o["decisions"], m_dec, o["execs"], b["execs"]))
        return False
    return True


def run_window(ctx):
    """Overlapping recoveries: a Synchronize inside the ROLLBACK window of a shared producer (see the module docstring)."""
    rng = ctx.rng("window")
    chosen = []
    for n, ph, simul, pick in ctx.pick([(2, "ee", False, 3)], [(2, "ee", False, 10), (3, "eee", False, 40)]):
        bs = rm.window_behaviours(ctx, n, ph, 1, simul)
        win = [b for b in bs if "stuck" not in b["pc"].values()
               and any(s == "rollback" for sts in rm.window_syncs(b).values() for s in sts.values())
               # (a Synchronize AFTER a regeneration completed rolls the producer back again: the listed C19 defect, not this family)
               and all(s != "completed" or not any(e[0] == "finishA" for e in b["trace"][:b["trace"].index(("sync", c))])
                       for c, sts in rm.window_syncs(b).items() for s in sts.values())]
        ctx.count("model_behaviours:window:%d:%s" % (n, ph), len(bs))
        ctx.count("model_behaviours_sync_in_rollback_window:%d:%s" % (n, ph), len(win))
        ctx.require(win, "vacuous: no behaviour with a Synchronize inside the ROLLBACK window (%d %s)" % (n, ph))
        win.sort(key=lambda b: json.dumps(b["trace"]))
        rng.shuffle(win)
        chosen += win[:pick]
    for b in chosen:
        ctx.case(json.dumps(["window", b["n"], b["ph"], b["trace"]]), nontrivial=True)
        ctx.impl_trace(1)
        if check_window(ctx, b):
            ctx.count("real:window:agree")
        ctx.count("real:window")
    ctx.sample({"family": "window", "trace": chosen[0]["trace"], "model_dec": chosen[0]["dec"], "model_execs": chosen[0]["execs"]})
    ctx.assumptions += ["window family: gates hold every (re-)scheduled job before Scheduler.schedule, before its stage-in and before its command "
                        "completes, every recovery between build_graph and the request locks; execute-phase failures only"]


def replay(ctx, data):
    d = data["detail"]
    if d.get("family") == "window":
        b = {"n": d["n"], "wiper": d["wiper"], "needs": d["needs"], "ph": d["phases"], "trace": [tuple(e) for e in d["trace"]]}
        b.update(d["model"])
        print(json.dumps({"replayed": b["trace"], "ok": check_window(ctx, b)}))
        return
    shape, plan = d["shape"], d.get("plan") or {}
    mt = max([int(v[0]) for v in plan.values()] or [1])
    if shape.startswith("dag"):
        kw = dict(d["model_kw"])
        preds = rm.model_runs(ctx, [(shape, kw)])
        k = rm.plan_key(plan) + "@%s" % d["limit"]
        ctx.require(k in preds[shape], "replay: plan not generated by the model: %s" % k)
        case = rm.run_case(ctx, shape, preds[shape][k], serial=False, seed=d.get("seed", 0))
        case["model_kw"] = kw
        check_case(ctx, case)
        print(json.dumps({"replayed": k, "hang": case["hang"], "observed": case.get("o")})[:800])
        return
    preds = rm.model_runs(ctx, [(shape, dict(limit=d["limit"], maxpairs=max(1, len(plan)), maxtimes=mt))])
    k = rm.plan_key(plan) + "@%s" % d["limit"]
    ctx.require(k in preds[shape], "replay: plan not generated by the model: %s" % k)
    case = rm.run_case(ctx, shape, preds[shape][k], serial=bool(d.get("serial")), seed=d.get("seed", 0))
    check_case(ctx, case)
    print(json.dumps({"replayed": k, "hang": case["hang"], "observed": case.get("o")})[:800])
