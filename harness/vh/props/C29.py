"""C29 - CWL workflows produce the same outputs as the reference runner (module CWLSemantics).

Model:      specs/CWLSemantics is an executable semantics of the CWL workflow feature subset; its generator
            part is a state machine whose states are (partial) programs.  MC_CWLSemantics explores a small
            feature grid exhaustively and checks the laws of the semantics on every complete program.
Generation: Gen_CWLSemantics walks the full grid at random and prints every complete program with the
            output object the semantics expects and the semantic events of its evaluation;
            Query_CWLSemantics evaluates the hand-written programs of vh/sut/cwl_cases.py.
Binding:    every selected program is rendered to a CWL v1.2 document and run in-process with cwltool
            (THE ORACLE) and with streamflow.cwl.runner.main.  Verdict = StreamFlow against cwltool:
            "fails iff the reference fails" and equal output objects (array order and nulls included).
            cwltool against the TLA+ semantics is a check of the SPECIFICATION (never a violation).
"""
from __future__ import annotations

import concurrent.futures
import json
import os
import shutil
import sys
import time

from vh import tlc as _tlc
from vh.sut import cwl_cases, cwl_pool
from vh.sut import cwl_render as R

LEVEL = "model_checking"

# events (computed by the specification, plus dead-end-step computed on the program graph) that put a
# program into a class of its own in violation signatures
TRIGGERS = ("pickValue-on-single-list-source:", "linkMerge-single-source:", "duplicate-source:",
            "merge_flattened-of-nested-list:", "link-type-mismatch",
            "skipped-scatter-slice-consumed-by-step", "tool-default-seen-by-step-expression",
            "scatter-over-non-array", "scatter-empty:", "dotproduct-unequal-lengths", "dead-end-step")


def _events(item):
    ev = set(item.get("ev") or [])
    if R.dead_end_steps(item["prog"]):
        ev.add("dead-end-step")
    return sorted(ev)


def _triggers(ev):
    return [e for e in ev if e.startswith(TRIGGERS)]


def _class(item):
    t = _triggers(item["events"])
    return "+".join(t) if t else ("+".join(item["features"]) or "plain")


# ------------------------------------------------------------------------------------------------
# TLC: model, generation, queries
# ------------------------------------------------------------------------------------------------
def _model(ctx, wd):
    cfg = ctx.pick("MC_CWLSemantics_quick.cfg", "MC_CWLSemantics_thorough.cfg")
    # (no -coverage: TLC's coverage instrumentation does not terminate on this module's recursive operators)
    r = ctx.tlc("CWLSemantics", "MC_CWLSemantics", cfg, workdir=wd, timeout=ctx.pick(900, 2400))
    if not r.ok:
        # a law of the semantics fails in the model: a specification error, not a verdict on the code
        ctx.require(False, "CWLSemantics law %s fails in the model (%s)" % (r.violated, r.error))
    # vacuity guard: the search reached complete programs (Emit is the 13th action at the earliest) and is complete
    ctx.require(r.depth >= 13 and r.queue == 0 and r.distinct >= 10000,
                "MC_CWLSemantics explored too little: %d states, depth %d" % (r.distinct, r.depth))
    return r


def _generate(ctx, runs, traces, max_steps):
    """`runs` TLC simulations in parallel (different seeds) -> list of {"prog","exp","ev"}."""
    wds = []
    cfg_text = open(os.path.join(_tlc.SPECS, "CWLSemantics", "Gen_CWLSemantics.cfg")).read()
    cfg_text = cfg_text.replace("MaxSteps = 3", "MaxSteps = %d" % max_steps)
    for k in range(runs):
        wds.append(ctx.spec_workdir("CWLSemantics", {"Gen_CWLSemantics.cfg": cfg_text}))

    def one(k):
        return _tlc.run_tlc(wds[k], "Gen_CWLSemantics", "Gen_CWLSemantics.cfg", workers=1,
                            simulate={"num": traces, "depth": 40 + 12 * max_steps}, seed=ctx.seed * 1000 + k + 1,
                            timeout=1500, scratch=os.path.join(wds[k], "_tlc"), max_heap="2g")

    items = []
    with concurrent.futures.ThreadPoolExecutor(max_workers=runs) as ex:
        for k, r in enumerate(ex.map(one, range(runs))):
            ctx.require(r.ok, "Gen_CWLSemantics run %d failed: %s\n%s" % (k, r.error, r.stdout[-1500:]))
            got = [x for x in r.printed_json() if isinstance(x, dict) and "prog" in x]
            ctx.transitions += r.generated
            ctx.tlc_runs.append({"spec": "CWLSemantics", "module": "Gen_CWLSemantics", "cfg": "Gen_CWLSemantics.cfg",
                                 "states": r.generated, "transitions": r.generated, "depth": 0,
                                 "wall_s": round(r.wall_s, 2), "error": r.error, "violated": r.violated,
                                 "mode": "simulate", "complete": False, "programs_emitted": len(got)})
            items += got
    return items


def _query(ctx, progs):
    """Expected outputs and events of explicit programs, from the specification."""
    wd = ctx.spec_workdir("CWLSemantics")
    qf, of = os.path.join(wd, "q.json"), os.path.join(wd, "out.json")
    with open(qf, "w") as f:
        json.dump(progs, f)
    r = ctx.tlc("CWLSemantics", "Query_CWLSemantics", "Query_CWLSemantics.cfg", workdir=wd, workers=1, count=False,
                env={"QUERY_FILE": qf, "OUT_FILE": of}, timeout=900)
    ctx.require(r.ok and os.path.exists(of), "Query_CWLSemantics failed: %s" % r.stdout[-1500:])
    out = json.load(open(of))
    ctx.require(len(out) == len(progs), "Query_CWLSemantics answered %d of %d programs" % (len(out), len(progs)))
    return [{"prog": p, "exp": o["exp"], "ev": o["ev"]} for p, o in zip(progs, out)]


# ------------------------------------------------------------------------------------------------
# selection
# ------------------------------------------------------------------------------------------------
def _prepare(items):
    seen, out = set(), []
    for it in items:
        key = json.dumps(it["prog"], sort_keys=True)
        if key in seen:
            continue
        seen.add(key)
        it["key"] = key
        it["features"] = R.features(it["prog"])
        it["events"] = _events(it)
        it["triggers"] = _triggers(it["events"])
        out.append(it)
    return out


def _select(ctx, items, n):
    """Stratified, deterministic choice of n programs: every feature / event class is represented, the share
    of programs that are expected to fail, that contain a trigger event or the slow tool is bounded."""
    rng = ctx.rng("select")
    items = sorted(items, key=lambda it: it["key"])
    rng.shuffle(items)
    quota = {"fail": int(n * 0.22), "trigger": int(n * 0.22), "slow": max(2, n // 60)}
    used = {"fail": 0, "trigger": 0, "slow": 0}
    chosen, chosen_keys = [], set()

    def kinds(it):
        k = []
        if it["exp"]["fail"]:
            k.append("fail")
        if it["triggers"]:
            k.append("trigger")
        if "tool=slow" in it["features"]:
            k.append("slow")
        return k

    def take(it, force=False):
        if it["key"] in chosen_keys or len(chosen) >= n:
            return False
        ks = kinds(it)
        if not force and any(used[k] >= quota[k] for k in ks):
            return False
        for k in ks:
            used[k] += 1
        chosen.append(it)
        chosen_keys.add(it["key"])
        return True

    by_class = {}
    for it in items:
        for c in it["features"] + ["ev:" + e for e in it["events"]] + ["steps=%d" % len(it["prog"]["steps"])]:
            by_class.setdefault(c, []).append(it)
    # 1. every trigger class at least twice (these are the classes known findings are listed for)
    for c in sorted(by_class):
        if c.startswith("ev:") and c[3:].startswith(TRIGGERS):
            got = 0
            for it in by_class[c]:
                if got >= 2:
                    break
                if len(it["triggers"]) == 1 and take(it, force=True):
                    got += 1
    # 2. round robin over all classes
    cursors = {c: 0 for c in by_class}
    progress = True
    while len(chosen) < n and progress:
        progress = False
        for c in sorted(by_class):
            lst = by_class[c]
            while cursors[c] < len(lst):
                it = lst[cursors[c]]
                cursors[c] += 1
                if take(it):
                    progress = True
                    break
            if len(chosen) >= n:
                break
    return chosen


# ------------------------------------------------------------------------------------------------
# running and comparing
# ------------------------------------------------------------------------------------------------
def _write(d, prog):
    os.makedirs(d, exist_ok=True)
    with open(os.path.join(d, "wf.cwl"), "w") as f:
        f.write(R.dumps(R.workflow(prog)))
    with open(os.path.join(d, "job.json"), "w") as f:
        f.write(R.dumps(R.job(prog)))


def _probe(ctx, pool, scratch):
    """The oracle must be present and behave (DESIGN 7.4): 1+1 through both runners' code path."""
    p = R.mk_prog([1, [1, 2], [10]], [R.mk_step("inc", [R.mk_bind("x", "i1")])])
    d = os.path.join(scratch, "probe")
    _write(d, p)
    res = pool.run([(0, d, False)], which=("ref",))
    ref = res[0].get("ref", {})
    ctx.require(ref.get("rc") == 0 and ref.get("out") == {"o1": 2},
                "oracle probe failed: cwltool returned %r" % (ref,))


def _verdict(ctx, it, res, stats):
    """Compare one program.  Returns None or (signature, detail, what)."""
    ref, sf = res.get("ref") or {"rc": "missing"}, res.get("sf") or {"rc": "missing"}
    if ref["rc"] not in (0, 1):
        stats["oracle_errors"] += 1        # hang / crash / exotic exit code of the ORACLE: machinery, not a verdict
        stats["oracle_error_samples"].append({"rc": ref["rc"], "err": (ref.get("err") or "")[-300:], "name": it.get("name")})
        return None
    ref_obj = ref["out"] if ref["rc"] == 0 else None
    exp_obj = R.expected_object(it["exp"])
    ctx.disagreements_checked += 1
    if exp_obj != ref_obj:
        stats["spec_disagreements"] += 1
        if len(stats["spec_disagreement_samples"]) < 10:
            stats["spec_disagreement_samples"].append({"name": it.get("name"), "class": _class(it), "spec": exp_obj,
                                                       "cwltool": ref_obj, "cwltool_err": (ref.get("err") or "")[-300:],
                                                       "prog": it["prog"]})
    stats["ref_fail" if ref_obj is None else "ref_ok"] += 1
    cls = _class(it)
    detail = {"prog": it["prog"], "exp": it["exp"], "ev": it.get("ev") or [], "name": it.get("name"), "class": cls,
              "features": it["features"], "events": it["events"], "reference": {"rc": ref["rc"], "out": ref_obj},
              "streamflow": {"rc": sf["rc"], "out": sf.get("out"), "log": (sf.get("err") or "")[-800:]}}
    if sf["rc"] == "hang":
        return ("hang:" + cls, detail, "StreamFlow does not terminate (cwltool %s) on a program of class %s"
                % ("succeeds" if ref_obj is not None else "fails", cls))
    if sf["rc"] in ("died", "not-run", "missing"):
        return ("sf-crash:" + cls, detail, "the interpreter running StreamFlow died (%s)" % sf["rc"])
    sf_obj = sf["out"] if sf["rc"] == 0 else None
    if ref_obj is not None and sf_obj is None:
        return ("sf-fails-ref-succeeds:" + cls, detail,
                "StreamFlow fails (%s) where cwltool returns %s" % (sf["rc"], json.dumps(ref_obj)))
    if ref_obj is None and sf_obj is not None:
        return ("sf-succeeds-ref-fails:" + cls, detail,
                "StreamFlow returns %s where cwltool fails" % json.dumps(sf_obj))
    if ref_obj != sf_obj:
        return ("output-differs:" + cls, detail,
                "StreamFlow returns %s, cwltool returns %s" % (json.dumps(sf_obj), json.dumps(ref_obj)))
    return None


def _run_all(ctx, items, scratch, workers):
    pool = cwl_pool.Pool(workers, scratch, deadline=float(os.environ.get("VERIF_C29_DEADLINE", "240")))
    try:
        _probe(ctx, pool, scratch)
        tasks = []
        for i, it in enumerate(items):
            d = os.path.join(scratch, "p%05d" % i)
            _write(d, it["prog"])
            tasks.append((i, d, R.uses_loop(it["prog"])))
        res = pool.run(tasks)
    finally:
        pool.close()
    ts = {k: sorted(r[k].get("t", 0) for r in res.values() if k in r) for k in ("ref", "sf")}
    ctx.extra["run_times_s"] = {k: {"sum": round(sum(v), 1), "median": v[len(v) // 2] if v else 0, "max": v[-1] if v else 0}
                                for k, v in ts.items()}
    ctx.extra["worker_import_s"] = {"max": max(pool.import_s or [0]), "n": len(pool.import_s)}
    return res, pool.respawns


def _confirm(ctx, unconfirmed, cap=40):
    """Both runners are deterministic on these programs, but both have internal real-time limits (node start-up, JS
    evaluation time-outs) that a heavily loaded machine can trip.  A disagreement that is not a listed finding is
    therefore reported only when an isolated second run (few workers) shows a disagreement again; one that vanishes is
    counted in the evidence (`unreproduced_disagreements`) and is not a verdict."""
    if not unconfirmed:
        return
    scratch = ctx.scratch("cwl_confirm")
    again = unconfirmed[:cap]
    saved = {k: ctx.extra.get(k) for k in ("run_times_s", "worker_import_s")}
    res, _ = _run_all(ctx, [it for it, _ in again], scratch, 2)
    ctx.extra.update(saved)
    st = {"oracle_errors": 0, "oracle_error_samples": [], "spec_disagreements": 0, "spec_disagreement_samples": [],
          "ref_ok": 0, "ref_fail": 0}
    reproduced = 0
    for k, (it, v) in enumerate(again):
        v2 = _verdict(ctx, it, res[k], st)
        if v2 is not None:
            reproduced += 1
            ctx.violation(*v2)
        else:
            ctx.count("unreproduced_disagreements")
            _note("disagreement %s on %s did not reproduce in isolation" % (v[0], it.get("name") or it["key"][:40]))
    # beyond the cap: evidently real when the confirmed ones reproduce, otherwise left unreported (counted)
    for it, v in unconfirmed[cap:]:
        if reproduced >= 5:
            ctx.violation(*v)
        else:
            ctx.count("unconfirmed_disagreements_beyond_cap")


def _note(msg):
    if os.environ.get("VERIF_C29_VERBOSE"):
        print("C29: " + msg, file=sys.stderr, flush=True)


def _workers():
    n = ((os.cpu_count() or 4) * 3) // 4          # each worker also drives node and (slow tool) subprocesses
    return max(2, min(16, int(os.environ.get("VERIF_C29_WORKERS", n))))


def run(ctx):
    ctx.rule = ("TLC explores the program space of a small grid exhaustively (laws of the semantics) and samples the "
                "full grid (1..MaxSteps steps; tools id/inc/incd/nullodd/sum/len/tostr/add/pair/slow + 3 subworkflows; "
                "scatter x3 methods, linkMerge, pickValue, when, valueFrom, defaults, loop last/all) by simulation; a "
                "stratified sample of the emitted programs plus the hand-written corner programs is rendered to CWL and "
                "run with cwltool (oracle) and StreamFlow; a program is non-trivial when it is distinct (as a record)")
    ctx.exhaustive = False
    t0 = time.time()
    n_target = int(os.environ.get("VERIF_C29_PROGRAMS", ctx.pick(150, 2600)))
    # 1. model + generation (TLC) in parallel
    mc_wd = ctx.spec_workdir("CWLSemantics")
    with concurrent.futures.ThreadPoolExecutor(max_workers=1) as ex:
        fut = ex.submit(_model, ctx, mc_wd)
        gen = _generate(ctx, runs=ctx.pick(2, 8), traces=ctx.pick(500, 1700), max_steps=ctx.pick(3, 5))
        mc = fut.result()
    hand = cwl_cases.cases()
    names = sorted(hand)
    hq = _query(ctx, [hand[k] for k in names])
    for k, it in zip(names, hq):
        it["name"] = k
    gen = _prepare(gen)
    hq = _prepare(hq)
    ctx.count("programs_emitted_by_tlc", len(gen))
    handkeys = {it["key"] for it in hq}
    chosen = hq + _select(ctx, [it for it in gen if it["key"] not in handkeys], max(0, n_target - len(hq)))
    ctx.require(len(chosen) >= min(n_target, 100), "only %d programs available" % len(chosen))
    t_gen = time.time() - t0
    _note("TLC phases done in %.0fs: %d programs emitted, %d selected" % (t_gen, len(gen), len(chosen)))
    # 2. run
    scratch = ctx.scratch("cwl_run")
    res, respawns = _run_all(ctx, chosen, scratch, _workers())
    _note("runs done after %.0fs" % (time.time() - t0))
    # 3. compare
    stats = {"oracle_errors": 0, "oracle_error_samples": [], "spec_disagreements": 0, "spec_disagreement_samples": [],
             "ref_ok": 0, "ref_fail": 0}
    classes = {}
    unconfirmed = []
    for i, it in enumerate(chosen):
        ctx.case(it["key"])
        ctx.programs += 1
        for c in it["features"] + ["ev:" + e for e in it["events"]] + ["steps=%d" % len(it["prog"]["steps"])]:
            classes[c] = classes.get(c, 0) + 1
        v = _verdict(ctx, it, res[i], stats)
        if v is not None:
            if ctx.is_known(v[0]):
                ctx.violation(*v)
            else:
                unconfirmed.append((it, v))
    _confirm(ctx, unconfirmed)
    ctx.impl_trace(2 * len(chosen))
    for it in chosen[:3] + chosen[len(hq):len(hq) + 3]:
        ctx.sample({"name": it.get("name"), "features": it["features"], "events": it["events"],
                    "job": R.job(it["prog"]), "expected": R.expected_object(it["exp"])})
    ctx.extra.update({"programs": ctx.programs, "disagreements_checked": ctx.disagreements_checked,
                      "spec_vs_cwltool_disagreements": stats["spec_disagreements"],
                      "spec_disagreement_samples": stats["spec_disagreement_samples"],
                      "reference_succeeds": stats["ref_ok"], "reference_fails": stats["ref_fail"],
                      "oracle_errors": stats["oracle_errors"], "oracle_error_samples": stats["oracle_error_samples"][:5],
                      "classes": dict(sorted(classes.items())), "worker_respawns": respawns,
                      "hand_written_programs": len(hq), "generation_wall_s": round(t_gen, 1)})
    for s in stats["spec_disagreement_samples"][:5]:
        print("SPEC-DISAGREEMENT (the TLA+ semantics is wrong here, not StreamFlow): %s class=%s spec=%s cwltool=%s"
              % (s["name"], s["class"], json.dumps(s["spec"]), json.dumps(s["cwltool"])), file=sys.stderr)
    # vacuity guards
    need = ["scatter=dotproduct", "scatter=nested_crossproduct", "scatter=flat_crossproduct", "scatter=single",
            "linkMerge=merge_nested", "linkMerge=merge_flattened", "pickValue=first_non_null",
            "pickValue=the_only_non_null", "pickValue=all_non_null", "when=pos", "valueFrom=inc", "default",
            "subworkflow=inc2", "loop=last", "loop=all", "unused-step", "ev:scatter-empty:nested_crossproduct",
            "ev:step-skipped", "ev:default-used"]
    missing = [c for c in need if not classes.get(c)]
    ctx.require(not missing, "classes never exercised: %s" % missing)
    ctx.require(stats["ref_ok"] >= len(chosen) // 3, "too few programs succeed in the reference (%d of %d)"
                % (stats["ref_ok"], len(chosen)))
    ctx.require(stats["oracle_errors"] <= max(1, len(chosen) // 100),
                "the oracle (cwltool) hung or crashed on %d programs: %s" % (stats["oracle_errors"], stats["oracle_error_samples"][:3]))
    # the specification must stay bound to the reference: more than 1% disagreements = the module is not a
    # semantics of what cwltool does (machinery error; individual disagreements are listed in the evidence)
    ctx.require(stats["spec_disagreements"] * 100 <= len(chosen),
                "the TLA+ semantics disagrees with cwltool on %d of %d programs" % (stats["spec_disagreements"], len(chosen)))
    ctx.assumptions += [
        "cwltool %s run in-process is the reference (CWL v1.2 + cwltool:Loop extension, --enable-ext)" % _cwltool_version(),
        "ports are typed Any? except tool inputs (int, int?, int[], Any?[]): cwltool's static type checker never rejects a generated document",
        "values: ints, strings, null, arrays thereof; no File/Directory values (covered by C30/C32), no records",
        "programs that contain a trigger event (see TRIGGERS) are classified by that event only: a second defect in such a program is attributed to the listed one",
        "StreamFlow: local deployment, in-memory SQLite, one fresh context per run, in-process in a pool of worker processes",
    ]


def _cwltool_version():
    try:
        from importlib.metadata import version
        return version("cwltool")
    except Exception:
        return "?"


def replay(ctx, data):
    """Re-run the program of a stored violation with both runners."""
    d = data["detail"]
    it = {"prog": d["prog"], "exp": d["exp"], "ev": d.get("ev") or [], "name": d.get("name")}
    it = _prepare([it])[0]
    scratch = ctx.scratch("cwl_replay")
    res, _ = _run_all(ctx, [it], scratch, 1)
    stats = {"oracle_errors": 0, "oracle_error_samples": [], "spec_disagreements": 0, "spec_disagreement_samples": [],
             "ref_ok": 0, "ref_fail": 0}
    v = _verdict(ctx, it, res[0], stats)
    print("replay: reference rc=%s out=%s | streamflow rc=%s out=%s" % (
        res[0]["ref"]["rc"], json.dumps(res[0]["ref"].get("out")), res[0]["sf"]["rc"], json.dumps(res[0]["sf"].get("out"))))
    if v is not None:
        ctx.violation(*v)
