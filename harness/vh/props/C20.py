"""C20 - provenance graph operations keep the graph consistent (module Graph).

Model: Graph.tla transcribes DirectedGraph/DirectedAcyclicGraph operation by operation and TLC
checks, on the complete state graph, that the transcription refines the plain-graph meaning of the
property (AlgoRefinesPlainGraph, Mirror, TypeOK, StaysAcyclic).
Binding (B-edge): every transition of the complete state graph is emitted by TLC and replayed on
the real classes: build the source state through the public API, apply the operation, compare
every query method and the return value with the target state.
"""
from __future__ import annotations

import json

LEVEL = "model_checking"


def _classes():
    from streamflow.recovery.utils import DirectedAcyclicGraph, DirectedGraph
    return DirectedGraph, DirectedAcyclicGraph


def _norm(st):
    # ToJson writes an empty function as []
    return {"succ": st["succ"] or {}, "pred": st["pred"] or {}}


def _build(cls, st):
    g = cls("g")
    for n in sorted(st["succ"], key=int):
        g.add(int(n))
    for n, vs in st["succ"].items():
        for v in vs:
            g.add(int(n), int(v))
    return g


def _observe(g, dag):
    nodes = set(g.get_nodes())
    obs = {"nodes": sorted(nodes),
           "succ": {str(n): sorted(g.successors(n)) for n in sorted(nodes)},
           "pred": {str(n): sorted(g.predecessors(n)) for n in sorted(nodes)},
           "in_degree": {str(k): v for k, v in sorted(g.in_degree().items())},
           "out_degree": {str(k): v for k, v in sorted(g.out_degree().items())},
           "empty": g.empty(),
           "contains": sorted(n for n in range(0, 14) if g.contains(n))}
    if dag:
        obs["sources"] = sorted(g.get_sources())
        obs["sinks"] = sorted(g.get_sinks())
    return obs


def _expected(tr, dag):
    to = tr["to"]
    nodes = sorted(int(n) for n in to["succ"])
    exp = {"nodes": nodes,
           "succ": {str(n): sorted(to["succ"][str(n)]) for n in nodes},
           "pred": {str(n): sorted(to["pred"][str(n)]) for n in nodes},
           "in_degree": {str(n): len(to["pred"][str(n)]) for n in nodes},
           "out_degree": {str(n): len(to["succ"][str(n)]) for n in nodes},
           "empty": not nodes,
           "contains": nodes}
    if dag:
        exp["sources"] = sorted(tr["sources"])
        exp["sinks"] = sorted(tr["sinks"])
    return exp


def check_transition(ctx, tr, dag, src="edge"):
    DirectedGraph, DirectedAcyclicGraph = _classes()
    cls = DirectedAcyclicGraph if dag else DirectedGraph
    tr = dict(tr, **{"from": _norm(tr["from"]), "to": _norm(tr["to"])})
    op, args = tr["op"], tr["args"]
    variant = op
    try:
        g = _build(cls, tr["from"])
        pre = _observe(g, dag)
    except Exception as e:
        ctx.violation("graph:build:raise:%s" % type(e).__name__, {"tr": tr, "dag": dag}, "building the source state raised %r" % e)
        return False
    # the source state must be what the model says (this is the check of `add`)
    pre_exp = _expected({"to": tr["from"], "sources": [], "sinks": []}, False)
    for k in ("nodes", "succ", "pred"):
        if pre[k] != pre_exp[k]:
            ctx.violation("graph:add:%s" % k, {"tr": tr, "dag": dag, "field": k, "got": pre[k], "expected": pre_exp[k]},
                          "after add() calls the %s view differs from the model" % k)
            return False
    ret = None
    try:
        if op == "add":
            u, v = args
            ret = g.add(u) if v == 0 else g.add(u, v)
            ret = "none"
        elif op == "remove_nodes":
            S, prune = args
            variant = "remove_nodes:%s" % ("prune" if prune else "noprune")
            if len(S) == 1 and ctx.rng(json.dumps(tr["from"], sort_keys=True)).random() < 0.5:
                r = g.remove_node(S[0], prune_dead_end=prune)
            else:
                r = g.remove_nodes(list(S), prune_dead_end=prune)
            ret = {"set": sorted(set(r)), "dups": len(r) - len(set(r))}
        elif op == "replace":
            o, n = args
            g.replace(o, n)
            ret = "none"
        elif op == "promote_to_source":
            r = g.promote_to_source(args[0])
            ret = {"set": sorted(set(r)), "dups": len(r) - len(set(r))}
    except ValueError:
        ret = "ValueError"
    except Exception as e:
        ret = "raise:%s" % type(e).__name__
    exp_ret = tr["ret"]
    if isinstance(exp_ret, list):
        exp_ret = {"set": sorted(exp_ret), "dups": 0}
    good = True
    if ret != exp_ret:
        ctx.violation("graph:%s:return" % variant, {"tr": tr, "dag": dag, "field": "return", "got": ret, "expected": exp_ret},
                      "%s%s returned %s, model says %s" % (op, tuple(args), ret, exp_ret))
        good = False
    try:
        post = _observe(g, dag)
    except Exception as e:
        ctx.violation("graph:%s:observe:raise" % variant, {"tr": tr, "dag": dag, "err": repr(e)},
                      "query methods raise after %s%s: %r" % (op, tuple(args), e))
        return False
    exp = _expected(tr, dag)
    for k in exp:
        if post[k] != exp[k]:
            ctx.violation("graph:%s:%s" % (variant, k), {"tr": tr, "dag": dag, "field": k, "got": post[k], "expected": exp[k]},
                          "after %s%s on %s: %s = %s, model says %s" % (op, tuple(args), tr["from"]["succ"], k, post[k], exp[k]))
            good = False
            break
    return good


def _replay_lines(ctx, lines, dag, label):
    n = 0
    for tr in lines:
        if not isinstance(tr, dict) or "op" not in tr:
            continue
        n += 1
        nontrivial = _norm(tr["from"]) != _norm(tr["to"]) or tr["ret"] not in ("none", [])
        ctx.case((label, json.dumps([_norm(tr["from"])["succ"], tr["op"], tr["args"]], sort_keys=True)), nontrivial)
        check_transition(ctx, tr, dag, label)
        ctx.count("transitions_replayed:%s" % tr["op"])
    ctx.impl_trace(n)
    return n


def run(ctx):
    ctx.rule = ("TLC enumerates the complete state graph of Graph.tla; every transition (source graph, operation, arguments) is "
                "replayed on the real DirectedGraph/DirectedAcyclicGraph and all query methods are compared; a case is non-trivial "
                "when the operation changes the graph or returns something")
    configs = ctx.pick([("general3", False), ("dag3", True), ("dag4", True)],
                       [("general3", False), ("dag3", True), ("dag4", True), ("general4", False)])
    for name, dag in configs:
        r = ctx.tlc("Graph", "MC_Graph", "MC_Graph_%s.cfg" % name, coverage=True, timeout=3000)
        if not r.ok:
            ctx.require(False, "Graph model violates %s (%s): specification error\n%s" % (r.violated, name, r.stdout[-1500:]))
        ctx.require_coverage(r, ["Add", "RemoveNodes", "Replace"] + (["Promote"] if dag else []))
        if name == "general4" :
            continue  # 4.7M transitions: model-checked; replayed by simulation below
        g = ctx.tlc("Graph", "MC_Graph", "Gen_Graph_%s.cfg" % name, workers=1, count=False, timeout=3000)
        ctx.require(g.ok, "generation run failed: %s" % g.stdout[-800:])
        lines = g.printed_json()
        ctx.require(len(lines) == g.generated - 1 or len(lines) > 100, "no transitions emitted")
        k = _replay_lines(ctx, lines, dag, name)
        ctx.count("edges:%s" % name, k)
        if name == "dag4":
            ctx.sample(next(t for t in lines if t["op"] == "promote_to_source" and t["ret"]))
            ctx.sample(next(t for t in lines if t["op"] == "remove_nodes" and len(t["ret"]) > 2))
    ctx.exhaustive = True
    # larger graphs by simulation (random operation sequences on 8..12 nodes)
    for n, dag, num, depth in ctx.pick([(8, True, 2, 8), (8, False, 1, 8)],
                                       [(8, True, 6, 14), (10, True, 3, 12), (12, True, 1, 10), (9, False, 3, 12),
                                        (4, False, 40, 30)]):
        cfg = "CONSTANTS N = %d  Acyclic = %s\nINIT Init\nNEXT GenNext\n" % (n, "TRUE" if dag else "FALSE")
        g = ctx.tlc("Graph", "MC_Graph", "Sim.cfg", files={"Sim.cfg": cfg}, workers=1, count=False,
                    simulate={"num": num, "depth": depth}, timeout=3000)
        lines = g.printed_json()
        ctx.require(len(lines) > 0, "simulation emitted nothing")
        k = _replay_lines(ctx, lines, dag, "sim%d%s" % (n, "d" if dag else "g"))
        ctx.count("sim_edges:N=%d" % n, k)
    ctx.assumptions += ["source states are built through the public add() API", "node identities are small integers"]


def replay(ctx, data):
    d = data["detail"]
    if "tr" in d:
        check_transition(ctx, d["tr"], d.get("dag", True), "replay")
    else:
        run(ctx)
