"""C33 - tag ordering and tag selection follow numeric component order (module Tags).

Model: MC_Tags checks the order laws on every triple of tags (depth <= 3, components 0..M).
Generation: Gen_Tags emits the sorted sequence of all tags of depth <= 3 over 0..12 and answers
random deeper queries.  Binding: the real compare_tags / get_tag / get_job_* are compared with the
specification's answers on all ordered pairs of that sequence and on every query.
"""
from __future__ import annotations

import itertools
import json
import os
import posixpath
from functools import cmp_to_key

LEVEL = "model_checking"


def _s(tag):
    return ".".join(str(c) for c in tag)


def _sign(n):
    return (n > 0) - (n < 0)


def _impl():
    from streamflow.core import utils
    from streamflow.core.workflow import Token
    return utils, Token


def check_pair(ctx, utils, a, b, expected, src):
    try:
        got = _sign(utils.compare_tags(_s(a), _s(b)))
    except Exception as e:  # the order must be total
        got = "raise:%s" % type(e).__name__
    if got != expected:
        kind = "depth" if len(a) != len(b) else "component"
        ctx.violation("compare_tags:%s:sign" % kind,
                      {"kind": "cmp", "a": a, "b": b, "expected": expected, "got": got, "src": src},
                      "compare_tags(%s,%s) has sign %s, specification says %s" % (_s(a), _s(b), got, expected))
        return False
    return True


def check_chain(ctx, utils, Token, chain_perm, expected):
    toks = [Token(value=None, tag=_s(t)) for t in chain_perm]
    try:
        got = utils.get_tag(toks)
    except Exception as e:
        got = "raise:%s" % type(e).__name__
    if got != _s(expected):
        ctx.violation("get_tag:chain", {"kind": "chain", "chain": chain_perm, "expected": expected, "got": got},
                      "get_tag(%s) = %s, deepest tag is %s" % ([_s(t) for t in chain_perm], got, _s(expected)))
        return False
    return True


def check_job(ctx, utils, step, tag):
    name = posixpath.join(step, _s(tag))
    try:
        got = [utils.get_job_step_name(name), utils.get_job_tag(name)]
    except Exception as e:
        got = "raise:%s" % type(e).__name__
    if got != [step, _s(tag)]:
        ctx.violation("job_name:split", {"kind": "job", "step": step, "tag": tag, "got": got},
                      "job name %r splits into %r" % (name, got))
        return False
    return True


STEP_SHAPES = ["/", "/a", "/a/b", "/a/b/c", "/step-1", "/a.b", "/a/b.0", "/a/0", "/0/1", "/a/b-scatter",
               "/a/__schedule__", "/x y", "/a/b/c/d/e", "/a-injector", "/1.2/3.4", "/a/ü"]


def run(ctx):
    utils, Token = _impl()
    ctx.rule = ("TLC: order laws on all triples of tags (depth<=3, comps 0..M); binding: real compare_tags on ALL ordered "
                "pairs of the TLC-sorted sequence of the 2379 tags of depth<=3 over 0..12, cmp_to_key sorts of shuffles, "
                "get_tag on all permutations of prefix chains, job-name split; a case is non-trivial when the two tags differ")
    # 1. model
    m = ctx.pick(3, 4)
    r = ctx.tlc("Tags", "MC_Tags", files={"MC_Tags.cfg": open(os.path.join(ctx.spec_workdir("Tags"), "MC_Tags.cfg")).read()
                                          .replace("M = 3", "M = %d" % m)}, timeout=1800)
    if not r.ok:
        # the specification itself violates a law: that is a specification error, not a verdict on the code
        ctx.require(False, "Tags order law %s fails in the model" % r.violated)
    ctx.exhaustive = True
    # 2. generation (expected answers come from the specification)
    rng = ctx.rng("queries")
    nq = ctx.pick(400, 4000)
    cmpq = []
    for _ in range(nq):
        d1 = rng.randint(1, 6)
        a = [rng.choice([0, 1, 2, 9, 10, 11, 99, 100, 101, 1000, 12345, 99999, rng.randint(0, 2000000)]) for _ in range(d1)]
        mode = rng.random()
        if mode < 0.5:
            b = list(a)
            if b:
                i = rng.randrange(len(b))
                b[i] = rng.choice([b[i], b[i] + 1, max(0, b[i] - 1), b[i] * 10, b[i] // 10, rng.randint(0, 2000000)])
        elif mode < 0.75:
            b = a + [rng.randint(0, 20)]
        else:
            b = [rng.randint(0, 120) for _ in range(rng.randint(1, 6))]
        cmpq.append([a, b])
    chains = []
    comps = [0, 9, 10, 100]
    for a in comps:
        for b in comps:
            for c in comps:
                full = [a, b, c]
                pref = [full[:1], full[:2], full[:3]]
                for k in range(1, 4):
                    for sub in itertools.combinations(pref, k):
                        chains.append([list(t) for t in sub])
    # root-anchored chains the engine builds: "0" with deeper tags
    for t in ([0, 5], [0, 10, 2], [0, 0, 0, 7], [0, 12, 100, 3, 1]):
        chains.append([t[:i] for i in range(1, len(t) + 1)])
    sortq = []
    for _ in range(ctx.pick(20, 200)):
        d = rng.randint(1, 4)
        n = rng.randint(2, 14)
        sortq.append([[rng.choice([0, 1, 2, 9, 10, 11, 19, 20, 100]) for _ in range(rng.choice([d, d, rng.randint(1, 4)]))]
                      for _ in range(n)])
    wd = ctx.spec_workdir("Tags")
    qf, of = os.path.join(wd, "q.json"), os.path.join(wd, "out.json")
    with open(qf, "w") as f:
        json.dump({"cmp": cmpq, "chains": chains, "sort": sortq}, f)
    g = ctx.tlc("Tags", "Gen_Tags", workdir=wd, env={"QUERY_FILE": qf, "OUT_FILE": of}, workers=1, count=False,
                timeout=900)
    ctx.require(g.ok and os.path.exists(of), "Gen_Tags failed: %s" % g.stdout[-800:])
    out = json.load(open(of))
    seq = out["sorted"]
    ctx.require(len(seq) == 13 + 13 ** 2 + 13 ** 3, "unexpected number of tags %d" % len(seq))
    ctx.require(seq[0] == [0] and seq[-1] == [12, 12, 12], "SortSeq direction is not ascending: %s..%s" % (seq[0], seq[-1]))
    ctx.sample({"sorted_first": seq[:3], "sorted_at_13": seq[12:15], "sorted_last": seq[-2:]})
    # 3. binding: all ordered pairs
    strs = [_s(t) for t in seq]
    n = len(seq)
    bad = 0
    cmp_ = utils.compare_tags
    for i in range(n):
        si = strs[i]
        for j in range(n):
            try:
                g_ = cmp_(si, strs[j])
                ok = (g_ < 0) if i < j else (g_ > 0) if i > j else (g_ == 0)
            except Exception:
                ok = False
            if not ok:
                bad += 1
                if bad <= 5:
                    check_pair(ctx, utils, seq[i], seq[j], _sign(i - j), "all-pairs")
    ctx.evaluations += n * n
    ctx.distinct.add("pairs:%d" % (n * n - n))
    ctx.count("ordered_pairs", n * n)
    ctx.count("pair_mismatches", bad)
    # the engine sorts with cmp_to_key(compare_tags)
    rs = ctx.rng("shuffle")
    for k in range(ctx.pick(5, 50)):
        sh = list(strs)
        rs.shuffle(sh)
        try:
            got = sorted(sh, key=cmp_to_key(utils.compare_tags))
        except Exception as e:
            got = "raise:%s" % type(e).__name__
        ctx.case(("sortall", k))
        if got != strs:
            first = next((i for i in range(n) if got[i] != strs[i]), None) if isinstance(got, list) else None
            ctx.violation("sorted:cmp_to_key", {"kind": "sortall", "first_diff": first,
                                                "expected": strs[first] if first is not None else None,
                                                "got": got[first] if first is not None else got},
                          "sorting all tags with compare_tags differs from the specification's order")
            break
    for q, exp in zip(sortq, out["sortq"]):
        ctx.case(("sortq", json.dumps(q)))
        try:
            got = sorted([_s(t) for t in q], key=cmp_to_key(utils.compare_tags))
        except Exception as e:
            got = "raise:%s" % type(e).__name__
        # equal tags are indistinguishable, so comparing the string sequences is exact
        if got != [_s(t) for t in exp]:
            ctx.violation("sorted:cmp_to_key", {"kind": "sortq", "q": q, "expected": exp, "got": got},
                          "sorting %s gives %s" % ([_s(t) for t in q], got))
    # random deeper queries
    for (a, b), exp in zip(cmpq, out["cmp"]):
        ctx.case(("cmp", _s(a), _s(b)), nontrivial=a != b)
        check_pair(ctx, utils, a, b, exp, "query")
    ctx.sample({"query": cmpq[0], "spec_sign": out["cmp"][0]})
    # 4. get_tag on prefix chains, all permutations
    for chain, exp in zip(chains, out["deepest"]):
        for perm in itertools.permutations(chain):
            ctx.case(("chain", json.dumps(perm)), nontrivial=len(chain) > 1)
            check_chain(ctx, utils, Token, [list(t) for t in perm], exp)
    ctx.case(("chain", "empty"))
    check_chain(ctx, utils, Token, [], [0])
    ctx.sample({"chain": chains[5], "deepest": out["deepest"][5]})
    # 5. job names
    tags = [[0], [10], [0, 9], [0, 10], [3, 0, 12], [0, 0, 0, 0], [100, 2]]
    for st in STEP_SHAPES:
        for t in tags:
            ctx.case(("job", st, _s(t)))
            check_job(ctx, utils, st, t)
    ctx.impl_trace(n * n + len(cmpq) + len(chains))
    ctx.assumptions += ["tags are non-empty dot-separated decimal naturals (what every engine step produces)",
                        "get_tag is specified on prefix chains only (the statement's domain)",
                        "TLC 32-bit integers: components < 2^31"]


def replay(ctx, data):
    utils, Token = _impl()
    d = data["detail"]
    k = d.get("kind")
    if k == "cmp":
        check_pair(ctx, utils, d["a"], d["b"], d["expected"], "replay")
    elif k == "chain":
        check_chain(ctx, utils, Token, d["chain"], d["expected"])
    elif k == "job":
        check_job(ctx, utils, d["step"], d["tag"])
    elif k == "sortq":
        got = sorted([_s(t) for t in d["q"]], key=cmp_to_key(utils.compare_tags))
        if got != [_s(t) for t in d["expected"]]:
            ctx.violation("sorted:cmp_to_key", d, "replayed sort differs")
    else:
        run(ctx)
