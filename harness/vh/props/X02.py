"""X02 (extension) - the data-locality scheduling policy answers inside its documented contract (module DataLocality).

Model: specs/DataLocality/DataLocality.tla = one call of `DataLocalityPolicy.get_location` as a run-to-suspension state
machine (Call, StatDone(i) = completion of the size I/O of an input without a recorded size, Env = a registry change by
other jobs while the call is parked) over a data-location registry with PRIMARY / SYMBOLIC_LINK / INVALID copies, token
weights (recorded size, size of a copy, sums over secondary files and list/object members) and the contract relation
`Contract` (set of acceptable answers).  TLC checks the invariants X02-1..8 (notes/X02.md) on the complete graphs of the
exhaustive configurations and termination under fairness.

Binding (spec -> code):
  static   every instance TLC enumerates (and larger random instances answered by TLC through Q_DataLocality) is built
           from REAL objects (DefaultDataManager via its public API, CWLFileToken / ListToken / ObjectToken / Token, Job,
           AvailableLocation) and the real `await token.get_weight()` / `await policy.get_location()` are compared with the
           specified weights and the specified set of acceptable answers;
  dynamic  a path cover of the complete graph of the dynamic configuration (the graphs are forests: every behaviour) is
           replayed step by step on the real policy with the size I/O parked on gates: after each action the loop is run to quiescence
           and the I/O in flight, the weights known, returned-or-not and the answer are compared with the model state;
  e2e      instances are driven through the real DefaultScheduler.schedule (fake connectors of the Scheduler harness,
           real data manager): exactly the instance's available locations are free, the job must be allocated inside the
           contract (k = 1 and k = 2 locations), wait when nothing is free;
  weights  real files in a temp dir through the real LocalConnector and through a shell-executing connector.
"""
from __future__ import annotations

import asyncio
import json
import os
import sys

from ..sut import dataloc as D

LEVEL = "model_checking"
PROP = "X02"

STATIC = {"quick": ["quick", "single"], "thorough": ["quick", "single", "pairs_t", "single_t", "four_t"]}
DYN = {"quick": ["dyn"], "thorough": ["dyn", "dyn_t", "dyn_e"]}


# ------------------------------------------------------------------------------------------------
# random larger instances (answered by TLC)
# ------------------------------------------------------------------------------------------------
def random_instances(rng, n):
    out = []
    for _ in range(n):
        nl = rng.choice([2, 3, 4, 4])
        ntok = rng.choice([1, 2, 3, 3])
        toks = []
        for _ in range(ntok):
            kind = rng.choice(["plain", "file", "file", "file2", "list"])
            if kind == "plain":
                toks.append({"kind": kind, "w": rng.randint(1, 3), "sized": True})
            else:
                toks.append({"kind": kind, "w": rng.randint(0, 3), "sized": rng.random() < 0.6})
        cells = [(i + 1, k, s) for i, t in enumerate(toks) for k in range(1, (0 if t["kind"] == "plain" else 1 if t["kind"] == "file" else 2) + 1)
                 for s in range(0, nl + 1)]
        rng.shuffle(cells)
        ne = rng.randint(0, min(6, len(cells)))
        reg = [{"i": c[0], "k": c[1], "s": c[2], "t": rng.choice(["P", "P", "P", "S", "I"])} for c in cells[:ne]]
        avail = [l for l in range(1, nl + 1) if rng.random() < 0.6]
        mixed = bool(avail) and rng.random() < 0.03
        out.append({"avail": avail, "mixed": mixed, "toks": toks, "reg": reg if not mixed else reg[:1]})
    return out


# ------------------------------------------------------------------------------------------------
# path cover of the emitted graph
# ------------------------------------------------------------------------------------------------
def _key(i, st):
    return json.dumps([i, st], sort_keys=True)


def build_paths(trs, rng, every_path=False, cap=200000):
    """trs: emitted transitions {i, f, a, t, j}.  Returns behaviours [(inst, [step...])] from an initial state to a state
    without successors such that every transition is taken at least once (or every path, when asked)."""
    succ, inits, has_pred = {}, {}, set()
    for x in trs:
        kf, kt = _key(x["i"], x["f"]), _key(x["i"], x["t"])
        succ.setdefault(kf, []).append((x, kt))
        has_pred.add(kt)
    for kf, lst in succ.items():
        if lst[0][0]["f"]["pc"] == "idle":
            inits[kf] = lst[0][0]["i"]
    paths = []
    if every_path:
        def rec(k, acc):
            if len(paths) >= cap:
                return
            if k not in succ:
                paths.append(list(acc))
                return
            for x, kt in succ[k]:
                acc.append(x)
                rec(kt, acc)
                acc.pop()
        for k0 in inits:
            rec(k0, [])
    else:
        covered = set()
        parent = {}
        order = list(inits)
        seen = set(order)
        qi = 0
        while qi < len(order):          # BFS: one way to reach every node
            k = order[qi]
            qi += 1
            for x, kt in succ.get(k, []):
                if kt not in seen:
                    seen.add(kt)
                    parent[kt] = (k, x)
                    order.append(kt)
        for k in order:
            for n, (x, kt) in enumerate(succ.get(k, [])):
                if (k, n) in covered:
                    continue
                pre = []
                kk = k
                while kk in parent:
                    kk, px = parent[kk]
                    pre.append(px)
                pre.reverse()
                covered.add((k, n))
                p = pre + [x]
                cur = kt
                while cur in succ:       # continue to the end, preferring transitions not taken yet
                    opts = succ[cur]
                    fresh = [m for m in range(len(opts)) if (cur, m) not in covered]
                    m = rng.choice(fresh) if fresh else rng.randrange(len(opts))
                    covered.add((cur, m))
                    p.append(opts[m][0])
                    cur = opts[m][1]
                paths.append(p)
        total = sum(len(v) for v in succ.values())
        assert len(covered) == total, (len(covered), total)
    out = []
    for p in paths:
        steps = [{"a": x["a"], "t": x["t"], "contract": x["j"]["contract"], "sched": x["j"]["sched"],
                  "loose": x["j"]["loose"], "wj": x["j"]["wj"]} for x in p]
        out.append((p[0]["i"], steps))
    return out


# ------------------------------------------------------------------------------------------------
# end to end through the real DefaultScheduler
# ------------------------------------------------------------------------------------------------
def _e2e_cfg(k):
    from ..sut import sched
    return sched.finish({
        "locs": {"L1": sched.slotloc("D", 1, name=D.NAMES[0]), "L2": sched.slotloc("D", 1, name=D.NAMES[1]),
                 "L3": sched.slotloc("D", 1, name=D.NAMES[2])},
        "deps": {"D": ["L1", "L2", "L3"]},
        "jobs": {"b1": sched.job(1, 1, 0, 0, [("D", 1)], step="b", tag=1),
                 "b2": sched.job(1, 1, 0, 0, [("D", 1)], step="b", tag=2),
                 "b3": sched.job(1, 1, 0, 0, [("D", 1)], step="b", tag=3),
                 "j": sched.job(1, 1, 0, 0, [("D", k)], step="s", tag=0)},
        "id": "x02-e2e-%d" % k})


async def check_e2e(ctx, inst, k, table, variant):
    """Free exactly inst.avail (three one-slot locations, blockers on the others), schedule the job with the instance's
    inputs on a target asking for k locations, compare the allocation with the contract."""
    from ..sut import sched
    from ..aio import settle
    S = D.sf()
    det = {"kind": "e2e", "inst": inst, "k": k, "variant": variant}
    sut = sched.Sut(_e2e_cfg(k), gated=False)

    class CP:
        def register(self, data_location):
            pass
    sut.context.checkpoint_manager = CP()
    sut.context.data_manager = S.DefaultDataManager(sut.context)
    w = D.World(inst, variant, context=sut.context, nlocs=3)
    # occupy everything, then release the locations that are to be available
    for b in ("b1", "b2", "b3"):
        await sut.apply({"name": "Request", "j": b})
    where = {}
    for b in ("b1", "b2", "b3"):
        a = sut.scheduler.job_allocations.get(sut.jobs[b].name)
        if a is None or len(a.locations) != 1:
            ctx.violation("e2e:blocker-not-allocated", det, "three jobs without inputs did not fill three one-slot locations")
            return "setup"
        where[D.NAMES.index(a.locations[0].name) + 1] = b
    if sorted(where) != [1, 2, 3]:
        ctx.violation("e2e:blockers-share-a-location", dict(det, where=where), "one-slot locations allocated twice")
        return "setup"
    for l in inst["avail"]:
        await sut.apply({"name": "Notify", "j": where[l], "s": "RUNNING"})
        await sut.apply({"name": "Notify", "j": where[l], "s": "COMPLETED"})
    old = sut.jobs["j"]
    sut.jobs["j"] = S.Job(name=old.name, workflow_id=0, inputs=w.inputs, input_directory="/w/in",
                          output_directory="/w/out", tmp_directory="/w/tmp")
    await sut.apply({"name": "Request", "j": "j"})
    await settle(rounds=3)
    errs = [e for e in sut.errors]
    alloc = sut.scheduler.job_allocations.get(old.name)
    got = [D.NAMES.index(l.name) + 1 for l in alloc.locations] if alloc is not None else None
    det["got"] = got
    task = sut.sched_tasks.get(("j", 1))
    try:
        if errs:
            ctx.violation("e2e:schedule-raises:%s" % str(errs[0][2]).split(":")[0], dict(det, errors=errs), "schedule() failed: %s" % (errs[0],))
            return "error"
        nav = len(inst["avail"])
        if nav < k:
            if got is not None:
                ctx.violation("e2e:allocated-without-free-location", det, "free %s, k=%d, allocated %s" % (inst["avail"], k, got))
            return "waits"
        if got is None:
            ctx.violation("e2e:not-allocated-although-free", det, "free %s, k=%d, job not allocated" % (inst["avail"], k))
            return "none"
        if len(got) != k or len(set(got)) != k or not set(got) <= set(inst["avail"]):
            ctx.violation("e2e:allocation-not-free-or-not-k", det, "free %s, k=%d, allocated %s" % (inst["avail"], k, got))
            return "bad"
        if nav == k:
            return "all-free-taken"        # the scheduler does not ask the policy
        # the policy is asked k times, each time without the locations already chosen
        left = list(inst["avail"])
        for pos, l in enumerate(got):
            exp = table(dict(inst, avail=sorted(left)))
            if l not in exp["contract"]:
                ctx.violation("e2e:locality-ignored:pick-%d" % (pos + 1), dict(det, exp=exp), "pick %d = %s, acceptable %s" % (pos + 1, l, exp["contract"]))
                return "outside"
            if l not in exp["sched"]:
                ctx.violation("compose:fallback-not-first:e2e", dict(det, exp=exp), "pick %d = %s, specs/Scheduler assumes %s" % (pos + 1, l, exp["sched"]))
                return "not-first"
            left.remove(l)
        return "bydata" if table(inst)["bydata"] else "fallback"
    finally:
        # a waiting schedule() leaves its _process_target tasks parked on the condition: cancel everything of this instance
        me = asyncio.current_task()
        rest = [t for t in asyncio.all_tasks() if t is not me and not t.done()]
        for t in rest:
            t.cancel()
        if rest:
            await asyncio.gather(*rest, return_exceptions=True)


# ------------------------------------------------------------------------------------------------
# weights on real files
# ------------------------------------------------------------------------------------------------
async def check_real_weights(ctx):
    """Token weights with real files: through the engine's LocalConnector and through a connector that executes the
    size command of RemoteStreamFlowPath with /bin/sh on the real directory."""
    import types
    from ..sut import context as C
    S = D.sf()
    root = ctx.scratch("files")
    sizes = {"a.txt": 0, "b.bin": 1, "c.dat": 777, "d.big": 5000, "sec.idx": 33}
    for n, s in sizes.items():
        with open(os.path.join(root, n), "wb") as f:
            f.write(b"x" * s)
    os.makedirs(os.path.join(root, "dir", "sub"))
    for n, s in (("dir/x", 10), ("dir/sub/y", 20), ("dir/sub/z", 0)):
        with open(os.path.join(root, n), "wb") as f:
            f.write(b"y" * s)
    dirsize = 30

    async def expect(label, tok, context, want):
        ctx.case(("real-weight", label))
        st, got = await D.observe(tok.get_weight(context))
        if st != "ok" or got != want:
            g = got if st == "ok" else "%s:%s" % (st, type(got).__name__)
            ctx.violation("weight:real-files:%s" % label, {"kind": "real", "label": label, "got": repr(g), "want": want},
                          "weight of %s is %r, expected %d" % (label, g, want))

    def fv(name, size=None, cls="File", sec=None):
        v = {"class": cls, "path": os.path.join(root, name), "basename": os.path.basename(name)}
        if size is not None:
            v["size"] = size
        if sec:
            v["secondaryFiles"] = sec
        return v

    # ---- the engine's own local deployment
    sfc = C.build(path=root)
    try:
        from streamflow.core.deployment import LocalTarget
        await sfc.deployment_manager.deploy(LocalTarget().deployment)
        conn = sfc.deployment_manager.get_connector("__LOCAL__")
        loc = next(iter((await conn.get_available_locations()).values())).location
        dm = sfc.data_manager
        for n in list(sizes) + ["dir"]:
            if n != "d.big":
                dm.register_path(loc, os.path.join(root, n))
        F = S.CWLFileToken
        for n, s in sizes.items():
            if n != "d.big":
                await expect("local:from-copy:%s" % n, F(fv(n)), sfc, s)
        await expect("local:recorded-wins", F(fv("c.dat", size=12)), sfc, 12)
        await expect("local:unregistered", F(fv("d.big")), sfc, 0)
        await expect("local:unregistered-recorded", F(fv("d.big", size=5000)), sfc, 5000)
        await expect("local:secondary", F(fv("c.dat", sec=[fv("sec.idx"), fv("b.bin", size=9)])), sfc, 777 + 33 + 9)
        await expect("local:directory", F(fv("dir", cls="Directory")), sfc, dirsize)
        lt = S.ListToken([F(fv("c.dat")), F(fv("b.bin")), F(fv("a.txt"))])
        await expect("local:list", lt, sfc, 778)
        await expect("local:nested-list", S.ListToken([lt, S.ListToken([]), F(fv("sec.idx"))]), sfc, 778 + 33)
        plain = S.Token("hello")
        await expect("local:object", S.ObjectToken({"f": F(fv("c.dat")), "p": plain, "l": lt}), sfc, 777 + sys.getsizeof("hello") + 778)
        await expect("plain:getsizeof", plain, sfc, sys.getsizeof("hello"))
        await expect("plain:int", S.Token(12345), sfc, sys.getsizeof(12345))
        await expect("empty-list", S.ListToken([]), sfc, 0)
        # a copy that is only a link / was invalidated does not give its size
        dm.register_path(loc, os.path.join(root, "d.big"), data_type=S.DataType.SYMBOLIC_LINK)
        await expect("local:link-only", F(fv("d.big")), sfc, 0)
        dm.invalidate_location(loc, os.path.join(root, "c.dat"))
        await expect("local:invalidated", F(fv("c.dat")), sfc, 0)
    finally:
        await C.close(sfc)

    # ---- a remote location: the size command is executed by /bin/sh on the real directory
    class ShConn:
        deployment_name = "R"

        async def run(self, location, command, environment=None, workdir=None, stdin=None, stdout=None, stderr=None,
                      capture_output=False, timeout=None, job_name=None):
            p = await asyncio.create_subprocess_exec("/bin/sh", "-c", " ".join(command), stdout=asyncio.subprocess.PIPE,
                                                     stderr=asyncio.subprocess.STDOUT)
            out, _ = await asyncio.wait_for(p.communicate(), 60)
            return (out.decode().strip(), p.returncode) if capture_output else None

    sh = ShConn()

    class DepM:
        def get_connector(self, name):
            return sh

    class CP:
        def register(self, dl):
            pass
    rc = types.SimpleNamespace(deployment_manager=DepM(), checkpoint_manager=CP())
    rc.data_manager = S.DefaultDataManager(rc)
    rloc = S.ExecutionLocation(name="r1", deployment="R", hostname="h")
    for n in ("c.dat", "a.txt", "dir", "sec.idx"):
        rc.data_manager.register_path(rloc, os.path.join(root, n))
    F = S.CWLFileToken
    await expect("remote:from-copy", F(fv("c.dat")), rc, 777)
    await expect("remote:empty-file", F(fv("a.txt")), rc, 0)
    await expect("remote:directory", F(fv("dir", cls="Directory")), rc, dirsize)
    await expect("remote:secondary", F(fv("c.dat", sec=[fv("sec.idx")])), rc, 810)
    await expect("remote:list", S.ListToken([F(fv("c.dat")), F(fv("sec.idx", size=1))]), rc, 778)


# ------------------------------------------------------------------------------------------------
def _initial_states(stdout):
    """number of initial states TLC reports (vacuity guard of the emission: one line per instance / per transition)"""
    import re
    m = re.search(r"Finished computing initial states: (\d+) distinct state", stdout)
    return int(m.group(1)) if m else 0


def _inst_key(inst):
    return json.dumps([sorted(inst["avail"]), bool(inst["mixed"]), inst["toks"],
                       sorted((e["i"], e["k"], e["s"], e["t"]) for e in inst["reg"])], sort_keys=True)


def run(ctx):
    from concurrent.futures import ProcessPoolExecutor, ThreadPoolExecutor
    ctx.rule = ("TLC enumerates every instance of the exhaustive configurations (job inputs x registry x available locations) and "
                "the complete graph of the dynamic configuration; every enumerated instance, random larger instances answered by "
                "TLC, a path cover of the dynamic graph and instances driven through the real DefaultScheduler are evaluated on the "
                "real classes; a case is one instance/behaviour, non-trivial when a data-driven choice exists or the call raises/returns None")
    tier = "quick" if ctx.quick else "thorough"
    rng = ctx.rng("x02")
    # ---- 0. machinery probes
    for nb in (D.U, 2 * D.U, 3 * D.U):
        for v in (0, 1):
            try:
                D.plain_value(nb, v)
            except ValueError as e:
                ctx.require(False, "cannot build plain token values of a given size on this interpreter: %s" % e)
    # ---- 1. all TLC runs, concurrently
    nq = ctx.pick(1500, 20000)
    queries = random_instances(ctx.rng("queries"), nq)
    qwd = ctx.spec_workdir("DataLocality")
    qf, of = os.path.join(qwd, "q.json"), os.path.join(qwd, "out.json")
    with open(qf, "w") as f:
        json.dump(queries, f)
    jobs = {}
    for name in STATIC[tier]:
        jobs[("static", name)] = dict(module="MC_DataLocality", cfg="MC_DataLocality_%s.cfg" % name, timeout=3000)
    for name in DYN[tier]:
        jobs[("dyn", name)] = dict(module="MC_DataLocality", cfg="MC_DataLocality_%s.cfg" % name, workers=1, timeout=3000)
    jobs[("live", "live")] = dict(module="MC_DataLocality", cfg="MC_DataLocality_live.cfg", timeout=3000)
    jobs[("q", "q")] = dict(module="Q_DataLocality", cfg="Q_DataLocality.cfg", workdir=qwd, env={"QUERY_FILE": qf, "OUT_FILE": of},
                            workers=1, count=False, timeout=3000)
    for k, v in jobs.items():
        # scratch copies are made here, in one thread (ctx.spec_workdir numbers them by directory listing)
        v.setdefault("workdir", ctx.spec_workdir("DataLocality"))
    with ThreadPoolExecutor(max_workers=ctx.pick(4, 3)) as ex:
        futs = {k: ex.submit(lambda kw: ctx.tlc("DataLocality", kw.pop("module"), kw.pop("cfg"), **kw), dict(v)) for k, v in jobs.items()}
        res = {k: f.result() for k, f in futs.items()}
    for k, r in res.items():
        # an invariant broken in the model alone is a specification error, never a verdict on the code
        ctx.require(r.ok, "TLC run %s failed in the model: %s %s\n%s" % (k, r.error, r.violated, r.stdout[-1500:]))
    ctx.exhaustive = True

    # ---- 2. static binding (configuration by configuration; only the quick configurations are kept for the end-to-end part)
    from .. import aio
    table = {}
    insts = []
    classes = {}
    tally = {"n": 0, "bylist": 0, "stat": 0}

    def parse_lines(stdout):
        for line in stdout.splitlines():
            line = line.strip()
            if line.startswith('"{') and line.endswith('"'):
                try:
                    x = json.loads(json.loads(line))
                except Exception:
                    continue
                if isinstance(x, dict) and "inst" in x:
                    yield x

    pool = ProcessPoolExecutor(max_workers=min(ctx.pick(4, 8), os.cpu_count() or 2))

    def static_some(items, src):
        """the instances are independent: chunks are evaluated by worker processes, verdicts are reported here, in order"""
        chunk = 1500
        jobs_ = [(items[a:a + chunk], tally["n"] + a + 1, ctx.seed, src) for a in range(0, len(items), chunk)]
        for (part, first, _, _), out in zip(jobs_, pool.map(D.static_worker, jobs_)):
            ctx.require(out["machinery"] is None, "static binding: %s" % out["machinery"])
            for sig, det, what in out["violations"]:
                ctx.violation(sig, det, what)
            for k, (x, cls) in enumerate(zip(part, out["classes"])):
                inst = x["inst"]
                key = cls if src == "enum" else "q:" + cls
                classes[key] = classes.get(key, 0) + 1
                ctx.case((src, first + k), nontrivial=cls not in ("fallback",))
                tally["bylist"] += 1 if x["bylist"] else 0
                tally["stat"] += 1 if x["stat"] else 0
                if (cls == "bydata" and len(inst["toks"]) == 2 and len(inst["reg"]) == 2 and len(inst["avail"]) == 3 and len(ctx.samples) < 2
                        and all(t["kind"] != "plain" for t in inst["toks"]) and inst["toks"][0]["w"] < inst["toks"][1]["w"]
                        and inst["reg"][0]["s"] != inst["reg"][1]["s"] and inst["reg"][0]["i"] != inst["reg"][1]["i"]):
                    ctx.sample({"instance": inst, "spec_acceptable": x["contract"], "spec_weights": x["w"]})
        tally["n"] += len(items)

    seen_keys = set()
    for name in STATIC[tier]:
        r = res[("static", name)]
        keep = name in STATIC["quick"]
        lines = []
        nlines = 0
        for x in parse_lines(r.stdout):
            nlines += 1
            k = _inst_key(x["inst"])
            if k in seen_keys:
                continue
            seen_keys.add(k)
            lines.append(x)
            if keep:
                table[k] = x
                insts.append(x)
        ninit = _initial_states(r.stdout)
        r.stdout = ""          # hundreds of megabytes in the thorough tier
        lines.sort(key=lambda x: _inst_key(x["inst"]))      # TLC's workers write in any order: numbering must not depend on it
        ctx.require(nlines == ninit and nlines > 100 and r.distinct >= 2 * ninit,
                    "emission incomplete on %s: %d instances written, %d initial states, %d states" % (name, nlines, ninit, r.distinct))
        ctx.count("instances:%s" % name, nlines)
        ctx.count("model_states:%s" % name, r.distinct)
        static_some(lines, "enum")
        del lines
    ctx.require(os.path.exists(of), "Q_DataLocality wrote no answers")
    with open(of) as f:
        answers = json.load(f)
    ctx.require(len(answers) == len(queries), "Q_DataLocality answered %d of %d" % (len(answers), len(queries)))
    static_some([dict(a, inst=q) for q, a in zip(queries, answers)], "query")
    pool.shutdown()
    ctx.impl_trace(tally["n"])
    for c, v in sorted(classes.items()):
        ctx.count("static:%s" % c, v)
    for need in ("bydata", "fallback", "none", "raise", "q:bydata", "q:fallback"):
        ctx.require(classes.get(need, 0) > 0 or ctx.violations or ctx.known_hits, "vacuous: no instance of class %s" % need)
    ctx.count("instances_with_list_only_data", tally["bylist"])
    ctx.count("instances_with_size_io", tally["stat"])

    # ---- 3. dynamic binding
    behaviours = []
    for name in DYN[tier]:
        r = res[("dyn", name)]
        trs = [x for x in r.printed_json() if isinstance(x, dict) and "a" in x and "f" in x]
        ninit = _initial_states(r.stdout)
        ctx.require(ninit > 0 and len(trs) == r.generated - ninit and len(trs) > 100,
                    "emission incomplete on %s: %d lines, %d states generated, %d initial" % (name, len(trs), r.generated, ninit))
        for an in ("Call", "StatDone", "Env"):
            ctx.require(any(x["a"]["name"] == an for x in trs), "vacuous dynamic model run %s: action %s never taken" % (name, an))
        # a path cover (every transition at least once); the state contains the history `seen`, so the graph is a forest
        # and the cover is the set of all behaviours
        b = build_paths(trs, ctx.rng("paths:" + name))
        ctx.count("dyn_instances:%s" % name, ninit)
        ctx.count("dyn_transitions:%s" % name, len(trs))
        ctx.count("dyn_behaviours:%s" % name, len(b))
        behaviours += b
    ctx.count("dyn_behaviours_with_env", sum(1 for _, p in behaviours if any(s["a"]["name"] == "Env" for s in p)))
    ctx.count("dyn_behaviours_env_changes_answer", sum(
        1 for _, p in behaviours if p[-1]["t"]["pc"] == "done" and p[-1]["contract"] != p[-1]["loose"]))
    ctx.require(any(len([s for s in p if s["a"]["name"] == "StatDone"]) == 2 for _, p in behaviours), "vacuous: no behaviour with two size I/Os")

    async def dyn_all():
        steps = 0
        for n, (inst, p) in enumerate(behaviours):
            steps += await D.replay_behaviour(ctx, inst, p, (ctx.seed * 3 + n) % 12)
            ctx.case(("d", n), nontrivial=len(p) > 2)
        return steps
    steps, exc = aio.run(dyn_all(), timeout=None)
    if exc is not None:
        raise exc
    ctx.impl_trace(len(behaviours))
    ctx.count("dyn_replayed_steps", steps)
    if behaviours:
        ctx.sample({"behaviour": [s["a"] for s in max(behaviours, key=lambda b: len(b[1]))[1]]})

    # ---- 4. end to end through DefaultScheduler.schedule
    def lookup(inst):
        x = table.get(_inst_key(inst))
        ctx.require(x is not None, "instance missing from the enumerated table: %s" % inst)
        return x
    cand = [x["inst"] for x in insts if not x["inst"]["mixed"] and not x["stat"] and max([0] + x["inst"]["avail"]) <= 3
            and all(e["s"] <= 3 for e in x["inst"]["reg"])]
    cand.sort(key=_inst_key)
    interesting = [i for i in cand if lookup(i)["bydata"]]
    rng.shuffle(interesting)
    rng.shuffle(cand)
    chosen = interesting[:ctx.pick(150, 1500)] + cand[:ctx.pick(60, 600)]
    e2e_classes = {}

    async def e2e_all():
        for n, inst in enumerate(chosen):
            k = 1 if n % 3 else 2
            cls = await check_e2e(ctx, inst, k, lookup, (ctx.seed + n) % 12)
            e2e_classes["k%d:%s" % (k, cls)] = e2e_classes.get("k%d:%s" % (k, cls), 0) + 1
            ctx.case(("e", n), nontrivial=cls == "bydata")
    _, exc = aio.run(e2e_all(), timeout=None)
    if exc is not None:
        raise exc
    ctx.impl_trace(len(chosen))
    for c, v in sorted(e2e_classes.items()):
        ctx.count("e2e:%s" % c, v)
    ctx.require(ctx.violations or (e2e_classes.get("k1:bydata", 0) > 0 and e2e_classes.get("k2:bydata", 0) > 0),
                "vacuous: no end-to-end instance with a data-driven choice")

    # ---- 5. weights on real files
    _, exc = aio.run(check_real_weights(ctx), timeout=300)
    if exc is not None:
        if isinstance(exc, (asyncio.TimeoutError, TimeoutError)):
            ctx.require(False, "real-file weight check timed out")
        raise exc

    ctx.extra["tiers"] = {"static_configs": STATIC[tier], "dyn_configs": DYN[tier], "queries": nq}
    ctx.assumptions += [
        "locations are AvailableLocation objects built by the harness; sizes of remote copies are answered by a harness connector "
        "(the real `find -L ... | awk` command is executed by /bin/sh only in the real-file part)",
        "all copies of one path have the same size; one model weight unit = %d bytes" % D.U,
        "the registry is built through register_path / register_relation / invalidate_location only; what those calls mean is C21's subject",
        "registry changes by other jobs arrive while the call is parked on size I/O (the harness cannot deliver one between two ready tasks)",
        "wrapped (stacked) locations and multi-level mounts are not part of the instances",
    ]


def replay(ctx, data):
    from .. import aio
    d = data["detail"]
    kind = d.get("kind")

    async def go():
        if kind == "static":
            await D.check_static(ctx, d["inst"], d["exp"], d.get("variant", 0), "replay")
        elif kind == "dyn":
            await D.replay_behaviour(ctx, d["inst"], d["steps"], d.get("variant", 0), "replay")
        elif kind == "real":
            await check_real_weights(ctx)
        else:
            return False
        return True
    ok, exc = aio.run(go(), timeout=300)
    if exc is not None:
        raise exc
    if not ok:
        run(ctx)
