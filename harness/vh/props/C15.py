"""C15 - each scheduled job gets its own existing working directories (module JobDirs).

Model: JobDirs.tla (Schedule picks pinned or FRESH directories, creates and registers them on every allocated
location); TLC checks DirsExist / DirsRegistered / DirsDistinct on all schedules of a small instance.
Binding (code -> spec): real workflows with scattered job steps (many concurrent jobs of one step, several job
steps) are executed under seeded completion delays; at the put of every JobToken the recorder observes the three
directories, the allocated locations, os.path.isdir on each and data_manager.get_data_locations; Trace_JobDirs
validates the sequence (the guard `directory not handed out before` fails on re-use) with the invariants on."""
from __future__ import annotations

import json
import os
from concurrent.futures import ProcessPoolExecutor

from vh import trace
from vh.sut import dflow_check, dflow_gen

LEVEL = "model_checking"


def descs(ctx):
    n = ctx.pick(4, 8)
    S, L = dflow_gen.S, dflow_gen.L
    out = [dflow_gen._d("sxg%d" % n, [S("sc", "scatter", ["in"], ["el", "sz"]), S("ex", "exec", ["el"], ["ex"]),
                                      S("ga", "gather", ["ex", "sz"], ["out"])], {"in": [L(range(1, n + 1))]}, ["out"], {"jobs"}),
           dflow_gen._d("sxxg", [S("sc", "scatter", ["in"], ["el", "sz"]), S("e1", "exec", ["el"], ["m"]), S("e2", "exec", ["m"], ["ex"]),
                                 S("ga", "gather", ["ex", "sz"], ["out"])], {"in": [L(range(1, 4))]}, ["out"], {"jobs"}),
           dflow_gen._d("par", [S("a", "exec", ["in"], ["o1"]), S("b", "exec", ["in"], ["o2"]), S("c", "exec", ["o1"], ["o3"])],
                        {"in": [dflow_gen.V(2)]}, ["o2", "o3"], {"jobs"})]
    # multi-location deployment (shell-based remote, 3 locations): every job is allocated TWO locations
    out.append(dict(dflow_gen._d("multi", [S("sc", "scatter", ["in"], ["el", "sz"]), S("ex", "exec", ["el"], ["ex"]),
                                           S("ga", "gather", ["ex", "sz"], ["out"])], {"in": [L(range(1, 4))]}, ["out"], {"jobs", "multi-location"}),
                    remote={"locs": ["n1", "n2", "n3"], "per_job": 2}))
    # the binding pins the output directory; jobs land on different locations of one deployment
    out.append(dict(dflow_gen._d("pinned", [S("sc", "scatter", ["in"], ["el", "sz"]), S("ex", "exec", ["el"], ["ex"]),
                                            S("ga", "gather", ["ex", "sz"], ["out"])], {"in": [L(range(1, 5))]}, ["out"], {"jobs", "pinned-directory"}),
                    remote={"locs": ["n1", "n2"], "per_job": 1, "pin_output": "/tmp/shared-out"}))
    # the pinned directory is lost and invalidated, then the step is scheduled again in the same context (two rounds)
    out.append(dict(dflow_gen._d("pinned2", [S("sc", "scatter", ["in"], ["el", "sz"]), S("ex", "exec", ["el"], ["ex"]),
                                             S("ga", "gather", ["ex", "sz"], ["out"])], {"in": [L(range(1, 4))]}, ["out"],
                                 {"jobs", "pinned-directory", "lost-and-rescheduled"}), pin_local=True, rounds=2))
    return out


def to_trace(run):
    tr = []
    pinned_local = None
    if run["desc"].get("pin_local"):
        # the directory every job of the run was given as output directory
        outs = [e["dirs"][1] for e in run["events"] if e["ev"] == "put" and e.get("k") == "job"]
        pinned_local = outs[0] if outs and len(set(outs)) == 1 else None
    for e in run["events"]:
        if e["ev"] == "lose":
            tr.append({"lose": True, "loc": e["loc"], "dir": e["dir"]})
        if e["ev"] == "put" and e.get("k") == "job":
            tr.append({"job": e["job"], "dirs": e["dirs"], "locs": e.get("locs") or ["?"],
                       "pinned": ["", (run["desc"].get("remote") or {}).get("pin_output") or pinned_local or "", ""],
                       "exists": e.get("exists") if e.get("exists") is not None else [True],
                       "registered": e.get("registered") if e.get("registered") is not None else [False],
                       "observe_error": e.get("observe_error", "")})
    return tr


def instance_module(traces):
    """Constants of the trace instance, derived from the batch of observations."""
    from vh.sut.dflow_tla import tla
    jobs, dirs, locs, pinned = [], set(), {}, {}
    for tr in traces:
        for e in tr:
            if "lose" in e:
                dirs.add(e["dir"])
                continue
            if e["job"] not in locs:
                jobs.append(e["job"])
            locs.setdefault(e["job"], set()).update(e["locs"])
            pinned[e["job"]] = list(e["pinned"])
            dirs.update(e["dirs"])
    fn = lambda name, f: "%s == [j \\in tJobs |-> CASE %s]" % (name, " [] ".join("j = %s -> %s" % (tla(j), f(j)) for j in jobs))
    return "\n".join(["---- MODULE TraceJ ----", "EXTENDS Trace_JobDirs", "tJobs == %s" % tla(set(jobs)), "tDirs == %s" % tla(dirs),
                      fn("tLocsOf", lambda j: tla(locs[j])), fn("tPinned", lambda j: tla(pinned[j])), "===="])


def judge(ctx, d, r, tr, v):
    detail = {"desc": {k: d[k] for k in ("name", "steps", "inputs", "outputs", "fail", "classes")}, "seed": r["seed"], "trace": tr}
    for e in tr:
        ctx.require(not e.get("observe_error"), "cannot observe job directories: %s" % e.get("observe_error"))
    if v["ok"]:
        return
    ev = v.get("event")
    if isinstance(ev, dict) and "job" in ev:
        again = ":after-loss" if any("lose" in x for x in tr[:tr.index(ev)] if isinstance(x, dict)) else ""
        if not all(ev["exists"]):
            sig, what = "directory-missing-on-allocated-location" + again, "a directory of job %s does not exist on one of its locations" % ev["job"]
        elif not all(ev["registered"]):
            sig, what = "directory-not-registered" + again, "a directory of job %s is not registered as available on one of its locations" % ev["job"]
        else:
            sig, what = "directory-reused", "job %s was given a directory already handed out (or the same directory twice): %s" % (ev["job"], ev["dirs"])
    else:
        sig, what = "trace-rejected:%s" % v["reason"], "job-directory trace not explained by JobDirs (%s)" % v["reason"]
    ctx.violation(sig, dict(detail, verdict=v), what)


def run(ctx):
    ctx.rule = ("real workflows with scattered/parallel job steps run under seeded completion delays; one case = the sequence of "
                "JobToken observations (directories, locations, isdir, registration) of one run, validated by Trace_JobDirs")
    r = ctx.tlc("JobDirs", "MC_JobDirs", "MC_JobDirs.cfg", coverage=True, timeout=900)
    ctx.require(r.ok, "JobDirs model violates %s" % r.violated)
    ctx.require_coverage(r, ["Schedule", "Lose"])
    ds = descs(ctx)
    seeds = ctx.pick(6, 40)
    # the shell-based remote scenarios build chroot roots per run: fewer seeds for them
    jobs = [(d, ctx.seed * 1000 + sd, []) for d in ds for sd in range(seeds if not d.get("remote") else ctx.pick(2, 10))]
    with ProcessPoolExecutor(max_workers=min(12, os.cpu_count() or 4)) as ex:
        runs = list(ex.map(dflow_check._worker, jobs, chunksize=2))
    traces = []
    for (d, sd, _), rr in zip(jobs, runs):
        ctx.require("harness_error" not in rr, "harness failure running %s: %s" % (d["name"], rr.get("harness_error")))
        ctx.require(not rr.get("error"), "workflow %s did not complete: %s" % (d["name"], rr.get("error")))
        tr0 = to_trace(rr)
        for e in tr0:       # job names are unique per run only: the batch derives its constants from all traces
            if "job" in e:
                e["job"] = "%d:%s" % (len(traces), e["job"])
        traces.append(tr0)
    ctx.require(all(traces), "no job token observed")
    ctx.require(any(any("lose" in e for e in t) for t in traces), "no lost-and-rescheduled run observed")
    verdicts = trace.validate(ctx, "JobDirs", "TraceJ", "Trace_JobDirs.cfg", traces, timeout=900, files={"TraceJ.tla": instance_module(traces)})
    njobs = 0
    for (d, sd, _), rr, tr, v in zip(jobs, runs, traces, verdicts):
        njobs += len(tr)
        ctx.case((d["name"], json.dumps([e.get("dirs") or ["lose", e.get("dir")] for e in tr])))
        judge(ctx, d, rr, tr, v)
    ctx.count("jobs_observed", njobs)
    ctx.sample({"workflow": ds[0]["name"], "trace": traces[0][:3]})
    ctx.assumptions += ["random_name() yields fresh names (modelled as choice among unused names)", "existence is observed from outside the locations (local file system / the chroot root of each shell-based remote location)"]


def replay(ctx, data):
    d = data["detail"].get("desc")
    if not d:
        return run(ctx)
    rr = dflow_check._worker((d, data["detail"].get("seed", 0), []))
    tr = to_trace(rr)
    v = trace.validate(ctx, "JobDirs", "TraceJ", "Trace_JobDirs.cfg", [tr], files={"TraceJ.tla": instance_module([tr])})[0]
    judge(ctx, d, rr, tr, v)
