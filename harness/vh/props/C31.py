"""C31 - expression dependency analysis covers every input an expression reads (module ExprDeps).

Model:      MC_ExprDeps checks the laws of the specification's evaluator `Run` on the whole bounded
            family of expression ASTs (ExprDepsFamily): stays in the modelled fragment, evaluates,
            class expectation, non-interference, existence of a sound analysis.
Generation: Gen_ExprDeps writes (class, AST, keys read, fields read, read sites, ok) + the heap.
Oracle:     every AST is rendered to CWL text and evaluated by node (started once) against the same
            heap with a Proxy around `inputs`; node's recorded reads must equal the specification's
            (a difference is a SPECIFICATION error = machinery error, never a verdict on StreamFlow).
Binding:    every rendered expression goes to the real `resolve_dependencies` (full_js=True always;
            full_js=False too for pure parameter references; functions also through expression_lib).
            Required: (a) no exception when node evaluates the expression, (b) Reads(e) <= deps.
"""
from __future__ import annotations

import io
import json
import multiprocessing
import os
import shutil
import subprocess
import sys
import time

LEVEL = "translation_validation"

NODE = "/usr/bin/node"

# ------------------------------------------------------------------------------------------------
# rendering ASTs (TLA+ records, see specs/ExprDeps/ExprDeps.tla) to JavaScript / CWL text
# ------------------------------------------------------------------------------------------------


def _js_value(heap, v):
    k = v["v"]
    if k == "str":
        return json.dumps(v["s"])
    if k == "num":
        return str(v["i"])
    if k == "bool":
        return "true" if v["b"] else "false"
    if k == "arr":
        return '["e0", "e1"]'
    if k == "obj":
        return _js_object(heap, v["id"])
    raise ValueError("heap value %r" % (v,))


def _js_object(heap, oid):
    return "{" + ", ".join("%s: %s" % (key, _js_value(heap, heap[oid][key])) for key in sorted(heap[oid])) + "}"


def _quote(s, q):
    if q == "sq":
        return "'" + s.replace("\\", "\\\\").replace("'", "\\'") + "'"
    return '"' + s.replace("\\", "\\\\").replace('"', '\\"') + '"'


def render_expr(e, heap):
    t = e["t"]
    if t == "id":
        return e["n"]
    if t == "str":
        return _quote(e["s"], e["q"])
    if t == "num":
        return str(e["i"])
    if t == "lit":
        return _js_object(heap, "LIT")
    if t == "none":
        return ""
    if t == "dot":
        return "%s.%s" % (render_expr(e["o"], heap), e["f"])
    if t == "idx":
        return "%s[%s]" % (render_expr(e["o"], heap), render_expr(e["k"], heap))
    if t == "add":
        return "%s + %s" % (render_expr(e["l"], heap), render_expr(e["r"], heap))
    if t == "par":
        return "(%s)" % render_expr(e["e"], heap)
    if t == "call":
        args = [render_expr(x, heap) for x in (e["a"], e.get("b", {"t": "none"})) if x["t"] != "none"]
        return "%s(%s)" % (e["g"], ", ".join(args))
    raise ValueError("expression node %r" % (e,))


def render_stmt(s, heap):
    t = s["t"]
    if t == "var":
        return "var %s = %s;" % (s["n"], render_expr(s["e"], heap))
    if t == "decl":
        return "var %s;" % s["n"]
    if t == "set":
        return "%s = %s;" % (s["n"], render_expr(s["e"], heap))
    if t == "if":
        return "if (%s) { %s }" % (render_expr(s["c"], heap), " ".join(render_stmt(x, heap) for x in s["ss"]))
    if t in ("fun", "funx"):
        inner = " ".join([render_stmt(x, heap) for x in s["ss"]] + ["return %s;" % render_expr(s["r"], heap)])
        params = ", ".join(x for x in (s["p"], s.get("p2", "")) if x)
        if t == "fun":
            return "function %s(%s) { %s }" % (s["n"], params, inner)
        return "var %s = function(%s) { %s };" % (s["n"], params, inner)
    raise ValueError("statement node %r" % (s,))


def render_part(e, heap):
    """One `$(...)` / `${...}`: (CWL text, JavaScript function body as cwl_utils builds it)."""
    t = e["t"]
    if t == "pref":
        segs = "".join({"dot": ".%s", "sq": "['%s']", "dq": '["%s"]', "num": "[%s]"}[s["k"]] % s["f"] for s in e["segs"])
        inner = e["root"] + segs
        return "$(%s)" % inner, "{return ((%s));}" % inner
    if t == "jsx":
        inner = render_expr(e["e"], heap)
        return "$(%s)" % inner, "{return ((%s));}" % inner
    if t == "body":
        inner = "{ " + " ".join([render_stmt(s, heap) for s in e["ss"]] + ["return %s;" % render_expr(e["r"], heap)]) + " }"
        return "$" + inner, inner
    raise ValueError("top-level node %r" % (e,))


def render_top(e, heap):
    """-> (CWL expression text, [JS fragments evaluated separately])."""
    if e["t"] == "tmpl":
        ta, fa = render_part(e["a"], heap)
        tb, fb = render_part(e["b"], heap)
        return "pre_%s-mid %s.post" % (ta, tb), [fa, fb]
    text, frag = render_part(e, heap)
    return text, [frag]


def is_pure_param_ref(e):
    if e["t"] == "tmpl":
        return e["a"]["t"] == "pref" and e["b"]["t"] == "pref"
    return e["t"] == "pref"


def lib_variant(e, heap):
    """Functions moved to `expressionLib` (InlineJavascriptRequirement): body whose statements are
    all function declarations -> (lib text list, `$(call)` text, JS fragment); body that STARTS with function
    declarations and goes on with other statements -> (lib text list, `${ rest; return r; }` text, JS fragment)."""
    if e["t"] != "body" or not e["ss"] or e["ss"][0]["t"] != "fun":
        return None
    n = 0
    while n < len(e["ss"]) and e["ss"][n]["t"] == "fun":
        n += 1
    lib, rest = [render_stmt(s, heap) for s in e["ss"][:n]], e["ss"][n:]
    if any(s["t"] == "fun" for s in rest):
        return None
    if rest:
        text, frag = render_part({"t": "body", "ss": rest, "r": e["r"]}, heap)
        return lib, text, frag
    inner = render_expr(e["r"], heap)
    return lib, "$(%s)" % inner, "{return ((%s));}" % inner


def _walk(e):
    if isinstance(e, dict):
        if "t" in e:
            yield e
        for v in e.values():
            yield from _walk(v)
    elif isinstance(e, list):
        for v in e:
            yield from _walk(v)


def access_kind(k):
    if k["t"] == "str":
        return "bracket-single-quoted" if k["q"] == "sq" else "bracket-double-quoted"
    return {"num": "numeric-index", "id": "computed-member-access:variable-key"}.get(
        k["t"], "computed-member-access:expression-key")


def raise_features(e):
    """Syntactic features of an expression that the listener cannot treat as a literal key."""
    # the listener looks at `name[key]` only (the object is a bare identifier)
    return sorted({access_kind(n["k"]) for n in _walk(e)
                   if n["t"] == "idx" and n["k"]["t"] != "str" and n["o"]["t"] == "id"})


def _root_name(e):
    while e["t"] in ("dot", "idx", "par"):
        e = e["o"] if e["t"] != "par" else e["e"]
    return e.get("n") if e["t"] == "id" else None


def rebinding_features(e):
    """How an alias of inputs is assigned again: (kind of right-hand side):(where)."""
    feats = set()

    def stmts(ss, where):
        for st in ss:
            t = st["t"]
            if t == "set" and not (st["e"]["t"] == "id" and st["e"]["n"] == "inputs"):
                rhs = st["e"]
                if rhs["t"] in ("dot", "idx") and _root_name(rhs) == st["n"]:
                    kind = "member-of-itself"
                elif rhs["t"] == "id":
                    kind = "identifier"
                else:
                    kind = "literal"
                feats.add("alias-rebound-from-%s:%s" % (kind, where))
            elif t == "if":
                stmts(st["ss"], "under-condition" if where == "unconditional" else where)
            elif t in ("fun", "funx"):
                stmts(st["ss"], "inside-function-declaration" if t == "fun" else "inside-function-expression")

    for part in ([e["a"], e["b"]] if e["t"] == "tmpl" else [e]):
        if part["t"] == "body":
            stmts(part["ss"], "unconditional")
    return sorted(feats)


def declaration_shape(e):
    """The function declarations of a body, by formal parameter list: `params-0`, `params-1`, `params-2`,
    `shadowing-params-N` when a parameter is called inputs, `outer>inner` for nested declarations, `+` between
    declarations in a row."""
    def one(st):
        params = [x for x in (st["p"], st.get("p2", "")) if x]
        label = "%sparams-%d" % ("shadowing-" if "inputs" in params else "", len(params))
        inner = [one(x) for x in st["ss"] if x["t"] == "fun"]
        return label + (">" + "+".join(inner) if inner else "")

    return "+".join(one(st) for st in e["ss"] if st["t"] == "fun") if e["t"] == "body" else ""


def scope_suffix(case):
    """Signature suffix of the scope-balance classes: where the read stands with respect to the declarations."""
    if not case["c"].startswith("scope-"):
        return ""
    return ":%s:%s" % (case["c"][len("scope-"):].replace("-function", "-function-declaration"),
                       declaration_shape(case["e"]))


# ------------------------------------------------------------------------------------------------
# oracle: node, one process for the whole batch
# ------------------------------------------------------------------------------------------------

NODE_SCRIPT = r"""
'use strict';
const fs = require('fs');
const job = JSON.parse(fs.readFileSync(process.argv[2], 'utf8'));
function build(heap, id) {
  const o = {};
  for (const k of Object.keys(heap[id])) o[k] = val(heap, heap[id][k]);
  return o;
}
function val(heap, v) {
  switch (v.v) {
    case 'str': return v.s;
    case 'num': return v.i;
    case 'bool': return v.b;
    case 'arr': return ['e0', 'e1'];
    case 'obj': return build(heap, v.id);
  }
  throw new Error('heap value ' + JSON.stringify(v));
}
const out = [];
for (const c of job.cases) {
  const keys = new Set();
  let ok = true, err = null, whole = false;
  for (const frag of c.frags) {
    const target = build(job.heap, 'IN');
    const inputs = new Proxy(target, {
      get(t, p, r) { if (typeof p === 'string') keys.add(p); return Reflect.get(t, p, r); },
      has(t, p) { if (typeof p === 'string') keys.add(p); return Reflect.has(t, p); },
      ownKeys(t) { whole = true; return Reflect.ownKeys(t); },
      getOwnPropertyDescriptor(t, p) { if (typeof p === 'string') keys.add(p); return Reflect.getOwnPropertyDescriptor(t, p); }
    });
    try {
      // same shape as cwl_utils.sandboxjs.code_fragment_to_js: "use strict"; <jslib> (function()<inner>)()
      const fn = new Function('inputs', 'self', 'runtime',
                              '"use strict";\n' + (c.lib || '') + '\nreturn (function()' + frag + ')();');
      const res = fn(inputs, build(job.heap, 'SELF'), build(job.heap, 'RT'));
      if (res === inputs) whole = true;
    } catch (ex) { ok = false; err = String(ex); }
  }
  out.push({ok: ok, err: err, keys: Array.from(keys).sort(), whole: whole});
}
fs.writeFileSync(process.argv[3], JSON.stringify(out));
"""


def run_node(ctx, heap, jobs):
    """jobs: [{"frags": [...], "lib": str}] -> [{"ok","err","keys","whole"}] (one node process)."""
    d = ctx.scratch("node")
    script, inp, outp = os.path.join(d, "oracle.js"), os.path.join(d, "in.json"), os.path.join(d, "out.json")
    with open(script, "w") as f:
        f.write(NODE_SCRIPT)
    with open(inp, "w") as f:
        json.dump({"heap": heap, "cases": jobs}, f)
    if os.path.exists(outp):
        os.remove(outp)
    try:
        p = subprocess.run([NODE, script, inp, outp], stdout=subprocess.PIPE, stderr=subprocess.STDOUT, text=True, timeout=600)
    except (OSError, subprocess.TimeoutExpired) as e:
        ctx.require(False, "node oracle could not be run: %r" % (e,))
    ctx.require(p.returncode == 0 and os.path.exists(outp), "node oracle failed: %s" % p.stdout[-600:])
    with open(outp) as f:
        res = json.load(f)
    ctx.require(len(res) == len(jobs), "node oracle answered %d of %d" % (len(res), len(jobs)))
    return res


def probe_node(ctx):
    ctx.require(os.path.exists(NODE), "node not found at %s" % NODE)
    heap = {"IN": {"f": {"v": "str", "s": "x"}}, "SELF": {}, "RT": {}}
    r = run_node(ctx, heap, [{"frags": ["{return ((inputs.f));}"]}, {"frags": ["{return ((inputs.nope.x));}"]},
                             {"frags": ["{ return 'inputs.f'; }"]}])
    ctx.require(r[0] == {"ok": True, "err": None, "keys": ["f"], "whole": False} and r[1]["ok"] is False
                and r[1]["keys"] == ["nope"] and r[2]["keys"] == [], "node oracle self-test failed: %r" % (r,))


# ------------------------------------------------------------------------------------------------
# implementation side: the real resolve_dependencies, in worker processes (the ANTLR walk is slow)
# ------------------------------------------------------------------------------------------------


def _resolve_one(job):
    text, full_js, lib = job
    from streamflow.cwl.utils import resolve_dependencies
    err = io.StringIO()
    old = sys.stderr
    sys.stderr = err
    try:
        try:
            deps = resolve_dependencies(text, full_js=full_js, expression_lib=lib)
            res = {"deps": sorted(str(d) for d in deps)}
        except BaseException as e:  # an observation, not a harness failure
            if isinstance(e, (KeyboardInterrupt, SystemExit)):
                raise
            res = {"raise": type(e).__name__, "msg": str(e)[:200]}
    finally:
        sys.stderr = old
    if err.getvalue():
        res["stderr"] = err.getvalue()[:300]
    return res


def resolve_all(jobs):
    # sequential by default: on the shared build machine a fork pool gave no speed-up at all (a pure CPU loop on 16
    # processes ran no faster than on one) and tripled the system time; VERIF_PROCS=n opts in to a pool
    n = int(os.environ.get("VERIF_PROCS", "0") or 0) or 1
    if n <= 1 or len(jobs) < 16:
        return [_resolve_one(j) for j in jobs]
    # import the package and warm ANTLR's lazily built prediction tables ONCE, before forking (the children inherit
    # both; importing in every child costs seconds each: no .pyc files are written under PYTHONDONTWRITEBYTECODE)
    for warm in ("${ var a; a = self; function g(x) { return x['f'].g + \"s\"; } if (a) { a = {k: [1]}; } return g(a); }",
                 "$(self.f + self[\"g\"])"):
        _resolve_one((warm, True, None))
    mp = multiprocessing.get_context("fork")
    with mp.Pool(n) as pool:
        return pool.map(_resolve_one, jobs, chunksize=max(1, len(jobs) // (n * 8)))


# ------------------------------------------------------------------------------------------------
# verdicts
# ------------------------------------------------------------------------------------------------


def missed_signatures(case, syntax, missing):
    sigs = {}
    for f in missing:
        sites = [s for s in case["sites"] if s["f"] == f]
        vias = sorted({s["via"] for s in sites})
        via = "+".join(vias) or "unknown"
        sig = "missed-read:%s:%s" % (syntax, via)
        if "alias-assignment" in vias and rebinding_features(case["e"]):
            sig += ":" + "+".join(rebinding_features(case["e"]))
        if vias == ["direct"]:
            aks = sorted({{"computed-variable-key": "computed-member-access:variable-key",
                           "computed-expression-key": "computed-member-access:expression-key"}.get(s["ak"], s["ak"])
                          for s in sites})
            sig += ":" + "+".join(aks)
        sig += scope_suffix(case)
        sigs.setdefault(sig, []).append(f)
    return sigs


def judge(ctx, case, variant, text, lib, full_js, node, res):
    """One (expression, mode) evaluation of the real analysis against the property."""
    syntax = "param-ref" if is_pure_param_ref(case["e"]) else "js"
    detail = {"class": case["c"], "ast": case["e"], "text": text, "expression_lib": lib, "full_js": full_js,
              "variant": variant, "reads": sorted(case["reads"]), "sites": case["sites"], "result": res}
    mode = "full_js=%s%s" % (full_js, " expressionLib" if lib else "")
    if "raise" in res:
        if not node["ok"]:
            return True  # the statement only constrains expressions that evaluate
        # a computed / numeric index on a tracked name names the crash site; otherwise how an alias is re-bound
        feats = raise_features(case["e"]) or rebinding_features(case["e"])
        sig = "raises:%s:%s%s:%s" % (syntax, "+".join(feats) or "no-computed-access", scope_suffix(case), res["raise"])
        ctx.violation(sig, detail, "resolve_dependencies(%r, %s) raises %s: %s (node evaluates it, reading %s)" % (
            text, mode, res["raise"], res.get("msg", ""), sorted(case["reads"])))
        return False
    missing = sorted(set(case["reads"]) - set(res["deps"]))
    if missing:
        for sig, fields in sorted(missed_signatures(case, syntax, missing).items()):
            ctx.violation(sig, dict(detail, missing=fields),
                          "resolve_dependencies(%r, %s) = %s misses %s, which the expression reads" % (
                              text, mode, res["deps"], fields))
        return False
    return True


# quick tier: the expressionLib rendering only for the classes where the function matters for the verdict
LIB_CLASSES_QUICK = {"closure", "function-argument", "shadowing-parameter-gets-inputs", "shadow-then-use",
                     "nested-closure-over-parameter", "nested-argument-inner",
                     "scope-direct-read-after-function", "scope-alias-after-function",
                     "scope-alias-inside-function"}


def evaluate(ctx, heap, cases, strict_spec=True, lib_all=True):
    """Render, ask node, validate the specification, bind to the real code.  -> statistics."""
    jobs_node, plans = [], []
    for i, c in enumerate(cases):
        text, frags = render_top(c["e"], heap)
        plans.append((i, "inline", text, None, len(jobs_node)))
        jobs_node.append({"frags": frags})
        lv = lib_variant(c["e"], heap)
        if lv and (lib_all or c["c"] in LIB_CLASSES_QUICK):
            lib, ltext, lfrag = lv
            plans.append((i, "expressionLib", ltext, lib, len(jobs_node)))
            jobs_node.append({"frags": [lfrag], "lib": "\n".join(lib)})
    t0 = time.time()
    node = run_node(ctx, heap, jobs_node)
    ctx.extra.setdefault("phase_wall_s", {})["node"] = round(time.time() - t0, 2)
    # 1. the oracle validates the specification (DESIGN 7.5: when they differ the spec is wrong)
    bad = []
    for (i, variant, text, lib, j) in plans:
        c, n = cases[i], node[j]
        ctx.disagreements_checked += 1
        if n["ok"] != c["ok"] or sorted(n["keys"]) != sorted(c["keys"]) or n["whole"]:
            bad.append({"text": text, "lib": lib, "class": c["c"], "spec": {"ok": c["ok"], "keys": sorted(c["keys"])}, "node": n})
    ctx.count("spec_vs_node_disagreements", len(bad))
    if strict_spec:
        ctx.require(not bad, "SPECIFICATION ERROR: ExprDeps.Run disagrees with node on %d expressions, e.g. %s" % (
            len(bad), json.dumps(bad[:3])))
    # 2. binding
    rjobs, rplans = [], []
    for (i, variant, text, lib, j) in plans:
        modes = [True] + ([False] if is_pure_param_ref(cases[i]["e"]) and not lib else [])
        for fj in modes:
            rplans.append((i, variant, text, lib, j, fj))
            rjobs.append((text, fj, lib))
    t0 = time.time()
    results = resolve_all(rjobs)
    ctx.extra["phase_wall_s"]["resolve_dependencies"] = round(time.time() - t0, 2)
    okc = 0
    complaints = 0
    for (i, variant, text, lib, j, fj), res in zip(rplans, results):
        c = cases[i]
        ctx.case((text, fj, bool(lib)), nontrivial=bool(c["reads"]) or c["x"] == "none")
        ctx.count("class:" + c["c"])
        if "stderr" in res:
            complaints += 1
            ctx.sample({"parser_complaint": res["stderr"], "text": text}, limit=8)
        if judge(ctx, c, variant, text, lib, fj, node[j], res):
            okc += 1
        if "deps" in res and set(res["deps"]) - set(c["reads"]):
            ctx.count("over_approximations")
    ctx.count("analysis_parser_complaints", complaints)
    ctx.count("analysis_calls", len(rjobs))
    ctx.count("analysis_calls_satisfying_property", okc)
    return plans, node, bad


def run(ctx):
    probe_node(ctx)
    level = ctx.pick(1, 2)
    ctx.rule = ("TLC evaluates the specification's interpreter on every AST of the bounded family (parameter references, "
                "dot/quoted/computed access, aliases, re-assignment, functions/closures/shadowing, function declarations "
                "with 0/1/2 parameters (shadowing, nested, in a row) followed by aliases and reads, string mentions, "
                "self/runtime, concatenations, templates; x one/two-level accesses); every AST is rendered, evaluated by "
                "node with a Proxy around inputs (must equal the specification's reads) and passed to the real "
                "resolve_dependencies (full_js=True; also full_js=False for parameter references; functions also via "
                "expression_lib); a case is non-trivial when the expression reads a field or is a negative (shadowed/"
                "mention-only) case")
    # development aid only (never set by the registered commands): reuse the TLC output of a previous run
    cache = os.environ.get("VERIF_C31_MODEL_CACHE")
    if cache and os.path.exists(cache) and json.load(open(cache))["level"] == level:
        gen = json.load(open(cache))
        ctx.assumptions.append("DEVELOPMENT RUN: TLC output reused from %s" % cache)
        ctx.states += len(gen["cases"])
        return _bind(ctx, gen)
    wd = ctx.spec_workdir("ExprDeps")
    cfg = open(os.path.join(wd, "MC_ExprDeps.cfg")).read().replace("LEVEL = 1", "LEVEL = %d" % level)
    # one TLC run: the laws are asserted on every expression and the cases are printed by the same invariant
    # (a law of the specification failing is a specification error = machinery error, not a verdict on the code)
    r = ctx.tlc("ExprDeps", "MC_ExprDeps", "MC_ExprDeps.cfg", workdir=wd, files={"MC_ExprDeps.cfg": cfg},
                timeout=ctx.pick(1500, 5400))
    ctx.require(r.ok, "ExprDeps law fails in the model: %s %s" % (r.error, r.violated))
    printed = r.printed_json()
    heaps = [x["heap"] for x in printed if isinstance(x, dict) and "heap" in x]
    gen = {"heap": heaps[0] if heaps else None, "cases": [x for x in printed if isinstance(x, dict) and "e" in x and "sites" in x]}
    ctx.require(gen["heap"] is not None and len(gen["cases"]) == r.distinct,
                "emission incomplete: %d cases printed, the model check saw %d" % (len(gen["cases"]), r.distinct))
    if cache:
        with open(cache, "w") as f:
            json.dump(dict(gen, level=level), f)
    _bind(ctx, gen)


def _bind(ctx, gen):
    heap, cases = gen["heap"], gen["cases"]
    ctx.require(len(cases) >= 1000, "family too small: %d" % len(cases))
    ctx.require(all(c["ok"] and c["sup"] for c in cases), "family contains expressions outside the fragment")
    cases.sort(key=lambda c: json.dumps(c["e"], sort_keys=True))
    ctx.exhaustive = True
    ctx.programs = len(cases)
    plans, node, bad = evaluate(ctx, heap, cases, lib_all=not ctx.quick)
    for k in (0, len(plans) // 3, 2 * len(plans) // 3):
        i, variant, text, lib, j = plans[k]
        ctx.sample({"class": cases[i]["c"], "text": text, "expression_lib": lib, "spec_reads": sorted(cases[i]["reads"]),
                    "node_keys": node[j]["keys"]})
    classes = {c["c"] for c in cases}
    ctx.require(len(classes) >= 30, "classes missing from the family: %d" % len(classes))
    ctx.count("expressions", len(cases))
    ctx.count("renderings", len(plans))
    ctx.count("classes", len(classes))
    ctx.count("expressions_reading_inputs", sum(1 for c in cases if c["reads"]))
    ctx.impl_trace(ctx.counters.get("analysis_calls", 0))
    ctx.assumptions += [
        "bounded syntax family (see specs/ExprDeps/ExprDepsFamily.tla): says nothing about JavaScript outside it "
        "(loops over inputs, Object.keys(inputs), with, eval, whole-object uses such as $(inputs) are left out)",
        "node v20 with a Proxy around inputs is the ground truth for the fields read; reads of nested values are not tracked",
        "the heap is fixed (inputs.f object, inputs.g string naming a field, inputs.arr array)",
        "full_js=False is exercised only for parameter references (CWL rejects JavaScript without InlineJavascriptRequirement)",
        "over-approximation (extra dependencies) is allowed by the statement and only counted",
    ]


def replay(ctx, data):
    d = data["detail"]
    if "ast" not in d:
        return run(ctx)
    probe_node(ctx)
    # the heap comes from the specification: regenerate it cheaply (LEVEL 1) and take the stored case
    wd = ctx.spec_workdir("ExprDeps")
    out = os.path.join(wd, "cases.json")
    g = ctx.tlc("ExprDeps", "Gen_ExprDeps", "Gen_ExprDeps.cfg", workdir=wd, env={"OUT_FILE": out}, workers=1, count=False,
                timeout=1500)
    ctx.require(g.ok and os.path.exists(out), "Gen_ExprDeps failed")
    with open(out) as f:
        gen = json.load(f)
    key = json.dumps(d["ast"], sort_keys=True)
    cases = [c for c in gen["cases"] if json.dumps(c["e"], sort_keys=True) == key]
    if not cases:  # a thorough-tier case: trust the stored expectation, node still validates it
        cases = [{"c": d["class"], "x": "any", "e": d["ast"], "keys": sorted({s["f"] for s in d["sites"]}),
                  "reads": d["reads"], "sites": d["sites"], "ok": True, "sup": True}]
    evaluate(ctx, gen["heap"], cases[:1])
