"""C10 - the scheduler never over-allocates a location (module Scheduler).

Model: specs/Scheduler/Scheduler.tla (DefaultScheduler with asyncio.Condition semantics, run-to-suspension actions).
TLC checks the invariants NoOverAllocation, ReservedCoversHeld on the complete state graph of several small configurations
(hardware/slot locations, stacked and replicated wrappers, multi-location targets, rollback and re-schedule, hostile
notifications).  Binding (B-env): every transition of those graphs (path cover from the initial state) and random long
behaviours of a larger instance are driven against the REAL DefaultScheduler wired to fake connectors, the event loop
run to quiescence after each environment action; after every step the projection of the real state is compared with
the model state and the property is evaluated directly on the real state by an independent oracle
(see harness/vh/sut/sched.py).
"""
from __future__ import annotations

from ..sut import sched

LEVEL = "model_checking"
PROP = "C10"


def run(ctx):
    ctx.rule = ("TLC enumerates the complete state graph of Scheduler.tla per configuration; a path cover takes every transition "
                "(environment actions Request/Notify/EvalDone/UsageDone/UsageFail in every explored order, incl. ROLLBACK of jobs that still hold resources and failed usage probes) on the real DefaultScheduler; a case is one "
                "behaviour, non-trivial when it has more than two environment actions")
    sched.run_property(ctx, PROP)


def replay(ctx, data):
    sched.replay_violation(ctx, PROP, data)
