"""C13 - jobs go to the first admissible declared target (module TargetChoice).

Model: TargetChoice.tla - the filter chain as order-preserving operators (a MatchingRule keeps a target
iff deployment matches, service matches when given, every port predicate equals str(input)), one task per
surviving target queued FIFO on the scheduler's condition, the first admissible one allocates.  TLC checks
on every behaviour of bounded families of configurations that the operational model implements the
statement (OrderPreserved, ChainIsConjunction, PlacedOnFirstAdmissible, EarlierTasksRefused,
NeverOverAllocated) and emits each finished behaviour: configuration, the sequence returned by each
filter, result (alloc / pending / nomatch) and chosen target of each job.
Binding: every emitted configuration is instantiated as real Target / FilterConfig / BindingConfig /
MatchingBindingFilter / Job objects; the real `get_targets` chain and the real `DefaultScheduler.schedule()`
(fake connectors exposing the configured AvailableLocations) are run and the *sequences* returned by the
filters and `JobAllocation.target` are compared with the model - several times with fresh objects,
because object identity can influence set iteration order.
"""
from __future__ import annotations

import asyncio
import json
import os
import re

from vh import aio
from vh.sut import hw_targets

LEVEL = "model_checking"

WFE = "WorkflowExecutionException"
_REC = {"cur": None}
_PATCH = {}


def _install_recorder():
    """Wrap MatchingBindingFilter.get_targets at its public name: record what it returns inside schedule()."""
    from streamflow.deployment.filter.matching import MatchingBindingFilter
    if "orig" in _PATCH:
        return
    orig = MatchingBindingFilter.get_targets

    async def get_targets(self, job, targets):
        res = await orig(self, job, targets)
        if _REC["cur"] is not None:
            try:
                _REC["cur"].append(list(res))
            except Exception:
                _REC["cur"].append(res)
        return res
    get_targets.__wrapped__ = orig
    _PATCH["orig"] = orig
    _PATCH["cls"] = MatchingBindingFilter
    MatchingBindingFilter.get_targets = get_targets


def _remove_recorder():
    if "orig" in _PATCH:
        _PATCH["cls"].get_targets = _PATCH.pop("orig")
        _PATCH.pop("cls", None)


def _quiet():
    import logging
    from streamflow.log_handler import logger
    logger.setLevel(logging.CRITICAL)


# ---------------------------------------------------------------------------------------------------
# what the model says, recomputed nowhere: only bookkeeping on the emitted behaviour
# ---------------------------------------------------------------------------------------------------

def _host_of(cfg, pos):
    t = cfg["targets"][pos - 1]
    return (t["dep"], t["svc"])


def _caps(cfg):
    return {(h["dep"], h["svc"]): h["cores"] for h in cfg["hosts"]}


def _variant(rep, cfg, seed):
    import random
    all_one = all(j["req"] == 1 for j in cfg["jobs"])
    rng = random.Random("%s/%s" % (seed, rep))
    return {"mode": "slots" if (rep % 2 == 1 and all_one) else "hardware", "ints": rep % 2 == 1,
            "yields": (lambda: 0) if rep == 0 else (lambda: rng.randint(0, 2))}


# ---------------------------------------------------------------------------------------------------
# the filter chain on the real MatchingBindingFilter objects
# ---------------------------------------------------------------------------------------------------

def _check_filter_output(ctx, beh, job_i, f_i, inp, members, got, where, rep):
    """One filter: `inp` positions handed in, `members` the set the model keeps, `got` = ["ok", positions] | ["err", cls].
    The expected sequence is the input order restricted to the kept members."""
    exp = [t for t in inp if t in members]
    detail = {"behaviour": beh, "job": job_i, "filter": f_i, "input": inp, "expected": exp, "got": got, "where": where, "rep": rep}
    n = len(beh["cfg"]["filters"][f_i])
    if got[0] == "err":
        if not exp and got[1] == WFE:
            return True
        ctx.violation("get_targets:raises-%s" % got[1], detail,
                      "%s: filter %d raised %s, model keeps %s" % (where, f_i + 1, got[1], exp))
        return False
    seq = got[1]
    if 0 in seq:
        ctx.violation("get_targets:foreign-object", detail, "%s: filter returned an object that is not one of the targets" % where)
        return False
    if len(set(seq)) != len(seq):
        ctx.violation("get_targets:duplicates", detail, "%s: filter %d returned %s (duplicates)" % (where, f_i + 1, seq))
        return False
    if set(seq) != set(exp):
        extra, missing = sorted(set(seq) - set(exp)), sorted(set(exp) - set(seq))
        kind = "kept-extra" if extra and not missing else "dropped" if missing and not extra else "kept-extra-and-dropped"
        ctx.violation("get_targets:members:%s:%s" % (kind, "one-rule" if n == 1 else "several-rules"), detail,
                      "%s: filter %d (%d rules) returned targets %s, model keeps %s" % (where, f_i + 1, n, seq, exp))
        return False
    if seq != exp:
        ctx.violation("get_targets:order-lost", detail,
                      "%s: filter %d was handed targets %s and returned %s; declared order is %s" % (where, f_i + 1, inp, seq, exp))
        return False
    return True


async def _filters_direct(world, job):
    targets = list(world.binding.targets)
    obs = []
    try:
        filters = world.new_filters()
    except Exception as e:  # noqa
        return [["err", type(e).__name__]]
    for f in filters:
        try:
            targets = await f.get_targets(job, targets)
            obs.append(["ok", world.positions(targets)])
        except Exception as e:  # noqa
            obs.append(["err", type(e).__name__])
            break
    return obs


def _check_chain(ctx, beh, job_i, obs, where, rep):
    """Compare a whole observed chain with the model's trail.  -> (all good, order kept everywhere)"""
    trail = beh["out"][job_i]["trail"]
    inp = list(range(1, len(beh["cfg"]["targets"]) + 1))
    good = True
    for f_i, exp in enumerate(trail):
        if f_i >= len(obs):
            ctx.violation("get_targets:not-called", {"behaviour": beh, "job": job_i, "filter": f_i, "where": where, "rep": rep},
                          "%s: filter %d was not applied" % (where, f_i + 1))
            return False
        ok = _check_filter_output(ctx, beh, job_i, f_i, inp, set(exp), obs[f_i], where, rep)
        good &= ok
        if obs[f_i][0] == "err" or set(obs[f_i][1]) != set(exp) or 0 in obs[f_i][1]:
            break                      # the rest of the chain saw another input than in the model
        inp = obs[f_i][1]
    return good


# ---------------------------------------------------------------------------------------------------
# schedule() on the real DefaultScheduler
# ---------------------------------------------------------------------------------------------------

async def _schedule_all(world):
    """Schedule the jobs one after the other (run to quiescence after each request).  -> one record per job."""
    res = []
    tasks = []
    try:
        for job, req in zip(world.jobs, world.requirements):
            rec = []
            _REC["cur"] = rec
            t = asyncio.ensure_future(world.scheduler.schedule(job, world.binding, req))
            tasks.append(t)
            await aio.settle(rounds=2)
            _REC["cur"] = None
            o = {"filters": [world.positions(x) if isinstance(x, list) else ["?"] for x in rec], "done": t.done(),
                 "exception": None, "chosen": 0, "locations": []}
            if t.done():
                if t.cancelled():
                    o["exception"] = "CancelledError"
                elif t.exception() is not None:
                    o["exception"] = type(t.exception()).__name__
            try:
                alloc = world.scheduler.job_allocations.get(job.name)
            except Exception as e:  # noqa
                alloc = None
                o["exception"] = o["exception"] or "allocations:%s" % type(e).__name__
            if alloc is not None:
                o["chosen"] = world.index.get(id(alloc.target), -1)
                o["locations"] = [getattr(l, "name", "?") for l in (alloc.locations or [])]
            res.append(o)
    finally:
        _REC["cur"] = None
        me = asyncio.current_task()
        rest = [t for t in asyncio.all_tasks() if t is not me and not t.done()]
        for t in rest:
            t.cancel()
        if rest:
            await asyncio.gather(*rest, return_exceptions=True)
    return res


def _check_schedule(ctx, beh, obs, rep, variant):
    cfg = beh["cfg"]
    caps = _caps(cfg)
    used = {}
    good = True
    for j, (exp, o) in enumerate(zip(beh["out"], obs)):
        req = cfg["jobs"][j]["req"]
        surv = exp["trail"][-1] if exp["trail"] else list(range(1, len(cfg["targets"]) + 1))
        detail = {"behaviour": beh, "job": j, "expected": {"result": exp["result"], "chosen": exp["chosen"]}, "observed": o,
                  "rep": rep, "mode": variant["mode"], "ints": variant["ints"], "kind": "schedule"}

        def adm(t):
            h = _host_of(cfg, t)
            return h in caps and caps[h] - used.get(h, 0) >= req
        # the filters as seen inside schedule()
        if cfg["filters"]:
            seqs = [["ok", s] for s in o["filters"]]
            if o["exception"] is not None and len(seqs) < len(exp["trail"]):
                seqs.append(["err", o["exception"]])
            good &= _check_chain(ctx, beh, j, seqs, "schedule", rep)
        final = o["filters"][-1] if (cfg["filters"] and len(o["filters"]) == len(cfg["filters"])) else \
            (list(range(1, len(cfg["targets"]) + 1)) if not cfg["filters"] else None)
        sig = what = None
        if o["exception"] is not None:
            if not (exp["result"] == "nomatch" and (o["exception"] == WFE or (o["exception"] == "ValueError" and o["filters"][-1:] == [[]]))):
                sig, what = "schedule:raises-%s" % o["exception"], "schedule() raised %s" % o["exception"]
        elif not o["done"]:
            if o["chosen"]:
                sig, what = "schedule:allocated-but-blocked", "an allocation exists but schedule() did not return"
            elif exp["result"] == "alloc":
                sig, what = "schedule:not-placed", "schedule() blocks although target %d can host the job" % exp["chosen"]
            elif exp["result"] == "nomatch":
                sig, what = "schedule:blocks-without-targets", "schedule() blocks although no target survives the filters"
        else:
            c = o["chosen"]
            if not c:
                sig, what = "schedule:returned-without-allocation", "schedule() returned and the job has no allocation"
            elif c != exp["chosen"]:
                if c not in surv:
                    sig, what = "schedule:placed-on-filtered-out-target", "job placed on target %s, survivors are %s" % (c, surv)
                elif not adm(c):
                    sig, what = "schedule:placed-on-full-target", "job placed on target %s which cannot host it" % c
                elif final is not None and sorted(final) == sorted(surv) and final != surv and \
                        c == next((t for t in final if adm(t)), 0):
                    sig = "schedule:choice-follows-unordered-filter-output"
                    what = ("job placed on target %s: first admissible of the sequence %s the filters returned; "
                            "declared order of the survivors is %s, first admissible %s" % (c, final, surv, exp["chosen"]))
                else:
                    sig, what = "schedule:not-first-admissible", \
                        "job placed on target %s, the first admissible surviving target is %s (survivors %s)" % (c, exp["chosen"], surv)
            else:
                t = cfg["targets"][c - 1]
                if o["locations"] != ["%s-%s" % (t["dep"], t["svc"])]:
                    sig, what = "schedule:location-of-other-target", "allocation on target %s has locations %s" % (c, o["locations"])
        if sig:
            ctx.violation(sig, detail, what)
            return False            # later jobs of this world start from another state than in the model
        if exp["result"] == "alloc":
            h = _host_of(cfg, exp["chosen"])
            used[h] = used.get(h, 0) + req
    return good


# ---------------------------------------------------------------------------------------------------

async def _bind(ctx, beh, reps, key):
    cfg = beh["cfg"]
    good = True
    for rep in range(reps):
        variant = _variant(rep, cfg, "%s/%s" % (ctx.seed, key))
        try:
            world = hw_targets.World(cfg, mode=variant["mode"], ints=variant["ints"], yields=variant["yields"])
        except Exception as e:  # noqa
            ctx.violation("build:raises-%s" % type(e).__name__, {"behaviour": beh, "rep": rep, "kind": "build"},
                          "building the real objects raised %r" % e)
            return False
        for j, job in enumerate(world.jobs):
            if cfg["filters"] and (j == 0 or cfg["jobs"][j]["inputs"] != cfg["jobs"][0]["inputs"]):
                obs = await _filters_direct(world, job)
                good &= _check_chain(ctx, beh, j, obs, "get_targets", rep)
        obs = await _schedule_all(world)
        good &= _check_schedule(ctx, beh, obs, rep, variant)
    return good


def _classify(ctx, beh):
    cfg = beh["cfg"]
    for j, o in enumerate(beh["out"]):
        ctx.count("result:%s" % o["result"])
        surv = o["trail"][-1] if o["trail"] else list(range(1, len(cfg["targets"]) + 1))
        if len(surv) >= 2:
            ctx.count("class:two-or-more-survivors")
        if o["result"] == "alloc" and surv and o["chosen"] != surv[0]:
            ctx.count("class:only-a-later-survivor-admissible")
        if o["result"] == "alloc" and o["chosen"] != 1:
            ctx.count("class:chosen-is-not-the-first-declared")
        if o["result"] == "alloc" and j > 0:
            ctx.count("class:placed-after-an-earlier-job")
    if len(cfg["filters"]) >= 2:
        ctx.count("class:chained-filters")


def _reps_for(ctx, beh, base, extra):
    most = max([len(s) for o in beh["out"] for s in o["trail"]] + [0])
    return base + (extra if most >= 2 else 0)


def _random_configs(ctx, n):
    rng = ctx.rng("queries")
    deps, svcs, ports, vals = ["d1", "d2", "d3"], ["none", "s1", "s2"], ["p", "q"], ["1", "b"]
    out = []
    for _ in range(n):
        nt = rng.choice([1, 2, 3, 3, 4, 4, 4])
        pool = [(d, s) for d in deps[:rng.choice([1, 2, 2, 3])] for s in svcs[:rng.choice([1, 2, 3])]]
        targets = [dict(zip(("dep", "svc"), rng.choice(pool))) for _ in range(nt)]
        filters = []
        for _f in range(rng.choice([0, 1, 1, 1, 2, 2])):
            rules = []
            for _r in range(rng.randint(1, 3)):
                d, s = rng.choice(pool) if rng.random() < 0.8 else (rng.choice(deps), rng.choice(svcs))
                if rng.random() < 0.4:
                    s = "none"
                ps = rng.sample(ports, rng.choice([0, 0, 1, 1, 2]))
                rules.append({"dep": d, "svc": s, "preds": [[p, rng.choice(vals)] for p in sorted(ps)]})
            filters.append(rules)
        inputs = [[p, rng.choice(vals)] for p in ports]
        jobs = []
        for _j in range(rng.choice([1, 1, 2, 3])):
            jobs.append({"inputs": inputs if rng.random() < 0.7 else [[p, rng.choice(vals)] for p in ports],
                         "req": rng.choice([1, 1, 2])})
        kinds = sorted({(t["dep"], t["svc"]) for t in targets})
        hosts = [{"dep": d, "svc": s, "cores": rng.choice([0, 1, 1, 2, 3])} for d, s in kinds]
        out.append({"targets": targets, "filters": filters, "jobs": jobs, "hosts": hosts})
    return out


def _behaviours(ctx, r, label):
    m = re.search(r"Finished computing initial states: (\d+) distinct states? generated", r.stdout)
    if m is None:
        m = re.search(r"Finished computing initial states: \d+ states? generated, with (\d+) of them distinct", r.stdout)
    ctx.require(m is not None, "%s: cannot read the number of initial states" % label)
    n_init = int(m.group(1))
    seen = {}
    for m in re.finditer(r'^"\{.*\}"$', r.stdout, re.M):
        try:
            b = json.loads(json.loads(m.group(0)))
        except Exception:
            continue
        if isinstance(b, dict) and "cfg" in b and "out" in b:
            seen.setdefault(json.dumps(b["cfg"], sort_keys=True), b)
    ctx.require(len(seen) == n_init, "%s: %d behaviours emitted for %d configurations" % (label, len(seen), n_init))
    return seen


def run(ctx):
    ctx.rule = ("TLC enumerates binding configurations: family 'filters' = every list of 1..3 (thorough 1..4) pairwise different "
                "targets over 2 deployments x {no service, s1}, every chain of 1 filter with 1..2 rules or 2 filters with 1 rule "
                "(thorough: also 3 rules, 2+1) over all rules (deployment, service given or not, <=1 predicate; thorough run 2: <=2 "
                "predicates over 2 ports), every input valuation over a 2-value alphabet; family 'capacity' = the target lists with "
                "no filter or one service/deployment rule, 2 jobs, every assignment of 0/1 cores to the 4 hosts (several targets "
                "admissible at once, only later ones admissible, none admissible); plus seeded random configurations (1..4 targets "
                "with repeats, 0..2 filters of 1..3 rules, <=2 predicates, 1..3 jobs of 1..2 cores, hosts of 0..3 cores) answered by "
                "TLC.  Each is run on the real filters and the real DefaultScheduler 2+ times with fresh objects.  Non-trivial: at "
                "least two targets survive, or the chosen target is not the first declared one")
    _quiet()
    _install_recorder()
    runs = ctx.pick(["quick"], ["thorough1", "thorough2"])
    base, extra = ctx.pick((2, 1), (2, 2))
    total = 0
    try:
        batches = []
        for n_run, name in enumerate(runs):
            # seeded random configurations of the wider domain, answered by the same specification in the same run
            qs = _random_configs(ctx, ctx.pick(400, 6000)) if n_run == 0 else []
            wd = ctx.spec_workdir("TargetChoice")
            qf = os.path.join(wd, "queries.json")
            with open(qf, "w") as f:
                json.dump(qs, f)
            env = {"QUERY_FILE": qf}
            if ctx.quick:     # short run: C1-only JIT halves the JVM's CPU time (measured); local workaround, tlc.py untouched
                env["JAVA_TOOL_OPTIONS"] = "-XX:TieredStopAtLevel=1"
            r = ctx.tlc("TargetChoice", "MC_TargetChoice", "MC_TargetChoice_%s.cfg" % name, workdir=wd, env=env,
                        coverage=(n_run == 0), timeout=3000)
            if not r.ok:
                ctx.require(False, "TargetChoice violates %s (%s): specification error\n%s" % (r.violated, name, r.stdout[-1500:]))
            if n_run == 0:
                ctx.require_coverage(r, ["Request", "ApplyFilter", "Spawn", "Eval", "Return", "EmitDone"])
            behs = _behaviours(ctx, r, name)
            r.stdout = ""
            qkeys = {json.dumps(q, sort_keys=True) for q in qs}
            ctx.require(all(k in behs for k in qkeys), "%s: a random configuration was not answered" % name)
            batches.append((name, {k: b for k, b in behs.items() if k not in qkeys}))
            if qkeys:
                batches.append(("random", {k: b for k, b in behs.items() if k in qkeys}))
        ctx.exhaustive = True

        async def main():
            nonlocal total
            sampled = set()
            for name, behs in batches:
                n = 0
                for key in sorted(behs):
                    beh = behs[key]
                    _classify(ctx, beh)
                    nontrivial = any(len(s) >= 2 for o in beh["out"] for s in o["trail"]) or \
                        any(o["chosen"] > 1 for o in beh["out"])
                    reps = _reps_for(ctx, beh, base, extra)
                    ctx.case(key, nontrivial)
                    ctx.evaluations += reps - 1
                    await _bind(ctx, beh, reps, key)
                    n += 1
                    cat = None
                    outs = beh["out"]
                    if len(outs) >= 2 and outs[0]["result"] == "alloc" and outs[1]["result"] == "alloc" and outs[0]["chosen"] != outs[1]["chosen"]:
                        cat = "second-job-goes-to-a-later-target"
                    elif len(beh["cfg"]["filters"]) >= 2 and outs[0]["result"] == "alloc" and len(outs[0]["trail"][0]) >= 2:
                        cat = "chained-filters"
                    elif outs[0]["result"] == "alloc" and outs[0]["trail"] and len(outs[0]["trail"][-1]) >= 2 and outs[0]["chosen"] != outs[0]["trail"][-1][0]:
                        cat = "first-survivor-full"
                    elif outs[0]["result"] == "pending":
                        cat = "pending"
                    if cat and (name == "random", cat) not in sampled:
                        sampled.add((name == "random", cat))
                        ctx.sample({"family": name, "class": cat, "targets": beh["cfg"]["targets"], "filters": beh["cfg"]["filters"],
                                    "jobs": beh["cfg"]["jobs"], "hosts": beh["cfg"]["hosts"], "model": outs}, limit=8)
                ctx.count("configurations:%s" % name, n)
                total += n
        _, exc = aio.run(main(), timeout=3000)
        if exc is not None:
            raise exc
    finally:
        _remove_recorder()
    ctx.impl_trace(total)
    for cl in ("class:two-or-more-survivors", "class:only-a-later-survivor-admissible", "class:chosen-is-not-the-first-declared",
               "class:placed-after-an-earlier-job", "class:chained-filters", "result:alloc", "result:pending", "result:nomatch"):
        ctx.require(ctx.counters.get(cl, 0) > 0, "vacuous enumeration: no behaviour of %s" % cl)
    ctx.assumptions += ["one location per (deployment, service); admissibility = free cores (Hardware) or free slots of that location",
                        "fake deployment manager/connectors and the cores requirement are trusted (vh/sut/hw_targets.py)",
                        "jobs of one configuration are scheduled one after the other (run to quiescence in between); no notify_status",
                        "job inputs are plain Tokens whose value is a string or an integer; every port a rule names exists",
                        "shuffle filters are outside the statement (shuffle-free chains)"]


def replay(ctx, data):
    d = data["detail"]
    if "behaviour" not in d:
        return run(ctx)
    _quiet()
    _install_recorder()
    try:
        async def main():
            await _bind(ctx, d["behaviour"], 8, "replay")
        _, exc = aio.run(main(), timeout=600)
        if exc is not None:
            raise exc
    finally:
        _remove_recorder()
