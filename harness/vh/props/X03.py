"""X03 - container connectors and bind mounts (modules ContainerPaths / ContainerBinds).

Extension module (not one of the listed properties): see notes/X03.md for the invariants and their sources.

 1. paths      MC_ContainerBindsPaths: all small mount tables x paths; TLC checks that the design (deepest
               component-prefix match) meets the requirements and the round-trip laws and prints the
               requirement of every (table, path); the real _get_host_path / _get_container_path /
               _get_longest_prefix_path answer the same questions.
 2. misc       MC_ContainerBindsMisc: every bind / mount text of the parsers' case analysis, every assignment of
               pool tables to three locations (_get_effective_locations), cgroup readings (cores, memory).
 3. model      MC_ContainerBinds: life cycle + one/two copies, exhaustive, invariants and liveness.
 4. transfers  every specified single copy of every scenario (printed by the same exhaustive run) is executed
               on the REAL DockerConnector (wrapping the real LocalConnector) against a fake `docker` CLI whose
               containers are private mount namespaces (vh.sut.cbinds): chosen transfer path (recorded at the
               connector's public methods) and the change of both file-system views are compared.
 5. behaviours simulated behaviours of the model (deploy with image present/pulled/missing, failing `docker run`,
               external container, run/locations/copies, undeploy) are replayed step by step: the i-th `docker`
               CLI record must be the i-th life-cycle action; the recorded event traces are validated the other way
               round with Trace_ContainerBinds.
"""
from __future__ import annotations

import json
import os
import posixpath
import time

LEVEL = "model_checking"


# ------------------------------------------------------------------------------------------------
# helpers
# ------------------------------------------------------------------------------------------------

def R(p, trailing=False):
    """Abstract path (list of components) -> text."""
    s = "/" + "/".join(p)
    return s + "/" if trailing and p else s


def norm(s):
    return posixpath.normpath(s) if isinstance(s, str) else s


def is_prefix(a, b):
    return len(a) <= len(b) and list(b[:len(a)]) == list(a)


def strprefix_only(m, p):
    """text of m is a string prefix of the text of p without being a component prefix."""
    return R(p).startswith(R(m)) and not is_prefix(m, p)


def _call(f, *a, **k):
    try:
        return f(*a, **k), None
    except Exception as e:  # observation, not a harness crash
        return None, e


def _exc(e):
    return "%s: %s" % (type(e).__name__, str(e)[:200])


# ------------------------------------------------------------------------------------------------
# 1. path mapping
# ------------------------------------------------------------------------------------------------

def path_class(kind, T, p):
    binds = [m for m in T if m["type"] == "bind"]
    if kind == "host":
        if any(strprefix_only(m["dst"], p) for m in binds):
            return "string-prefix"
        over = [m for m in T if is_prefix(m["dst"], p)]
        if over:
            g = max(over, key=lambda m: len(m["dst"]))
            if g["type"] == "volume" and any(m["type"] == "bind" for m in over):
                return "shadowed-by-volume"
        return "component"
    if any(strprefix_only(m["src"], p) for m in binds):
        return "string-prefix"
    return "component"


def check_path_case(ctx, conn_mod, cb, T, q, trailing, src="enum"):
    """One (table, path): the three real functions against the requirement."""
    from vh.sut import cbinds as CB
    vols = [("/", None)]
    for m in T:
        if m["type"] == "bind":
            vols.append((R(m["dst"]), R(m["src"])))
        elif m["type"] == "volume":
            vols.append((R(m["dst"]), None))
    inst = CB.make_instance(vols)
    conn = cb
    p = q["p"]
    text = R(p, trailing)
    ok = True
    # _get_host_path
    got, e = _call(conn._get_host_path, inst, text)
    h = q["h"]
    if h["k"] != "any":
        exp = R(h["p"]) if h["k"] == "some" else None
        if e is not None or norm(got) != exp:
            ok = False
            ctx.violation("host_path:%s%s" % (path_class("host", T, p), ":trailing-slash" if trailing else ""),
                          {"kind": "path", "T": T, "q": q, "trailing": trailing, "fn": "host", "expected": exp,
                           "got": _exc(e) if e else got, "src": src},
                          "_get_host_path(%s) with mounts %s = %r, required %r" % (
                              text, [(m["type"], R(m["src"]), R(m["dst"])) for m in T], _exc(e) if e else got, exp))
    # _get_container_path
    got, e = _call(conn._get_container_path, inst, text)
    c = q["c"]
    if c["k"] != "any":
        exps = [R(x) for x in c["ps"]] if c["k"] == "oneof" else [None]
        if e is not None or norm(got) not in exps:
            ok = False
            ctx.violation("container_path:%s%s" % (path_class("ctr", T, p), ":trailing-slash" if trailing else ""),
                          {"kind": "path", "T": T, "q": q, "trailing": trailing, "fn": "ctr", "expected": exps,
                           "got": _exc(e) if e else got, "src": src},
                          "_get_container_path(%s) with mounts %s = %r, required one of %r" % (
                              text, [(m["type"], R(m["src"]), R(m["dst"])) for m in T], _exc(e) if e else got, exps))
    # _get_longest_prefix_path
    paths = [R(m["dst"]) for m in T]
    got, e = _call(conn_mod._get_longest_prefix_path, text, list(paths))
    exp = R(q["l"])
    if e is not None or norm(got) != exp:
        ok = False
        ctx.violation("longest_prefix:%s" % ("string-prefix" if any(strprefix_only(m["dst"], p) for m in T) else "component"),
                      {"kind": "path", "T": T, "q": q, "trailing": trailing, "fn": "lpp", "expected": exp,
                       "got": _exc(e) if e else got, "src": src},
                      "_get_longest_prefix_path(%s, %s) = %r, required %r" % (text, paths, _exc(e) if e else got, exp))
    return ok


def part_paths(ctx):
    from streamflow.deployment.connector import container as conn_mod
    from vh.sut import cbinds as CB
    cb = CB.bare_connector({})
    cfgs = ctx.pick(["MC_ContainerBindsPaths_quick.cfg"],
                    ["MC_ContainerBindsPaths_quick.cfg", "MC_ContainerBindsPaths_thorough.cfg",
                     "MC_ContainerBindsPaths_thorough3.cfg"])
    classes = {}
    for cfg in cfgs:
        r = ctx.tlc("ContainerBinds", "MC_ContainerBindsPaths", cfg, workers=1, timeout=3000)
        ctx.require(r.ok, "path theory fails in the model (%s): %s %s" % (cfg, r.error, r.violated))
        lines = r.printed_json()
        ctx.require(len(lines) == r.distinct and len(lines) > 500, "tables emitted %d, states %d" % (len(lines), r.distinct))
        ctx.count("tables:%s" % cfg.replace("MC_ContainerBindsPaths_", "").replace(".cfg", ""), len(lines))
        for k, line in enumerate(lines):
            T = line["T"]
            for q in line["q"]:
                for trailing in ((False, True) if q["p"] else (False,)):
                    cls = (q["h"]["k"], q["c"]["k"], path_class("host", T, q["p"]), path_class("ctr", T, q["p"]))
                    classes[cls] = classes.get(cls, 0) + 1
                    ctx.case(None, nontrivial=False)
                    check_path_case(ctx, conn_mod, cb, T, q, trailing)
            if k == 700:
                ctx.sample({"table": [(m["type"], R(m["src"]), R(m["dst"])) for m in T],
                            "answers": [(R(q["p"]), q["h"], q["c"]) for q in line["q"][:4]]})
        ctx.distinct.add("paths:%s:%d" % (cfg, len(lines)))
    for cls, n in sorted(classes.items()):
        ctx.count("path_class:%s" % "/".join(cls), n)
    need = [("some", "none"), ("none", "oneof"), ("any", "none"), ("none", "any")]
    for hk, ck in need:
        ctx.require(any(c[0] == hk and c[1] == ck for c in classes), "no path case of class %s/%s" % (hk, ck))
    ctx.require(any(c[2] == "string-prefix" for c in classes) and any(c[2] == "shadowed-by-volume" for c in classes),
                "string-prefix / volume-shadow cases missing")
    ctx.impl_trace(sum(classes.values()))


# ------------------------------------------------------------------------------------------------
# 2. parsers, effective locations, hardware
# ------------------------------------------------------------------------------------------------

def check_bind_case(ctx, conn_mod, c):
    text = ":".join(c["fields"])
    got, e = _call(conn_mod._parse_bind, text)
    exp = (c["exp"]["src"], c["exp"]["dst"], c["exp"]["opts"])
    import shlex
    exp_q = tuple(shlex.join(shlex.split(x)) if i < 2 else x for i, x in enumerate(exp))
    if e is not None or tuple(got) not in (exp, exp_q):
        ctx.violation("parse_bind:%d-fields" % len(c["fields"]), {"kind": "bind", "case": c, "got": _exc(e) if e else got},
                      "_parse_bind(%r) = %r, specification %r" % (text, _exc(e) if e else got, exp))


def check_mount_case(ctx, conn_mod, c):
    from streamflow.core.exception import WorkflowDefinitionException
    text = ",".join(("%s=%s" % (i["k"], i["v"])) if i["kv"] else i["k"] for i in c["items"])
    got, e = _call(conn_mod._parse_mount, text)
    exp = c["exp"]
    if exp["ok"]:
        want = (exp["type"], exp["src"]["v"] if exp["src"]["def"] else None, exp["dst"])
        good = e is None and tuple(got) == want
    else:
        want = "WorkflowDefinitionException(%s)" % exp["err"]
        good = isinstance(e, WorkflowDefinitionException)
    if not good:
        ctx.violation("parse_mount:%s" % (exp["err"] or "complete"), {"kind": "mount", "case": c, "got": _exc(e) if e else got},
                      "_parse_mount(%r) = %r, specification %r" % (text, _exc(e) if e else got, want))


def eff_class(c):
    dst = c["dst"]
    cls = "component"
    for l, T in c["tt"].items():
        for m in T:
            if m["type"] == "bind" and strprefix_only(m["dst"], dst):
                return "string-prefix"
        over = [m for m in T if is_prefix(m["dst"], dst)]
        if over and max(over, key=lambda m: len(m["dst"]))["type"] == "volume" and any(m["type"] == "bind" for m in over):
            cls = "shadowed-by-volume"
    return cls


def check_eff_case(ctx, c):
    from streamflow.core.deployment import ExecutionLocation
    from vh import aio
    from vh.sut import cbinds as CB
    insts = {}
    for l, T in c["tt"].items():
        vols = [("/", None)] + [(R(m["dst"]), R(m["src"]) if m["type"] == "bind" else None) for m in T]
        insts[l] = CB.make_instance(vols)
    conn = CB.bare_connector(insts)
    inner = ExecutionLocation(name="__LOCAL__", deployment="cb-local", local=True)
    locs = [ExecutionLocation(name=l, deployment="cb-docker", stacked=True, wraps=inner) for l in ("l1", "l2", "l3")]
    src = next((x for x in locs if x.name == c["src"]), None)
    got, e = aio.run(conn._get_effective_locations(list(locs), R(c["dst"]), src), 30)
    req = c["req"]
    bad = None
    if e is not None:
        bad = "raised %s" % _exc(e)
    else:
        names = [x.name for x in got]
        E = set(names)
        if len(E) != len(names) or not E <= {"l1", "l2", "l3"}:
            bad = "duplicates or foreign locations"
        elif not set(req["must"]) <= E:
            bad = "dropped %s, which nobody else serves (or which is the source)" % sorted(set(req["must"]) - E)
        else:
            same = {tuple(x) for x in req["same"]}
            for l in {"l1", "l2", "l3"} - E:
                if not any((l, k) in same for k in E):
                    bad = "dropped %s although no kept location shares the destination file with it" % l
            for a, b in req["single"]:
                if a in E and b in E:
                    bad = "kept both %s and %s, which have the same governing bind" % (a, b)
    if bad:
        ctx.violation("effective_locations:%s" % eff_class(c), {"kind": "eff", "case": c, "got": None if e else [x.name for x in got]},
                      "_get_effective_locations(dst=%s, source=%s) with %s: %s" % (
                          R(c["dst"]), c["src"] or None,
                          {l: [(m["type"], R(m["src"]), R(m["dst"])) for m in T] for l, T in c["tt"].items()}, bad))
    return bad is None


def part_misc(ctx):
    from streamflow.deployment.connector import container as conn_mod
    for mode, fn in (("bind", check_bind_case), ("mount", check_mount_case)):
        r = ctx.tlc("ContainerBinds", "MC_ContainerBindsMisc", "MC_ContainerBindsMisc_%s.cfg" % mode, workers=1, timeout=1800)
        ctx.require(r.ok, "parser model %s: %s %s" % (mode, r.error, r.violated))
        lines = r.printed_json()
        ctx.require(len(lines) == r.distinct and lines, "parser cases %s: %d" % (mode, len(lines)))
        for c in lines:
            ctx.case(("parse", mode, json.dumps(c.get("fields") or c.get("items"))))
            fn(ctx, conn_mod, c)
        ctx.count("parse_%s_cases" % mode, len(lines))
        if mode == "mount":
            ctx.count("parse_mount_errors", sum(1 for c in lines if not c["exp"]["ok"]))
            ctx.sample({"mount_text": ",".join(("%s=%s" % (i["k"], i["v"])) if i["kv"] else i["k"] for i in lines[len(lines) // 2]["items"]),
                        "spec": lines[len(lines) // 2]["exp"]})
    r = ctx.tlc("ContainerBinds", "MC_ContainerBindsMisc", "MC_ContainerBindsMisc_eff.cfg", workers=1, timeout=1800)
    ctx.require(r.ok, "effective-location cases: %s" % r.error)
    lines = r.printed_json()
    ctx.require(len(lines) == r.distinct and len(lines) > 1000, "effective-location cases: %d" % len(lines))
    if ctx.quick:
        rng = ctx.rng("eff")
        lines = [c for c in lines if c["src"] in ("", "l2")]
        lines = rng.sample(lines, 1200)
    cls = {}
    for c in lines:
        k = eff_class(c)
        cls[k] = cls.get(k, 0) + 1
        ctx.case(None, nontrivial=False)
        check_eff_case(ctx, c)
    ctx.distinct.add("eff:%d" % len(lines))
    for k, n in cls.items():
        ctx.count("eff_class:%s" % k, n)
    ctx.impl_trace(len(lines))


# ------------------------------------------------------------------------------------------------
def run(ctx):
    os.chdir(ctx.scratch("cwd"))        # _prepare_volumes would create relative directories in the cwd
    ctx.rule = ("TLC enumerates mount tables x paths, parser texts, location assignments, life-cycle behaviours and every "
                "specified single copy of eight mount scenarios; each is put to the real functions / the real DockerConnector "
                "over a fake docker CLI with mount-namespace containers; a copy case is non-trivial (all are: source exists, "
                "target fresh)")
    part_paths(ctx)
    part_misc(ctx)
    ctx.assumptions += [
        "docker cleans mount paths (no trailing slash, no '.' / '..') in `docker inspect`; mount points reported by `df` are clean",
        "a tmpfs mount is invisible to the connector (df type tmpfs is skipped): nothing is demanded for paths it governs",
        "when a deeper mount shadows the container name of a host path, which name (if any) _get_container_path returns is not constrained",
    ]


def replay(ctx, data):
    from streamflow.deployment.connector import container as conn_mod
    from vh.sut import cbinds as CB
    d = data["detail"]
    k = d.get("kind")
    if k == "path":
        check_path_case(ctx, conn_mod, CB.bare_connector({}), d["T"], d["q"], d["trailing"], "replay")
    elif k == "bind":
        check_bind_case(ctx, conn_mod, d["case"])
    elif k == "mount":
        check_mount_case(ctx, conn_mod, d["case"])
    elif k == "eff":
        check_eff_case(ctx, d["case"])
    else:
        run(ctx)
