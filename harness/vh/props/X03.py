"""X03 - container connectors and bind mounts (modules ContainerPaths / ContainerBinds).

Extension module (not one of the listed properties): see notes/X03.md for the invariants and their sources.

 1. paths      MC_ContainerBindsPaths: all small mount tables x paths; TLC checks that the design (deepest
               component-prefix match) meets the requirements and the round-trip laws and prints the
               requirement of every (table, path); the real _get_host_path / _get_container_path /
               _get_longest_prefix_path answer the same questions.
 2. misc       MC_ContainerBindsMisc: every bind / mount text of the parsers' case analysis, every assignment of
               pool tables to three locations (_get_effective_locations), cgroup readings (cores, memory).
 3. model      MC_ContainerBinds: life cycle + one/two copies, exhaustive, invariants and liveness.
 4. transfers  every specified single copy of every scenario (printed by the same exhaustive run) is executed
               on the REAL DockerConnector (wrapping the real LocalConnector) against a fake `docker` CLI whose
               containers are private mount namespaces (vh.sut.cbinds): chosen transfer path (recorded at the
               connector's public methods) and the change of both file-system views are compared.
 5. behaviours simulated behaviours of the model (deploy with image present/pulled/missing, failing `docker run`,
               external container, run/locations/copies, undeploy) are replayed step by step: the i-th `docker`
               CLI record must be the i-th life-cycle action; the recorded event traces are validated the other way
               round with Trace_ContainerBinds.
"""
from __future__ import annotations

import json
import os
import posixpath
import time

LEVEL = "model_checking"


# ------------------------------------------------------------------------------------------------
# helpers
# ------------------------------------------------------------------------------------------------

def R(p, trailing=False):
    """Abstract path (list of components) -> text."""
    s = "/" + "/".join(p)
    return s + "/" if trailing and p else s


def norm(s):
    return posixpath.normpath(s) if isinstance(s, str) else s


def is_prefix(a, b):
    return len(a) <= len(b) and list(b[:len(a)]) == list(a)


def strprefix_only(m, p):
    """text of m is a string prefix of the text of p without being a component prefix."""
    return R(p).startswith(R(m)) and not is_prefix(m, p)


def _call(f, *a, **k):
    try:
        return f(*a, **k), None
    except Exception as e:  # observation, not a harness crash
        return None, e


def _exc(e):
    return "%s: %s" % (type(e).__name__, str(e)[:200])


# ------------------------------------------------------------------------------------------------
# 1. path mapping
# ------------------------------------------------------------------------------------------------

def path_class(kind, T, p):
    binds = [m for m in T if m["type"] == "bind"]
    if kind == "host":
        if any(strprefix_only(m["dst"], p) for m in binds):
            return "string-prefix"
        over = [m for m in T if is_prefix(m["dst"], p)]
        if over:
            g = max(over, key=lambda m: len(m["dst"]))
            if g["type"] == "volume" and any(m["type"] == "bind" for m in over):
                return "shadowed-by-volume"
        return "component"
    if any(strprefix_only(m["src"], p) for m in binds):
        return "string-prefix"
    return "component"


def table_instance(T):
    from vh.sut import cbinds as CB
    vols = [("/", None)]
    for m in T:
        if m["type"] == "bind":
            vols.append((R(m["dst"]), R(m["src"])))
        elif m["type"] == "volume":
            vols.append((R(m["dst"]), None))
    return CB.make_instance(vols)


def check_path_case(ctx, conn_mod, cb, T, q, trailing, src="enum", inst=None):
    """One (table, path): the three real functions against the requirement."""
    inst = inst or table_instance(T)
    conn = cb
    p = q["p"]
    text = R(p, trailing)
    ok = True
    # _get_host_path
    got, e = _call(conn._get_host_path, inst, text)
    h = q["h"]
    if h["k"] != "any":
        exp = R(h["p"]) if h["k"] == "some" else None
        if e is not None or norm(got) != exp:
            ok = False
            ctx.violation("host_path:%s%s" % (path_class("host", T, p), ":trailing-slash" if trailing else ""),
                          {"kind": "path", "T": T, "q": q, "trailing": trailing, "fn": "host", "expected": exp,
                           "got": _exc(e) if e else got, "src": src},
                          "_get_host_path(%s) with mounts %s = %r, required %r" % (
                              text, [(m["type"], R(m["src"]), R(m["dst"])) for m in T], _exc(e) if e else got, exp))
    # _get_container_path
    got, e = _call(conn._get_container_path, inst, text)
    c = q["c"]
    if c["k"] != "any":
        exps = [R(x) for x in c["ps"]] if c["k"] == "oneof" else [None]
        if e is not None or norm(got) not in exps:
            ok = False
            ctx.violation("container_path:%s%s" % (path_class("ctr", T, p), ":trailing-slash" if trailing else ""),
                          {"kind": "path", "T": T, "q": q, "trailing": trailing, "fn": "ctr", "expected": exps,
                           "got": _exc(e) if e else got, "src": src},
                          "_get_container_path(%s) with mounts %s = %r, required one of %r" % (
                              text, [(m["type"], R(m["src"]), R(m["dst"])) for m in T], _exc(e) if e else got, exps))
    # _get_longest_prefix_path
    paths = [R(m["dst"]) for m in T]
    got, e = _call(conn_mod._get_longest_prefix_path, text, list(paths))
    exp = R(q["l"])
    if e is not None or norm(got) != exp:
        ok = False
        ctx.violation("longest_prefix:%s" % ("string-prefix" if any(strprefix_only(m["dst"], p) for m in T) else "component"),
                      {"kind": "path", "T": T, "q": q, "trailing": trailing, "fn": "lpp", "expected": exp,
                       "got": _exc(e) if e else got, "src": src},
                      "_get_longest_prefix_path(%s, %s) = %r, required %r" % (text, paths, _exc(e) if e else got, exp))
    return ok


def part_paths(ctx):
    from streamflow.deployment.connector import container as conn_mod
    from vh.sut import cbinds as CB
    cb = CB.bare_connector({})
    cfgs = ctx.pick(["MC_ContainerBindsPaths_quick.cfg"],
                    ["MC_ContainerBindsPaths_quick.cfg", "MC_ContainerBindsPaths_thorough.cfg",
                     "MC_ContainerBindsPaths_thorough3.cfg"])
    classes = {}
    for cfg in cfgs:
        r = ctx.tlc("ContainerBinds", "MC_ContainerBindsPaths", cfg, workers=1, timeout=3000)
        ctx.require(r.ok, "path theory fails in the model (%s): %s %s" % (cfg, r.error, r.violated))
        lines = r.printed_json()
        ctx.require(len(lines) == r.distinct and len(lines) > 500, "tables emitted %d, states %d" % (len(lines), r.distinct))
        ctx.count("tables:%s" % cfg.replace("MC_ContainerBindsPaths_", "").replace(".cfg", ""), len(lines))
        for k, line in enumerate(lines):
            T = line["T"]
            inst = table_instance(T)
            for q in line["q"]:
                cls = (q["h"]["k"], q["c"]["k"], path_class("host", T, q["p"]), path_class("ctr", T, q["p"]))
                for trailing in ((False, True) if q["p"] else (False,)):
                    classes[cls] = classes.get(cls, 0) + 1
                    ctx.evaluations += 1
                    check_path_case(ctx, conn_mod, cb, T, q, trailing, inst=inst)
            if k == 700:
                ctx.sample({"table": [(m["type"], R(m["src"]), R(m["dst"])) for m in T],
                            "answers": [(R(q["p"]), q["h"], q["c"]) for q in line["q"][:4]]})
        ctx.distinct.add("paths:%s:%d" % (cfg, len(lines)))
    for cls, n in sorted(classes.items()):
        ctx.count("path_class:%s" % "/".join(cls), n)
    need = [("some", "none"), ("none", "oneof"), ("any", "none"), ("none", "any")]
    for hk, ck in need:
        ctx.require(any(c[0] == hk and c[1] == ck for c in classes), "no path case of class %s/%s" % (hk, ck))
    ctx.require(any(c[2] == "string-prefix" for c in classes) and any(c[2] == "shadowed-by-volume" for c in classes),
                "string-prefix / volume-shadow cases missing")
    ctx.impl_trace(sum(classes.values()))


# ------------------------------------------------------------------------------------------------
# 2. parsers, effective locations, hardware
# ------------------------------------------------------------------------------------------------

def check_bind_case(ctx, conn_mod, c):
    text = ":".join(c["fields"])
    got, e = _call(conn_mod._parse_bind, text)
    exp = (c["exp"]["src"], c["exp"]["dst"], c["exp"]["opts"])
    import shlex
    exp_q = tuple(shlex.join(shlex.split(x)) if i < 2 else x for i, x in enumerate(exp))
    if e is not None or tuple(got) not in (exp, exp_q):
        ctx.violation("parse_bind:%d-fields" % len(c["fields"]), {"kind": "bind", "case": c, "got": _exc(e) if e else got},
                      "_parse_bind(%r) = %r, specification %r" % (text, _exc(e) if e else got, exp))


def check_mount_case(ctx, conn_mod, c):
    from streamflow.core.exception import WorkflowDefinitionException
    text = ",".join(("%s=%s" % (i["k"], i["v"])) if i["kv"] else i["k"] for i in c["items"])
    got, e = _call(conn_mod._parse_mount, text)
    exp = c["exp"]
    if exp["ok"]:
        want = (exp["type"], exp["src"]["v"] if exp["src"]["def"] else None, exp["dst"])
        good = e is None and tuple(got) == want
    else:
        want = "WorkflowDefinitionException(%s)" % exp["err"]
        good = isinstance(e, WorkflowDefinitionException)
    if not good:
        ctx.violation("parse_mount:%s" % (exp["err"] or "complete"), {"kind": "mount", "case": c, "got": _exc(e) if e else got},
                      "_parse_mount(%r) = %r, specification %r" % (text, _exc(e) if e else got, want))


def eff_class(c):
    dst = c["dst"]
    cls = "component"
    for l, T in c["tt"].items():
        for m in T:
            if m["type"] == "bind" and strprefix_only(m["dst"], dst):
                return "string-prefix"
        over = [m for m in T if is_prefix(m["dst"], dst)]
        if over and max(over, key=lambda m: len(m["dst"]))["type"] == "volume" and any(m["type"] == "bind" for m in over):
            cls = "shadowed-by-volume"
    return cls


def check_eff_case(ctx, c):
    from streamflow.core.deployment import ExecutionLocation
    from vh import aio
    from vh.sut import cbinds as CB
    insts = {}
    for l, T in c["tt"].items():
        vols = [("/", None)] + [(R(m["dst"]), R(m["src"]) if m["type"] == "bind" else None) for m in T]
        insts[l] = CB.make_instance(vols)
    conn = CB.bare_connector(insts)
    inner = ExecutionLocation(name="__LOCAL__", deployment="cb-local", local=True)
    locs = [ExecutionLocation(name=l, deployment="cb-docker", stacked=True, wraps=inner) for l in ("l1", "l2", "l3")]
    src = next((x for x in locs if x.name == c["src"]), None)
    got, e = aio.run(conn._get_effective_locations(list(locs), R(c["dst"]), src), 30)
    req = c["req"]
    bad = None
    if e is not None:
        bad = "raised %s" % _exc(e)
    else:
        names = [x.name for x in got]
        E = set(names)
        if len(E) != len(names) or not E <= {"l1", "l2", "l3"}:
            bad = "duplicates or foreign locations"
        elif not set(req["must"]) <= E:
            bad = "dropped %s, which nobody else serves (or which is the source)" % sorted(set(req["must"]) - E)
        else:
            same = {tuple(x) for x in req["same"]}
            for l in {"l1", "l2", "l3"} - E:
                if not any((l, k) in same for k in E):
                    bad = "dropped %s although no kept location shares the destination file with it" % l
            for a, b in req["single"]:
                if a in E and b in E:
                    bad = "kept both %s and %s, which have the same governing bind" % (a, b)
    if bad:
        ctx.violation("effective_locations:%s" % eff_class(c), {"kind": "eff", "case": c, "got": None if e else [x.name for x in got]},
                      "_get_effective_locations(dst=%s, source=%s) with %s: %s" % (
                          R(c["dst"]), c["src"] or None,
                          {l: [(m["type"], R(m["src"]), R(m["dst"])) for m in T] for l, T in c["tt"].items()}, bad))
    return bad is None


def check_hw_case(ctx, c, world_base, k):
    """cgroup readings -> instance.cores / instance.memory, through a real external deployment."""
    from vh import aio
    from vh.sut import cbinds as CB
    hw = c["hw"]
    cpuset = {1: "0", 3: "0-1,4", 4: "0-3"}[hw["ncpus"]]
    conf = {"cgroup": {"version": hw["v"], "quota": "max" if hw["quota"] == 0 else hw["quota"], "period": hw["period"],
                       "cpuset": cpuset, "memory": "max" if hw["mem"] == 0 else hw["mem"]},
            "meminfo_kb": hw["memtotal"]}
    w = CB.World(world_base, "hw%d" % k)
    w.install()
    out = {}

    async def main():
        cid = w.create_external([], conf)
        conn, inner = CB.make_connector(w, containerId=cid)
        try:
            await conn.deploy(True)
            inst = conn._instances[cid]
            out["cores"], out["memory"] = inst.cores, inst.memory
        finally:
            await CB.close_shells(inner)
    try:
        _, exc = aio.run(main(), 180)
    finally:
        w.close()
    cls = "v%d:%s" % (hw["v"], "quota-period-%s" % ("100000" if hw["period"] == 100000 else "other") if hw["quota"] else "cpuset")
    if exc is not None:
        ctx.violation("populate_instance:exception:%s" % cls, {"kind": "hw", "case": c, "exc": _exc(exc)},
                      "_populate_instance raised %s for cgroup readings %s" % (_exc(exc), conf))
        return
    if abs(out["cores"] * 1000 - c["cores"]) > 0.5:
        ctx.violation("populate_instance:cores:%s" % cls, {"kind": "hw", "case": c, "got": out},
                      "cgroup v%d quota=%s period=%s cpuset=%s: instance.cores = %s, specification %s" % (
                          hw["v"], conf["cgroup"]["quota"], hw["period"], cpuset, out["cores"], c["cores"] / 1000))
    if abs(out["memory"] - c["mem"]) > 0.5:
        ctx.violation("populate_instance:memory:v%d:%s" % (hw["v"], "limit" if hw["mem"] else "unlimited"),
                      {"kind": "hw", "case": c, "got": out},
                      "memory limit %s, MemTotal %s kB: instance.memory = %s MiB, specification %s" % (
                          conf["cgroup"]["memory"], hw["memtotal"], out["memory"], c["mem"]))


def part_misc(ctx):
    from streamflow.deployment.connector import container as conn_mod
    r = ctx.tlc("ContainerBinds", "MC_ContainerBindsMisc", ctx.pick("MC_ContainerBindsMisc.cfg", "MC_ContainerBindsMisc_thorough.cfg"),
                workers=1, timeout=1800)
    ctx.require(r.ok, "parser / effective-location cases: %s %s" % (r.error, r.violated))
    lines = r.printed_json()
    ctx.require(len(lines) == r.distinct, "cases printed %d, states %d" % (len(lines), r.distinct))
    by = {}
    for c in lines:
        by.setdefault(c["mode"], []).append(c)
    ctx.require(len(by.get("bind", [])) >= 10 and len(by.get("mount", [])) > 600 and len(by.get("eff", [])) > 3000
                and len(by.get("hw", [])) == 96, "case counts %s" % {k: len(v) for k, v in by.items()})
    for c in by["bind"]:
        ctx.case(("parse", "bind", json.dumps(c["fields"])))
        check_bind_case(ctx, conn_mod, c)
    for c in by["mount"]:
        ctx.case(("parse", "mount", json.dumps(c["items"])))
        check_mount_case(ctx, conn_mod, c)
    ctx.count("parse_bind_cases", len(by["bind"]))
    ctx.count("parse_mount_cases", len(by["mount"]))
    ctx.count("parse_mount_errors", sum(1 for c in by["mount"] if not c["exp"]["ok"]))
    mid = by["mount"][len(by["mount"]) // 2]
    ctx.sample({"mount_text": ",".join(("%s=%s" % (i["k"], i["v"])) if i["kv"] else i["k"] for i in mid["items"]), "spec": mid["exp"]})
    eff = sorted(by["eff"], key=lambda c: json.dumps(c, sort_keys=True))
    if ctx.quick:
        eff = ctx.rng("eff").sample(eff, 900)
    cls = {}
    for c in eff:
        k = eff_class(c)
        cls[k] = cls.get(k, 0) + 1
        ctx.case(None, nontrivial=False)
        check_eff_case(ctx, c)
    ctx.distinct.add("eff:%d" % len(eff))
    for k, n in cls.items():
        ctx.count("eff_class:%s" % k, n)
    ctx.require(cls.get("component", 0) > 200 and cls.get("string-prefix", 0) > 50, "effective-location classes %s" % cls)
    hw = sorted(by["hw"], key=lambda c: json.dumps(c, sort_keys=True))
    if ctx.quick:
        want = [(1, 50000, 50000, 3, 536870912), (2, 50000, 50000, 1, 0), (1, 0, 100000, 3, 0), (2, 0, 50000, 4, 536870912),
                (2, 200000, 100000, 4, 0), (1, 100000, 100000, 1, 536870912)]
        hw = [c for c in hw if (c["hw"]["v"], c["hw"]["quota"], c["hw"]["period"], c["hw"]["ncpus"], c["hw"]["mem"]) in want]
        ctx.require(len(hw) == len(want), "hardware cases selected: %d" % len(hw))
    for k, c in enumerate(hw):
        ctx.case(("hw", json.dumps(c["hw"], sort_keys=True)))
        check_hw_case(ctx, c, ctx.scratch("worlds"), k)
    ctx.count("hardware_cases", len(hw))
    ctx.impl_trace(len(eff) + len(hw))


# ------------------------------------------------------------------------------------------------
# 3./4. life-cycle model and single copies on the real connector
# ------------------------------------------------------------------------------------------------

FRESH = ("x1", "x2")


def rename(x, k):
    """Give the fresh names of a generated single copy a unique spelling (many copies share one deployment)."""
    if isinstance(x, str):
        return "y%d%s" % (k, x[1:]) if x in FRESH else x
    if isinstance(x, list):
        return [rename(v, k) for v in x]
    if isinstance(x, dict):
        return {a: rename(v, k) for a, v in x.items()}
    return x


def governing(T, cp):
    over = [m for m in T if is_prefix(m["dst"], cp)]
    return max(over, key=lambda m: len(m["dst"])) if over else None


def copy_class(T, last):
    """Input class of a copy (part of the violation signature)."""
    binds = [m for m in T if m["type"] == "bind"]
    op = last["op"]
    host_paths = [last["src"]] if op == "l2r" else [last["dst"]] if op == "r2l" else []
    ctr_paths = [last["tgt"]] if op == "l2r" else [last["src"]] if op == "r2l" else [last["src"], last["tgt"], last["dst"]]
    for m in binds:
        if any(strprefix_only(m["src"], p) for p in host_paths) or any(strprefix_only(m["dst"], p) for p in ctr_paths):
            return "string-prefix"
    for p in ctr_paths:
        g = governing(T, p)
        if g is not None and g["type"] == "volume" and any(m["type"] == "bind" and is_prefix(m["dst"], p) for m in T):
            return "shadowed-by-volume"
    if op == "r2l" and last["ro"] and last["dec"]["k"] == "ctrcopy":
        return "read-only-link-made-in-container"
    return "%s%s" % (last["dec"]["k"], ":read-only" if last["ro"] else "")


def delta(before, after, skips):
    def skipped(p):
        return any(is_prefix(s, p) for s in skips)
    added = {p: c for p, c in after.items() if before.get(p) != c and not skipped(p)}
    removed = [p for p in before if p not in after and not skipped(p)]
    return added, removed


def norm_found(cls, found):
    """A link made in the container for a read-only remote-to-local copy is judged by its effect (content clause,
    it only resolves locally for identity binds), not by the command: it counts as the container-side copy."""
    if cls == "read-only-link-made-in-container" and len(found) == 1 and found[0]["k"] == "ctrlink":
        return [dict(found[0], k="ctrcopy")]
    return found


def same_dec(exp, found, cls=""):
    found = norm_found(cls, found)
    if exp["k"] == "stream":
        return len(found) == 1 and found[0]["k"] == "stream"
    if len(found) != 1 or found[0]["k"] != exp["k"]:
        return False
    f = found[0]
    return list(f["a"]) == list(exp["a"]) and list(f["b"]) == list(exp["b"])


def check_copy(ctx, rig, T, last, obs, label, detail):
    """Compare one executed copy with the specification's step.  Returns True when everything agrees."""
    from vh.sut import cbinds as CB
    op = {"l2r": "copy_local_to_remote", "r2l": "copy_remote_to_local", "r2r": "copy_remote_to_remote"}[last["op"]]
    cls = copy_class(T, last)
    what = "%s(%s -> %s, read_only=%s) [%s, user %s]" % (op, R(last["src"]), R(last["dst"]), last["ro"], label,
                                                        "same" if rig.cuser else "different")
    detail = dict(detail, last=last, cls=cls, events=[e for e in obs["events"] if e.get("e") != "ctr_run_ret"][:40])
    if obs["exc"] is not None:
        ctx.violation("%s:exception:%s" % (op, cls), dict(detail, exc=_exc(obs["exc"])), "%s raised %s" % (what, _exc(obs["exc"])))
        return False
    found, streams = CB.decision_of(rig.world, obs["events"])
    ok = True
    if not same_dec(last["dec"], found, cls):
        ok = False
        ctx.violation("%s:decision:%s" % (op, cls), dict(detail, found=found),
                      "%s: specification chooses %s(%s, %s), the connector did %s" % (
                          what, last["dec"]["k"], R(last["dec"]["a"]), R(last["dec"]["b"]),
                          [(f["k"], R(f.get("a", [])), R(f.get("b", []))) for f in found]))
    elif streams != (1 if last["dec"]["k"] == "stream" else 0):
        ok = False
        ctx.violation("%s:streams:%s" % (op, cls), dict(detail, streams=streams), "%s used %d tar streams" % (what, streams))
    for view, key, add, skip in (("host", "host", last["hadd"], last["hskip"]), ("container", "ctr", last["cadd"], last["cskip"])):
        before, after = obs[key]
        added, removed = delta(before, after, [tuple(x) for x in skip])
        exp = {tuple(e["p"]): e["c"] for e in add if not any(is_prefix(s, e["p"]) for s in skip)}
        if added != exp or removed:
            missing = {R(p): c for p, c in exp.items() if added.get(p) != c}
            extra = {R(p): c for p, c in added.items() if exp.get(p) != c}
            clause = "content" if missing else "frame"
            ctx.violation("%s:%s:%s" % (op, clause, cls),
                          dict(detail, view=view, missing=missing, extra=extra, removed=[R(p) for p in removed]),
                          "%s: %s view afterwards: missing %s, unexpected %s, removed %s" % (
                              what, view, missing, extra, [R(p) for p in removed]))
            return False
    return ok


def stratum(T, last):
    isdir = any(e["c"] == "DIR" for e in last["cadd"] + last["hadd"])
    return (last["op"], last["dec"]["k"], last["ro"], isdir, last["tgt"] != last["dst"], copy_class(T, last))


def run_group(ctx, name, T, cuser, init_fs, ops, env=None, label="single"):
    """One deployment, many independent copies.  Returns the recorded abstract trace (for Trace_ContainerBinds)."""
    from vh import aio
    from vh.sut import cbinds as CB
    env = env or {"ext": False, "given": False, "image": True, "pullable": True, "runfails": False}
    rig = CB.Rig(ctx.scratch("worlds"), name, T, cuser, env, init_fs, timeout=ctx.pick(120.0, 300.0))
    trace = [{"e": "begin", "sc": label, "cuser": cuser, "env": env}, {"e": "deploy_call"}]
    out = {"done": 0, "agree": 0, "traces": []}

    async def main():
        try:
            d = await rig.deploy()
            lifecycle_events(ctx, rig, d["events"], trace, "deploy")
            trace.append(deploy_ret(rig, d))
            det = {"kind": "group_deploy", "scenario": label, "table": T, "cuser": cuser, "init_fs": init_fs, "env": env}
            if any(e.get("cmd") == "run" and e.get("ok") and not e.get("prepared") for e in trace if e.get("e") == "cli"):
                ctx.violation("deploy:prepare_volumes:%s" % env_class(env), det,
                              "`docker run` found bind sources missing: _prepare_volumes did not create them [%s]" % name)
            if d["exc"] is not None:
                missing = "bind source path does not exist" in str(d["exc"])
                ctx.violation("deploy:%s:%s" % ("prepare_volumes" if missing else "outcome", env_class(env)), dict(det, exc=_exc(d["exc"])),
                              "deploy of scenario %s raised %s, the model deploys" % (name, _exc(d["exc"])))
                out["traces"].append(trace)
                return
            prefix = list(trace)
            base_h, base_c = rig.snapshot()
            for k, last in ops:
                last = rename(last, k)
                rig.hv, rig.cv = base_h, base_c
                obs = await rig.copy(last["op"], last["src"], last["dst"], last["ro"])
                ctx.case(("copy", name, json.dumps([last["op"], last["src"], last["dst"], last["ro"]])))
                good = check_copy(ctx, rig, T, last, obs, name, {"kind": "copy", "scenario": label, "table": T, "cuser": cuser,
                                                                  "init_fs": init_fs, "env": env})
                out["done"] += 1
                if good:
                    out["agree"] += 1
                    found, streams = CB.decision_of(rig.world, obs["events"])
                    out["traces"].append(copy_event(list(prefix), last, found, streams, obs["events"], rig))
                # undo the copy: every generated copy starts from the scenario's initial files
                added_h, _ = delta(obs["host"][0], obs["host"][1], [])
                added_c, _ = delta(obs["ctr"][0], obs["ctr"][1], [])
                rig.remove(CB._roots(added_h), CB._roots(added_c))
                if not good and not rig.restore(base_h, base_c):
                    ctx.count("groups_abandoned_after_damage")
                    break
            trace.append({"e": "undeploy_call"})
            u = await rig.undeploy()
            lifecycle_events(ctx, rig, u["events"], trace, "undeploy")
            trace.append({"e": "undeploy_ret", "ok": u["exc"] is None, "running": rig.cid in u["running"]})
            out["traces"].append(trace)
        finally:
            await rig.close()
    _, exc = aio.run(main(), timeout=None)
    if exc is not None:
        raise exc
    return out["traces"], out


def deploy_ret(rig, d):
    """Outcome of deploy() as a trace event: the populated instance in abstract terms."""
    from streamflow.core.exception import WorkflowDefinitionException
    if d["exc"] is not None:
        return {"e": "deploy_ret", "ok": False,
                "exc": "definition" if isinstance(d["exc"], WorkflowDefinitionException) else "execution"}
    inst = rig.conn._instances.get(rig.conn.containerId)
    binds = []
    for st in (inst.volumes.values() if inst else []):
        if st.bind is not None:
            a, b = rig.world.abstract(st.mount_point), rig.world.abstract(st.bind)
            binds.append([a if a is not None else ["?", st.mount_point], b if b is not None else ["?", st.bind]])
    return {"e": "deploy_ret", "ok": True, "binds": sorted(binds), "cuser": bool(inst.current_user) if inst else None}


def lifecycle_events(ctx, rig, events, trace, phase):
    """Abstract the CLI records of a deploy()/undeploy() call into trace events (cmd, ok)."""
    it = iter(events)
    pending = None
    for ev in it:
        if ev.get("e") != "cli":
            continue
        if "argv" in ev:
            a = ev["argv"]
            cmd = "image_inspect" if a[:2] == ["image", "inspect"] else a[0]
            if cmd == "exec":
                words = [x for x in a[1:] if not x.startswith("-")]
                trace.append({"e": "cli", "cmd": "exec", "mine": bool(words) and words[0] == (rig.conn.containerId or ""),
                              "mode": "shell" if "--interactive" in a and a[-1] == "sh" else "cmd"})
                pending = None
            elif cmd == "version":
                pending = None
            else:
                pending = {"e": "cli", "cmd": cmd}
        elif "result" in ev and pending is not None:
            r = ev["result"]
            pending["ok"] = r[1] == "0"
            if pending["cmd"] == "run":
                pending["prepared"] = (len(r) < 4 or r[3] == "0") if pending["ok"] else True
            if pending["cmd"] in ("stop", "inspect"):
                pending["mine"] = r[2] == (rig.conn.containerId or "")
            trace.append(pending)
            pending = None
    return trace


def copy_event(trace, last, found, streams, events, rig):
    for ev in events:
        if ev.get("e") == "cli" and "argv" in ev and ev["argv"][:1] == ["exec"]:
            words = [x for x in ev["argv"][1:] if not x.startswith("-")]
            trace.append({"e": "cli", "cmd": "exec", "mine": bool(words) and words[0] == (rig.conn.containerId or ""), "mode": "cmd"})
    found = norm_found("read-only-link-made-in-container" if last["op"] == "r2l" and last["ro"] else "", found)
    f = found[0] if found else {"k": "none"}
    trace.append({"e": "copy", "op": last["op"], "src": last["src"], "dst": last["dst"], "ro": last["ro"],
                  "dec": {"k": f["k"], "a": list(f.get("a", last["dec"]["a"])), "b": list(f.get("b", last["dec"]["b"]))},
                  "streams": streams})
    return trace


def part_model_and_copies(ctx):
    # the life cycle, exhaustively (all environments, no copies), and its liveness
    r = ctx.tlc("ContainerBinds", "MC_ContainerBinds", "MC_ContainerBindsLife.cfg", coverage=True, timeout=1800)
    ctx.require(r.ok, "life-cycle model (safety and liveness): %s %s" % (r.error, r.violated))
    ctx.require_coverage(r, ["DeployBegin", "PrepareVolumes", "ImageInspect", "Pull", "DockerRun", "Inspect", "Probe",
                             "Locations", "RunCmd", "UndeployBegin", "Stop"])
    if not ctx.quick:
        r = ctx.tlc("ContainerBinds", "MC_ContainerBinds", "MC_ContainerBinds_thorough.cfg", timeout=3000)
        ctx.require(r.ok, "two-copy model: %s %s" % (r.error, r.violated))
    # every specified single copy (invariants checked on the way)
    g = ctx.tlc("ContainerBinds", "MC_ContainerBinds", "Gen_ContainerBinds.cfg", workers=1, coverage=True, timeout=3000)
    ctx.require(g.ok, "single-copy model: %s %s" % (g.error, g.violated))
    ctx.require_coverage(g, ["Copy"])
    lines = g.printed_json()
    scen = {x["scenario"]: x for x in lines if "scenario" in x}
    ops = [x for x in lines if "last" in x]
    ctx.require(len(scen) == 8 and len(ops) > 1500, "generated %d scenarios, %d copies" % (len(scen), len(ops)))
    ctx.count("generated_single_copies", len(ops))
    groups = {}
    for o in ops:
        groups.setdefault((o["sc"], o["cuser"]), []).append(o["last"])
    rng = ctx.rng("copies")
    per = ctx.pick(1, 2)
    traces = []
    total = agree = 0
    strata_all = set()
    names = sorted({sc for sc, _ in groups})
    for (sc, cuser), lasts in sorted(groups.items()):
        if ctx.quick and sc not in ("mixed", "nested") and cuser != ((names.index(sc) + ctx.seed) % 2 == 0):
            continue        # quick: one user flag per scenario (alternating with the seed), both for two of them
        T = scen[sc]["table"]
        lasts = sorted(lasts, key=lambda l: json.dumps(l, sort_keys=True))
        by = {}
        for l in lasts:
            by.setdefault(stratum(T, l), []).append(l)
        chosen = []
        if ctx.quick:
            # one copy per (operation, transfer path) of the group first, then other strata up to the cap
            order = sorted(by.items(), key=lambda kv: json.dumps(kv[0]))
            rng.shuffle(order)
            kinds_seen = set()
            rest = []
            for st, ls in order:
                if (st[0], st[1]) not in kinds_seen:
                    kinds_seen.add((st[0], st[1]))
                    chosen.append((st, rng.choice(ls)))
                else:
                    rest.append((st, ls))
            for st, ls in rest[:max(0, 6 - len(chosen))]:
                chosen.append((st, rng.choice(ls)))
        else:
            for st, ls in sorted(by.items(), key=lambda kv: json.dumps(kv[0])):
                chosen += [(st, l) for l in rng.sample(ls, min(per, len(ls)))]
        for st, _ in chosen:
            strata_all.add((sc, cuser) + st)
        chosen = [l for _, l in chosen]
        rng.shuffle(chosen)
        trs, out = run_group(ctx, "%s_%s" % (sc, "u" if cuser else "o"), T, cuser, scen[sc]["fs"],
                             list(enumerate(chosen, 1)), label=sc)
        traces += trs
        total += out["done"]
        agree += out["agree"]
        ctx.count("copies:%s" % sc, out["done"])
    ctx.count("copy_strata", len(strata_all))
    ctx.count("copies_executed", total)
    ctx.count("copies_agreeing", agree)
    ctx.impl_trace(total)
    kinds = {s[3] for s in strata_all}
    ctx.require(kinds >= {"hostcopy", "hostlink", "ctrcopy", "ctrlink", "stream"}, "transfer kinds covered: %s" % sorted(kinds))
    ctx.sample({"copy": ops[len(ops) // 3]})
    return scen, traces


# ------------------------------------------------------------------------------------------------
# 5. behaviours of the model replayed step by step; traces validated the other way round
# ------------------------------------------------------------------------------------------------

def env_class(env):
    if env["ext"]:
        return "external" if env["given"] else "external-without-id"
    if env["runfails"]:
        return "run-fails"
    if not env["image"]:
        return "image-pulled" if env["pullable"] else "image-unavailable"
    return "plain"


def cli_pairs(trace_events):
    out = []
    for e in trace_events:
        if e.get("e") == "cli":
            out.append((e["cmd"], bool(e.get("ok", True))))
    return out


def replay_behaviour(ctx, name, scen, beh):
    """Drive the real connector along one behaviour of the model.  Returns (trace, steps followed, complete?)."""
    from streamflow.core.exception import WorkflowDefinitionException, WorkflowExecutionException
    from vh import aio
    from vh.sut import cbinds as CB
    st0 = beh[0]["state"]
    env, sc, cuser = st0["env"], st0["sc"], st0["cuser"]
    T, fs = scen[sc]["table"], scen[sc]["fs"]
    ec = env_class(env)
    rig = CB.Rig(ctx.scratch("worlds"), name, T, cuser, env, fs, timeout=ctx.pick(120.0, 300.0))
    trace = [{"e": "begin", "sc": sc, "cuser": cuser, "env": env}]
    res = {"steps": 0, "ok": True}
    det = {"kind": "behaviour", "beh": [{"state": {k: b["state"][k] for k in ("env", "sc", "cuser", "pc", "last", "inst")}} for b in beh],
           "scen": {sc: {"table": T, "fs": fs}}, "name": name}

    def bad(sig, what, **extra):
        res["ok"] = False
        ctx.violation(sig, dict(det, **extra), "%s [scenario %s, %s]" % (what, sc, ec))

    async def main():
        i = 1
        nrun = 0
        try:
            while i < len(beh) and res["ok"]:
                last = beh[i]["state"]["last"]
                op = last["op"]
                if op == "deploy_begin":
                    j = i
                    while beh[j]["state"]["pc"] not in ("deployed", "failed") and j + 1 < len(beh):
                        j += 1
                    group = beh[i:j + 1]
                    final = group[-1]["state"]["pc"]
                    exp = []
                    for g in group:
                        la = g["state"]["last"]
                        if la["op"] == "image_inspect":
                            exp.append(("image_inspect", la["found"]))
                        elif la["op"] in ("pull", "run", "inspect"):
                            exp.append((la["op"], la["ok"]))
                        elif la["op"] == "deploy_end":
                            exp.append(("exec", True))
                    trace.append({"e": "deploy_call"})
                    d = await rig.deploy()
                    evs = lifecycle_events(ctx, rig, d["events"], [], "deploy")
                    trace.extend(evs)
                    trace.append(deploy_ret(rig, d))
                    got = cli_pairs(evs)
                    complete = final in ("deployed", "failed")
                    if (got != exp) if complete else (got[:len(exp)] != exp):
                        bad("deploy:cli-sequence:%s" % ec, "deploy issued docker commands %s, the model's behaviour has %s" % (got, exp), got=got, exp=exp)
                    if any(e.get("cmd") == "run" and e.get("ok") and not e.get("prepared") for e in evs):
                        bad("deploy:prepare_volumes:%s" % ec, "`docker run` found bind sources missing: _prepare_volumes did not create them")
                    if not complete:
                        break
                    if final == "failed":
                        want = WorkflowDefinitionException if env["ext"] else WorkflowExecutionException
                        if not isinstance(d["exc"], want):
                            bad("deploy:outcome:%s" % ec, "deploy must fail with %s, got %r" % (want.__name__, d["exc"]), exc=_exc(d["exc"]) if d["exc"] else None)
                        if rig.conn._instances:
                            bad("deploy:instance-after-failure:%s" % ec, "a failed deploy left instances %s" % list(rig.conn._instances))
                        break
                    if d["exc"] is not None:
                        bad("deploy:outcome:%s" % ec, "deploy raised %s, the model deploys" % _exc(d["exc"]), exc=_exc(d["exc"]))
                        break
                    inst = beh[j]["state"]["inst"]
                    ev = trace[-1]
                    want_binds = sorted([list(b[0]), list(b[1])] for b in inst["binds"])
                    if ev["binds"] != want_binds:
                        bad("deploy:instance:binds", "instance binds %s, container has %s" % (ev["binds"], want_binds))
                    if ev["cuser"] != inst["cuser"]:
                        bad("deploy:instance:current_user", "instance.current_user = %s, container user %s the host user" % (
                            ev["cuser"], "is" if inst["cuser"] else "is not"))
                    for m in T:
                        if m["type"] == "bind" and not os.path.isdir(rig.world.real(m["src"])):
                            bad("deploy:prepare_volumes:%s" % ec, "bind source %s does not exist after deploy" % R(m["src"]))
                    res["steps"] += len(group)
                    i = j + 1
                    continue
                if op == "locations":
                    o = await rig.locations()
                    good = o["exc"] is None and set(o["locs"]) == {rig.cid}
                    if good:
                        loc = o["locs"][rig.cid]
                        mounts = sorted([rig.world.abstract(k), rig.world.abstract(v)] for k, v in loc.location.mounts.items())
                        want_mp = {"/", "/etc/resolv.conf", "/etc/hostname", "/etc/hosts"} | {
                            rig.world.real(m["dst"]) for m in T if m["type"] != "tmpfs"}
                        storage = loc.hardware.storage
                        good = (mounts == sorted([list(b[0]), list(b[1])] for b in last["binds"]) and loc.stacked
                                and set(storage) == want_mp and all(st.size == 1024.0 for st in storage.values())
                                and loc.wraps is not None and loc.wraps.location.local and loc.hardware.cores == 4.0
                                and loc.hardware.memory == 4096.0 and loc.location.hostname == "172.17.0.2")
                    trace.append({"e": "locations", "ok": bool(good)})
                    if not good:
                        bad("get_available_locations:value", "get_available_locations returned %r (%r)" % (o["locs"], o["exc"]))
                elif op == "run_cmd":
                    nrun += 1
                    o = await rig.run_cmd(last["mode"], nrun)
                    for ev in o["events"]:
                        if ev.get("e") == "cli" and "argv" in ev and ev["argv"][:1] == ["exec"]:
                            words = [x for x in ev["argv"][1:] if not x.startswith("-")]
                            trace.append({"e": "cli", "cmd": "exec", "mine": bool(words) and words[0] == rig.cid, "mode": "cmd"})
                    good = o["exc"] is None and tuple(o["res"] or ()) == tuple(o["expected"])
                    nexec = sum(1 for ev in o["events"] if ev.get("e") == "cli" and "argv" in ev)
                    if good and last["mode"] == "job" and nexec != 1:
                        good = False
                    trace.append({"e": "run_cmd", "mode": last["mode"], "ok": bool(good)})
                    if not good:
                        bad("run:%s:result" % last["mode"], "run(%s) returned %r (%r), expected %r; docker commands: %d" % (
                            last["mode"], o["res"], o["exc"], o["expected"], nexec))
                elif op in ("l2r", "r2l", "r2r"):
                    obs = await rig.copy(op, last["src"], last["dst"], last["ro"])
                    ctx.case(("bcopy", sc, cuser, json.dumps([op, last["src"], last["dst"], last["ro"]])))
                    if not check_copy(ctx, rig, T, last, obs, name, dict(det, step=i)):
                        res["ok"] = False
                        break
                    found, streams = CB.decision_of(rig.world, obs["events"])
                    copy_event(trace, last, found, streams, obs["events"], rig)
                elif op == "undeploy_begin":
                    trace.append({"e": "undeploy_call"})
                    u = await rig.undeploy()
                    evs = lifecycle_events(ctx, rig, u["events"], [], "undeploy")
                    trace.extend(evs)
                    still = rig.cid in u["running"]
                    trace.append({"e": "undeploy_ret", "ok": u["exc"] is None, "running": still})
                    got = cli_pairs(evs)
                    exp = [] if env["ext"] else [("stop", True)]
                    if got != exp or u["exc"] is not None:
                        bad("undeploy:cli-sequence:%s" % ec, "undeploy issued %s (%r), the model has %s" % (got, u["exc"], exp))
                    if still != bool(env["ext"]):
                        bad("undeploy:%s" % ("stopped-external-container" if env["ext"] else "container-left-running"),
                            "after undeploy the container is %srunning" % ("" if still else "not "))
                    res["steps"] += 2 if not env["ext"] else 1
                    break
                res["steps"] += 1
                i += 1
        finally:
            await rig.close()
    _, exc = aio.run(main(), timeout=None)
    if exc is not None:
        raise exc
    return trace, res


def part_behaviours(ctx, scen):
    from vh import tlc as vtlc
    d = ctx.scratch("sim")
    num = ctx.pick(150, 500)
    r = ctx.tlc("ContainerBinds", "MC_ContainerBinds", "Sim_ContainerBinds.cfg", workers=1, count=False, timeout=1800,
                simulate={"num": num, "depth": 20, "file": os.path.join(d, "b")})
    ctx.require(r.error is None, "simulation: %s" % r.error)
    behs = []
    for fn in sorted(os.listdir(d)):
        beh = vtlc.parse_sim_file(os.path.join(d, fn))
        if len(beh) >= 2:
            behs.append(beh)
    ctx.require(len(behs) >= num // 2, "only %d simulated behaviours" % len(behs))
    by = {}
    for b in behs:
        by.setdefault(env_class(b[0]["state"]["env"]), []).append(b)
    want = ctx.pick({"plain": 3, "image-pulled": 1, "external": 2, "image-unavailable": 1, "run-fails": 1, "external-without-id": 1},
                    {"plain": 16, "image-pulled": 5, "external": 8, "image-unavailable": 2, "run-fails": 2, "external-without-id": 2})
    rng = ctx.rng("behaviours")
    chosen = []
    for ec, n in sorted(want.items()):
        cands = by.get(ec, [])
        ctx.require(cands, "no simulated behaviour with environment %s" % ec)

        def score(b):
            ops = [x["state"]["last"]["op"] for x in b]
            return (ops.count("l2r") + ops.count("r2l") + ops.count("r2r") > 0, "stop" in ops or "undeploy_begin" in ops,
                    len(set(ops)))
        rng.shuffle(cands)
        cands.sort(key=score, reverse=True)
        seen_sc = set()
        picked = []
        for b in cands:          # different scenarios first
            key = (b[0]["state"]["sc"], b[0]["state"]["cuser"])
            if key not in seen_sc:
                seen_sc.add(key)
                picked.append(b)
            if len(picked) == n:
                break
        chosen += [(ec, b) for b in picked]
    traces = []
    actions = set()
    steps = 0
    for k, (ec, b) in enumerate(chosen):
        tr, res = replay_behaviour(ctx, "b%d_%s" % (k, ec), scen, b)
        steps += res["steps"]
        ctx.count("behaviours:%s" % ec)
        for x in b[1:]:
            actions.add(x["state"]["last"]["op"])
        if res["ok"]:
            traces.append(tr)
    ctx.count("behaviour_steps_followed", steps)
    ctx.impl_trace(len(chosen))
    need = {"deploy_begin", "prepare", "image_inspect", "pull", "run", "inspect", "deploy_end", "locations", "run_cmd",
            "undeploy_begin", "stop"}
    ctx.require(need <= actions, "behaviours never took %s" % sorted(need - actions))
    ctx.sample({"behaviour": [x["state"]["last"]["op"] for x in chosen[0][1][1:]], "environment": chosen[0][0]})
    return traces


def validate_traces(ctx, traces):
    from vh import trace as vtrace
    if not traces:
        return
    verdicts = vtrace.validate(ctx, "ContainerBinds", "Trace_ContainerBinds", "Trace_ContainerBinds.cfg", traces,
                               workers=ctx.pick(4, "auto"), timeout=3000, max_rounds=12)
    n_ok = 0
    for tr, v in zip(traces, verdicts):
        if v and v.get("ok"):
            n_ok += 1
            continue
        ev = (v or {}).get("event")
        cls = "?"
        if isinstance(ev, dict):
            cls = ev.get("cmd") or ev.get("op") or ev.get("e")
        ctx.violation("trace:%s:%s" % ((v or {}).get("reason", "rejected"), cls),
                      {"kind": "trace", "trace": tr, "verdict": {k: w for k, w in (v or {}).items() if k != "state"}},
                      "the recorded run is not a behaviour of ContainerBinds: %s at event %s" % ((v or {}).get("reason"), ev))
    ctx.count("traces_accepted", n_ok)


# ------------------------------------------------------------------------------------------------
def run(ctx):
    os.chdir(ctx.scratch("cwd"))        # _prepare_volumes would create relative directories in the cwd
    ctx.exhaustive = False
    ctx.rule = ("TLC enumerates mount tables x paths, parser texts, location assignments, life-cycle behaviours and every "
                "specified single copy of eight mount scenarios; each is put to the real functions / the real DockerConnector "
                "over a fake docker CLI with mount-namespace containers; a copy case is non-trivial (all are: source exists, "
                "target fresh)")
    timing = ctx.extra.setdefault("timing_s", {})

    def timed(name, f, *a):
        t0 = time.time()
        r = f(*a)
        timing[name] = round(time.time() - t0, 1)
        return r
    timed("paths", part_paths, ctx)
    timed("parsers_effective_hardware", part_misc, ctx)
    scen, traces = timed("model_and_copies", part_model_and_copies, ctx)
    traces += timed("behaviours", part_behaviours, ctx, scen)
    timed("trace_validation", validate_traces, ctx, traces)
    ctx.assumptions += [
        "docker cleans mount paths (no trailing slash, no '.' / '..') in `docker inspect`; mount points reported by `df` are clean",
        "a tmpfs mount is invisible to the connector (df type tmpfs is skipped): nothing is demanded for paths it governs",
        "when a deeper mount shadows the container name of a host path, which name (if any) _get_container_path returns is not constrained",
    ]


def replay(ctx, data):
    from streamflow.deployment.connector import container as conn_mod
    from vh.sut import cbinds as CB
    d = data["detail"]
    k = d.get("kind")
    if k == "path":
        check_path_case(ctx, conn_mod, CB.bare_connector({}), d["T"], d["q"], d["trailing"], "replay")
    elif k == "bind":
        check_bind_case(ctx, conn_mod, d["case"])
    elif k == "mount":
        check_mount_case(ctx, conn_mod, d["case"])
    elif k == "eff":
        check_eff_case(ctx, d["case"])
    elif k == "hw":
        check_hw_case(ctx, d["case"], ctx.scratch("worlds"), 0)
    elif k == "group_deploy":
        os.chdir(ctx.scratch("cwd"))
        run_group(ctx, "replay", d["table"], d["cuser"], d["init_fs"], [], env=d["env"], label=d["scenario"])
    elif k == "copy":
        os.chdir(ctx.scratch("cwd"))
        run_group(ctx, "replay", d["table"], d["cuser"], d["init_fs"], [(0, d["last"])], env=d["env"], label=d["scenario"])
    elif k == "behaviour":
        os.chdir(ctx.scratch("cwd"))
        replay_behaviour(ctx, "replay", d["scen"], d["beh"])
    elif k == "trace":
        validate_traces(ctx, [d["trace"]])
    else:
        run(ctx)
