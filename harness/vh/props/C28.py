"""C28 - steps get the binding of their nearest bound ancestor (module Binding).

Model: specs/Binding/Binding.tla transcribes WorkflowConfig.put / set_targets / propagate and
_check_stacked_deployments / _get_workdir and TLC checks, for every set of at most MaxB bindings over the
15 paths of depth <= 3 on {a,b} (step and port bindings on the same paths) and for every wraps function
over three deployments x working-directory placement, that the transcription computes the declarative
meaning of the statement (Resolve / Cyclic / Workdir).
Binding: every configuration TLC visited is written as a StreamFlow-file dictionary, loaded through the
real WorkflowConfig, and get_binding_config is asked for every path; targets, working directories and the
raised exception class are compared with the declarative answers printed by TLC.
"""
from __future__ import annotations

import json
import signal

LEVEL = "translation_validation"

A, B = "a", "b"
D1 = [(), (A,), (B,)]
D2 = D1 + [(A, A), (A, B), (B, A), (B, B)]
D3 = D2 + [(A, A, A), (A, A, B), (A, B, A), (A, B, B), (B, A, A), (B, A, B), (B, B, A), (B, B, B)]
D4 = D3 + [(A, A, A, A), (A, A, B, A), (A, B, A, B), (B, A, A, A), (B, B, B, B), (A, A, A, B)]
PATHSEQ = {"D3": D3, "D4": D4}
KINDS = ("step", "port")
DEPS = ("D1", "D2", "D3")            # the model's names; the file uses d1..d3 (schema: ^[a-z][a-zA-Z0-9._-]*$)


def pstr(p):
    return "/" + "/".join(p)


class _Watchdog:
    """The code under test is synchronous pure Python: an alarm turns an endless loop into an observation."""

    def __init__(self, seconds=30):
        self.seconds = seconds

    def __enter__(self):
        def boom(signum, frame):
            raise TimeoutError("watchdog")
        self.old = signal.signal(signal.SIGALRM, boom)
        signal.setitimer(signal.ITIMER_REAL, self.seconds)

    def __exit__(self, *a):
        signal.setitimer(signal.ITIMER_REAL, 0)
        signal.signal(signal.SIGALRM, self.old)
        return False


def _base(bindings, deployments):
    return {"version": "v1.0",
            "workflows": {"wf": {"type": "cwl", "config": {"file": "main.cwl"}, "bindings": bindings}},
            "deployments": deployments}


def _dep(extra=None):
    d = {"type": "docker", "config": {"image": "busybox"}}
    d.update(extra or {})
    return d


# ------------------------------------------------------------------------------------------------
# part 1: binding trees
# ------------------------------------------------------------------------------------------------

def tree_file(paths, keys, rng):
    """The StreamFlow file for a set of binding keys (indices into the model's Keys), in a shuffled order."""
    bindings, deployments, targets = [], {}, {}
    for i in keys:
        path, kind = paths[(i - 1) // 2], KINDS[(i - 1) % 2]
        names = ["t%d" % i] + (["t%db" % i] if kind == "step" and i % 4 == 1 else [])
        for n in names:
            deployments[n] = _dep({"workdir": "/wd/%s" % n} if i % 3 else None)
        if kind == "step":
            tg = [{"deployment": n} for n in names]
            bindings.append({"step": pstr(path), "target": tg if len(tg) > 1 else tg[0]})
            targets[path] = names
        else:
            bindings.append({"port": pstr(path), "target": {"deployment": names[0], "workdir": "/port/%d" % i}})
    rng.shuffle(bindings)
    return _base(bindings, deployments), targets


def _targets_of(bc):
    from streamflow.core.deployment import LocalTarget
    out = []
    for t in bc.targets:
        out.append("<local>" if isinstance(t, LocalTarget) else t.deployment.name)
    return out


def check_tree(ctx, pathset, keys, resolved, seed_key, validate=False):
    from streamflow.config.config import WorkflowConfig
    from streamflow.deployment.utils import get_binding_config
    paths = PATHSEQ[pathset]
    cfg, targets = tree_file(paths, keys, ctx.rng("order/%s" % seed_key))
    detail = {"kind": "tree", "pathset": pathset, "keys": list(keys), "resolved": list(resolved),
              "bindings": json.loads(json.dumps(cfg["workflows"]["wf"]["bindings"]))}
    if validate:
        from streamflow.config.validator import SfValidator
        try:
            SfValidator().validate(json.loads(json.dumps(cfg)))
        except Exception as e:
            ctx.require(False, "generated StreamFlow file is not schema-valid: %s" % e)
    try:
        with _Watchdog():
            wc = WorkflowConfig("wf", cfg)
    except Exception as e:
        ctx.violation("workflow-config:raises:%s" % type(e).__name__, detail,
                      "WorkflowConfig raises %r for a file with acyclic deployments and bindings %s" % (e, detail["bindings"]))
        return False
    good = True
    has_port = any((i - 1) % 2 == 1 for i in keys)
    for j, p in enumerate(paths):
        exp = ["<local>"] if resolved[j] == 0 else targets[paths[resolved[j] - 1]]
        try:
            with _Watchdog():
                got = _targets_of(get_binding_config(pstr(p), "step", wc))
        except Exception as e:
            got = "raise:%s" % type(e).__name__
        if got != exp:
            good = False
            if isinstance(got, str):
                sig = "resolve:%s" % got
            elif exp == ["<local>"]:
                sig = "resolve:binding-used-where-none-applies"
            elif got == ["<local>"]:
                sig = "resolve:binding-lost%s" % (":port-bindings-present" if has_port else "")
            elif sorted(got) == sorted(exp):
                sig = "resolve:target-order"
            else:
                sig = "resolve:wrong-ancestor%s" % (":port-bindings-present" if has_port else "")
            ctx.violation(sig, dict(detail, path=pstr(p), got=got, expected=exp),
                          "step %s gets targets %s, the nearest bound ancestor %s gives %s (bindings: %s)" % (
                              pstr(p), got, pstr(paths[resolved[j] - 1]) if resolved[j] else "(none)", exp,
                              ", ".join("%s %s" % (KINDS[(i - 1) % 2], pstr(paths[(i - 1) // 2])) for i in keys)))
            break
    return good


# ------------------------------------------------------------------------------------------------
# part 2: stacked deployments
# ------------------------------------------------------------------------------------------------

def wraps_file(w, h, form, own):
    deployments = {}
    for k, d in enumerate(DEPS):
        extra = {}
        if h[k]:
            extra["workdir"] = "/wd/%s" % d
        if w[k] != "none":
            extra["wraps"] = w[k].lower() if form == "string" else {"deployment": w[k].lower(), "service": "svc"}
        deployments[d.lower()] = _dep(extra)
    tg = [dict({"deployment": d.lower()}, **({"workdir": "/tw/%s" % d} if own else {})) for d in DEPS]
    return _base([{"step": "/", "target": tg}], deployments)


def check_wraps(ctx, w, h, cyc, wd, form, own, validate=False):
    from streamflow.config.config import WorkflowConfig
    from streamflow.deployment.utils import get_binding_config
    cfg = wraps_file(w, h, form, own)
    detail = {"kind": "wraps", "w": list(w), "h": list(h), "cyc": cyc, "wd": list(wd), "form": form, "own": own}
    shape = "self-reference" if any(w[k] == DEPS[k] for k in range(3)) else "cycle" if cyc else "acyclic"
    if validate:
        from streamflow.config.validator import SfValidator
        try:
            SfValidator().validate(json.loads(json.dumps(cfg)))
        except Exception as e:
            ctx.require(False, "generated StreamFlow file is not schema-valid: %s" % e)
    exc = None
    wc = None
    try:
        with _Watchdog():
            wc = WorkflowConfig("wf", cfg)
    except Exception as e:
        exc = type(e).__name__
    wtxt = ", ".join("%s wraps %s" % (DEPS[k], w[k]) for k in range(3) if w[k] != "none") or "no wraps"
    if cyc:
        if exc != "WorkflowDefinitionException":
            ctx.violation("cyclic-wraps:%s:%s" % (shape, "accepted" if exc is None else "raises:" + exc), detail,
                          "cyclic wraps chain (%s) is %s instead of being rejected with WorkflowDefinitionException"
                          % (wtxt, "accepted" if exc is None else "answered with " + exc))
            return False
        return True
    if exc is not None:
        ctx.violation("acyclic-wraps:rejected:%s" % exc, detail, "acyclic wraps chain (%s) raises %s" % (wtxt, exc))
        return False
    try:
        with _Watchdog():
            bc = get_binding_config("/a/b", "step", wc)
            got = [(t.deployment.name.upper(), t.workdir, t.deployment.workdir,
                    t.deployment.wraps.deployment.upper() if t.deployment.wraps else "none") for t in bc.targets]
    except Exception as e:
        ctx.violation("workdir:raises:%s" % type(e).__name__, detail, "get_binding_config raises %r (%s)" % (e, wtxt))
        return False
    declared = {"/wd/%s" % d for d in DEPS} | {"/tw/%s" % d for d in DEPS}
    good = len(got) == 3
    for k, d in enumerate(DEPS):
        if not good:
            break
        name, twd, dwd, wr = got[k]
        exp_dwd = None if wd[k] == "none" else "/wd/%s" % wd[k]
        ok = name == d and wr == w[k] and dwd == exp_dwd
        if own:
            ok = ok and twd == "/tw/%s" % d
        elif exp_dwd is not None:
            ok = ok and twd == exp_dwd
        else:
            ok = ok and bool(twd) and twd not in declared            # some default, never somebody else's directory
        if not ok:
            good = False
            inh = "own" if own else "own-deployment" if wd[k] == d else "inherited" if wd[k] != "none" else "default"
            ctx.violation("workdir:%s" % inh, dict(detail, deployment=d, got=list(got[k])),
                          "target on %s (%s; workdirs on %s) gets workdir %s / deployment workdir %s, expected %s" % (
                              d, wtxt, [DEPS[i] for i in range(3) if h[i]], twd, dwd,
                              "/tw/%s" % d if own else exp_dwd or "a default"))
    if len(got) != 3:
        ctx.violation("workdir:targets", dict(detail, got=got), "three targets declared, %d returned" % len(got))
    return good


# ------------------------------------------------------------------------------------------------

def run(ctx):
    ctx.rule = ("TLC visits every set of <= MaxB bindings (step/port) over the 15 paths of depth <= 3 and every wraps function over "
                "3 deployments x workdir placement, checking that the transcribed put/set_targets/propagate/_check_stacked_"
                "deployments/_get_workdir agree with Resolve/Cyclic/Workdir; every visited configuration is loaded as a StreamFlow "
                "file through the real WorkflowConfig and get_binding_config is compared for every path; a case is one "
                "(configuration, query path) pair, non-trivial when at least one step binding is declared")
    # part 2 first (small)
    r = ctx.tlc("Binding", "MC_Binding", "MC_Binding_wraps.cfg", timeout=1800)
    ctx.require(r.ok, "Binding (wraps): %s %s is a specification error\n%s" % (r.error, r.violated, r.stdout[-1500:]))
    lines = [x for x in r.printed_json() if isinstance(x, dict) and "w" in x]
    ctx.require(len(lines) == 4 ** 3 * 2 ** 3, "expected 512 wraps configurations, got %d" % len(lines))
    ncyc = 0
    for n, x in enumerate(lines):
        ncyc += bool(x["cyc"])
        for form in ("string", "object"):
            for own in (False, True):
                ctx.case(("wraps", json.dumps([x["w"], x["h"], form, own])), nontrivial=any(v != "none" for v in x["w"]))
                check_wraps(ctx, x["w"], x["h"], x["cyc"], x["wd"], form, own, validate=(n % 16 == 0))
    ctx.count("wraps_configurations", len(lines))
    ctx.count("wraps_cyclic", ncyc)
    ctx.count("wraps_self_reference", sum(1 for x in lines if any(x["w"][k] == DEPS[k] for k in range(3))))
    ctx.count("wraps_inherited_workdir", sum(1 for x in lines if not x["cyc"] and any(x["wd"][k] not in ("none", DEPS[k]) for k in range(3))))
    ctx.require(ncyc > 0 and ctx.counters["wraps_inherited_workdir"] > 0, "vacuous wraps enumeration")
    ctx.sample(lines[37])
    ctx.impl_trace(len(lines) * 4)
    ctx.programs += len(lines) * 4
    # part 1
    cfgname = ctx.pick("MC_Binding_tree3.cfg", "MC_Binding_tree4.cfg")
    r = ctx.tlc("Binding", "MC_Binding", cfgname, timeout=3000)
    ctx.require(r.ok, "Binding (tree): %s %s is a specification error\n%s" % (r.error, r.violated, r.stdout[-1500:]))
    lines = [x for x in r.printed_json() if isinstance(x, dict) and "b" in x]
    ctx.require(len(lines) == r.distinct and len(lines) >= 4526, "tree states %d, lines %d" % (r.distinct, len(lines)))
    _bind_tree_lines(ctx, "D3", lines, stride=ctx.pick(97, 197))
    ctx.exhaustive = True
    if not ctx.quick:
        # deeper paths, up to 8 bindings: random walks of the same state machine
        cfg = "CONSTANTS MaxB = 8  Deps <- MCDeps  PathSeq <- D4\nINIT TreeInit\nNEXT TreeNext\n" \
              "INVARIANT CodeComputesResolve\nINVARIANT PropagateAloneSuffices\nINVARIANT EmitTree\n"
        r = ctx.tlc("Binding", "MC_Binding", "sim.cfg", files={"sim.cfg": cfg}, workers=1, simulate={"num": 1500, "depth": 9},
                    timeout=3000)
        ctx.require(r.error is None, "Binding (simulation): %s %s\n%s" % (r.error, r.violated, r.stdout[-1500:]))
        seen, uniq = set(), []
        for x in r.printed_json():
            if isinstance(x, dict) and "b" in x and tuple(x["b"]) not in seen:
                seen.add(tuple(x["b"]))
                uniq.append(x)
        ctx.require(len(uniq) > 1000, "simulation produced only %d configurations" % len(uniq))
        _bind_tree_lines(ctx, "D4", uniq, stride=197)
    ctx.disagreements_checked = ctx.states
    ctx.assumptions += [
        "each (path, kind) is bound at most once (a second binding of the same key simply replaces the first)",
        "binding paths are absolute and normalised; the order of the bindings in the file is shuffled by the harness",
        "when no working directory is found along the wraps chain any default is accepted, provided it is not the "
        "directory declared for another deployment",
        "port queries (get_binding_config(..., 'port')) are not judged: the statement speaks about steps",
    ]


def _bind_tree_lines(ctx, pathset, lines, stride):
    paths = PATHSEQ[pathset]
    for n, x in enumerate(lines):
        keys = x["b"] or []
        nstep = sum(1 for i in keys if (i - 1) % 2 == 0)
        mixed = nstep and nstep < len(keys)
        for j in range(len(paths)):
            ctx.case((pathset, json.dumps(keys), j), nontrivial=nstep > 0)
        check_tree(ctx, pathset, keys, x["r"], json.dumps(keys), validate=(n % stride == 0))
        ctx.count("tree_configurations:%s" % pathset)
        if mixed:
            ctx.count("tree_configurations_step_and_port:%s" % pathset)
        if any(x["r"][j] and paths[x["r"][j] - 1] != paths[j] and len(paths[x["r"][j] - 1]) > 0 for j in range(len(paths))):
            ctx.count("tree_configurations_inner_ancestor_used:%s" % pathset)
    ctx.require(ctx.counters.get("tree_configurations_step_and_port:%s" % pathset, 0) > 0
                and ctx.counters.get("tree_configurations_inner_ancestor_used:%s" % pathset, 0) > 0, "vacuous tree enumeration")
    big = [x for x in lines if len(x["b"] or []) >= 3 and sum(1 for v in x["r"] if v) > 4]
    if big:
        x = big[len(big) // 2]
        ctx.sample({"bindings": ["%s %s" % (KINDS[(i - 1) % 2], pstr(paths[(i - 1) // 2])) for i in x["b"]],
                    "resolved": {pstr(paths[j]): (pstr(paths[v - 1]) if v else "local") for j, v in enumerate(x["r"])}})
    ctx.impl_trace(len(lines))
    ctx.programs += len(lines)


def replay(ctx, data):
    d = data["detail"]
    if d.get("kind") == "tree":
        check_tree(ctx, d["pathset"], d["keys"], d["resolved"], json.dumps(d["keys"]), validate=False)
    elif d.get("kind") == "wraps":
        check_wraps(ctx, d["w"], d["h"], d["cyc"], d["wd"], d["form"], d["own"])
    else:
        run(ctx)
