"""C04 (module Dataflow) - see vh/sut/dflow_check.py and DESIGN.md section 5."""
from vh.sut import dflow_check

LEVEL = "model_checking"


def run(ctx):
    ctx.rule = ("generated well-formed workflows (shape library + random grammar, with single-job failure plans); TLC explores "
                "every interleaving of each network (Dataflow.tla, run-to-quiescence) with invariants and liveness; each workflow is "
                "executed for real under seeded completion delays and every recorded trace is validated by Trace_Dataflow; a case "
                "is one real execution, distinct by its recorded event sequence")
    dflow_check.run_all(ctx, "C04")
    # loops: a failing job inside a loop body (module LoopFail: the loop network + ExecuteStep + executor)
    from vh.sut import loop_fail
    loop_fail.check_failing_loops(ctx, focus="C04")
    ctx.assumptions += ["run-to-quiescence: pure asyncio continuations finish before the next I/O completion is processed (exhaustive runs only; trace acceptance uses the permissive interleaving)",
                        "generated networks follow the translator's well-formedness (aligned multi-input job steps, paired scatter/gather)"]


def replay(ctx, data):
    dflow_check.replay(ctx, data, "C04")
