"""C16 - recovered runs produce the same outputs as failure-free runs (module Recovery).

Model: specs/Recovery/Recovery.tla.  TLC enumerates every failure plan within the tier's bounds (failing
(job, phase) pairs x counts x soft/fail-stop) over the shape library, checks the module's properties on the
complete state graph (every run of a plan whose jobs fail fewer times than max_retries ends in `done` with the
sink's output instance available - OutputThere / ExhaustedRaises / Terminates) and emits every terminal state.
Binding: each chosen plan is executed on the REAL engine (StreamFlowExecutor + RollbackFailureManager, volatile
local deployments, harness injectors: soft = the phase fails, fail-stop = the location's volatile directory is
wiped first) under seeded completion delays; the run must return and the CONTENT of the workflow outputs must
equal that of the failure-free run of the same workflow.  max_retries is far above every count (interpretation
note in DESIGN.md: the statement's hypothesis bounds failures per job, not roll-backs of ancestors).
"""
from __future__ import annotations

import json

from vh.sut import recov_model as rm

LEVEL = "model_checking"


def check_case(ctx, case, expected):
    det = {k: case.get(k) for k in ("shape", "plan", "limit", "dummy", "serial", "seed")}
    sig = case["sig"]
    if case["hang"]:
        ctx.violation("c16:hang:%s" % sig, dict(det, events_tail=case.get("events_tail")),
                      "every job fails fewer times than the limit, yet the run never ended (no event, no CPU activity)")
        return False
    o = case["o"]
    det.update({"observed": o, "error": case["error"], "natural_failures": case["natural"]})
    if case["left"]:
        ctx.count("plans_with_unreached_failures")
    if o["outcome"] != "done":
        ctx.violation("c16:raised:%s" % sig, det, "every job fails fewer times than the limit, yet the executor raised: %s" % case["error"])
        return False
    if case["outputs"] != expected:
        ctx.violation("c16:outputs-differ:%s" % sig, dict(det, outputs=case["outputs"], expected=expected),
                      "the run returned but its outputs differ from the failure-free run: %s instead of %s" % (
                          json.dumps(case["outputs"])[:200], json.dumps(expected)[:200]))
        return False
    return True


def check_loop(ctx, n, pre, plan, seed):
    expected = rm.loop_expected(ctx, n, pre)
    obs = rm.loop_case(ctx, n, pre, plan, seed)
    sig = rm.loop_plan_sig(plan)
    det = {"loop": [n, pre], "plan": plan, "seed": seed, "outcome": obs["outcome"], "error": obs["error"], "attempts": obs["attempts"],
           "natural_failures": obs["natural"], "outputs": obs["outputs"], "expected": expected, "events_tail": obs["events"][-8:]}
    if obs["outcome"] == "hang":
        ctx.count("hangs")
        ctx.violation("c16:hang:%s" % sig, det, "pipeline -> loop: every job fails fewer times than the limit, yet the run never ended")
        return False
    if obs["outcome"] != "return":
        ctx.violation("c16:raised:%s" % sig, det, "pipeline -> loop: every job fails fewer times than the limit, yet the executor raised: %s" % obs["error"])
        return False
    if obs["outputs"] != expected:
        ctx.violation("c16:outputs-differ:%s" % sig, det, "pipeline -> loop: outputs %s differ from the failure-free run %s" % (
            json.dumps(obs["outputs"])[:200], json.dumps(expected)[:200]))
        return False
    return True


def run(ctx):
    ctx.rule = ("TLC enumerates every failure plan with <=k failing (job,phase) pairs x counts 1..m x {soft, fail_stop} per shape "
                "(pipelines 1..5, two-location pipelines, scatter/gather 1..4); the chosen plans run on the real engine and the output "
                "contents are compared with the failure-free run; non-trivial = at least one injected failure")
    specs = rm.c16_specs(ctx)
    preds = rm.model_runs(ctx, [(s, dict(kw, live=ctx.quick and s in ("pipe3",) or (not ctx.quick and s in ("pipe2", "scat2")))) for s, kw, _ in specs])
    for shape, d in preds.items():
        bad = [k for k, recs in d.items() if any(r["outcome"] != "done" for r in recs)]
        ctx.require(not bad, "model: a plan below the limit does not complete: %s" % bad[:3])
    cases = rm.c16_cases(ctx, preds, specs)
    n_fs = n_soft = 0
    for i, (shape, k, serial) in enumerate(cases):
        recs = preds[shape][k]
        expected = rm.expected_outputs(ctx, shape)
        case = rm.run_case(ctx, shape, recs, serial=serial, seed=ctx.seed * 100003 + i)
        plan = recs[0]["plan"] or {}
        ctx.case((shape, k), nontrivial=bool(plan))
        ctx.impl_trace(1)
        check_case(ctx, case, expected)
        if case["hang"]:
            ctx.count("hangs")
            if ctx.counters["hangs"] >= 8:
                ctx.count("aborted_after_8_hangs(remaining plans not run)")
                break
        fs = any(v[1] == "fail_stop" for v in plan.values())
        n_fs += fs
        n_soft += (not fs and bool(plan))
        ctx.count("real:%s" % shape)
        ctx.count("real:%s" % ("serialized" if serial else "free-running"))
        if plan and not case["hang"] and case["natural"]:
            ctx.count("runs_with_natural_failures(lost inputs)")
        if i in (5, 60, 100):
            ctx.sample({"shape": shape, "plan": plan, "outcome": None if case["hang"] else case["o"]["outcome"],
                        "outputs": case.get("outputs"), "attempts": None if case["hang"] else case["o"]["attempts"]})
    # ---- pipeline -> loop shapes: no TLA+ model of loops; these runs are bound by the outputs oracle only
    for i, (n, pre, plan) in enumerate(rm.loop_plans(ctx)):
        if ctx.counters.get("hangs", 0) >= 8:
            break
        check_loop(ctx, n, pre, plan, ctx.seed * 100003 + 7000 + i)
        ctx.case(("loop", n, pre, json.dumps(plan, sort_keys=True)), nontrivial=True)
        ctx.impl_trace(1)
        ctx.count("real:loop%d%s" % (n, "p" * pre))
        n_fs += any(v[0] == "fail_stop" for v in plan.values())
    ctx.count("plans_with_fail_stop", n_fs)
    ctx.count("plans_soft_only", n_soft)
    ctx.require(n_fs >= 20 and n_soft >= 10, "vacuous selection: %d fail-stop / %d soft plans" % (n_fs, n_soft))
    ctx.exhaustive = False
    ctx.assumptions += ["volatile local deployments (one directory per location); workflow inputs on a stable deployment",
                        "single-input jobs and scatter/gather; fail-stop plans on scatter shapes run one job at a time (vh.sut.recov.Serializer); "
                        "concurrent fail-stop recoveries are the subject of C19",
                        "pipeline -> loop shapes (1-2 upstream jobs, 2-3 iterations, engine-level wiring of tests/test_recovery.py::test_loop with "
                        "harness-owned steps) run free under seeded delays and are bound by the outputs-equal-failure-free oracle only (no TLA+ model of loops)"]


def replay(ctx, data):
    d = data["detail"]
    if "loop" in d:
        ok = check_loop(ctx, d["loop"][0], d["loop"][1], d["plan"], d.get("seed", 0))
        print(json.dumps({"replayed": d["plan"], "ok": ok}))
        return
    shape, plan = d["shape"], d.get("plan") or {}
    mt = max([int(v[0]) for v in plan.values()] or [1])
    preds = rm.model_runs(ctx, [(shape, dict(limit=d["limit"], maxpairs=max(1, len(plan)), maxtimes=mt))])
    k = rm.plan_key(plan) + "@%s" % d["limit"]
    ctx.require(k in preds[shape], "replay: plan not generated by the model: %s" % k)
    case = rm.run_case(ctx, shape, preds[shape][k], serial=bool(d.get("serial")), seed=d.get("seed", 0))
    check_case(ctx, case, rm.expected_outputs(ctx, shape))
    print(json.dumps({"replayed": k, "hang": case["hang"], "outputs": case.get("outputs")})[:600])
