"""C26 - deployments follow a safe lifecycle under concurrent requests (module Deployment).

Model: specs/Deployment/Deployment.tla - DefaultDeploymentManager + FutureConnector as tasks (frame stacks,
run-to-suspension steps) on an asyncio-faithful FIFO ready queue; the environment decides when requests arrive
(Start) and when connector calls complete (IODone).  TLC checks the statement's clauses on every interleaving.

Binding (B-env, lock-step): the REAL manager runs on a single-stepping event loop (vh/sut/deploy_sut.py) with
gated fake connectors.  Behaviours come from TLC: (a) the COMPLETE transition graph of small scenarios (every
transition is replayed at least once), (b) counterexamples of the clause checks, (c) simulated behaviours of the
large scenarios.  After EVERY action the projection of the real state (requests returned/raised/pending, the four
maps with event / set / connector identities, every connector's state and call counts, the length of the loop's
ready queue) is compared with the model state, and the clauses are judged on the REAL observations.

The specification is parameterised by repairs (`Fixes`); /repo contains the six repairs and conforms to
Fixes = {A..F} (the manager before the repairs conformed to Fixes = {}).  An implementation is followed in lock step
if it conforms to one variant; the statement's clauses are judged on the real behaviour in any case, so a tree
that loses a repair fails with the clause violation that repair had cured.
"""
from __future__ import annotations

import hashlib
import itertools
import json
import os
from concurrent.futures import ThreadPoolExecutor

import threading

LEVEL = "model_checking"
_WD_LOCK = threading.Lock()


def _tlc(ctx, cfg, files, **kw):
    """ctx.tlc from worker threads (Ctx.spec_workdir numbers its directories by listing the scratch dir: serialise it)."""
    with _WD_LOCK:
        wd = ctx.spec_workdir("Deployment", files)
    return ctx.tlc("Deployment", "MC_Deployment", cfg, workdir=wd, **kw)
ALL_FIXES = ("A", "B", "C", "D", "E", "F")
KINDS = ("deploy", "undeploy", "uall", "use")
LOCALN = "__LOCAL__"
CLAUSES = {"once": "DeployedAtMostOnce", "onelive": "OneLivePerName", "deployret": "DeployReturnsDeployed",
           "useret": "UseReturnsDeployed", "wrap": "NoUndeployUnderLiveWrapper", "uall": "UndeployAllExactlyOnce",
           "hang": "NoHang"}
INVARIANTS = ["ModelOK", "DeployedAtMostOnce", "OneLivePerName", "NoUndeployUnderLiveWrapper", "NoHang"]
ACTIONPROPS = ["DeployReturnsDeployed", "UseReturnsDeployed", "UndeployAllExactlyOnce"]


# ------------------------------------------------------------------------------------------------
# scenarios
# ------------------------------------------------------------------------------------------------
def _dep(kind="eager", wraps=None, lazy=False):
    return {"kind": kind, "wraps": wraps, "lazy": lazy}


def _all(names, kinds=("deploy", "undeploy", "uall")):
    out = []
    for k in kinds:
        if k == "uall":
            out.append(("uall", LOCALN))
        else:
            out += [(k, n) for n in names]
    return out


def scenarios(ctx):
    """(name, scenario, mode) - mode 'edges': complete transition graph replayed; 'mc': TLC exhaustive + counterexamples
    + simulated behaviours."""
    S = []

    def add(name, deps, nreq, choices, fails=(), instant=(), mode="edges", tiers=("quick", "thorough"), probe=False):
        if ctx.tier not in tiers:
            return
        if not isinstance(choices, dict):
            choices = {r: choices for r in range(1, nreq + 1)}
        S.append({"name": name, "deps": deps, "fails": sorted(fails), "instant": sorted(instant), "nreq": nreq,
                  "choices": {int(r): sorted(set(map(tuple, c))) for r, c in choices.items()}, "mode": mode, "probe": probe})

    one = {"a": _dep()}
    wrap2 = {"i": _dep(), "o": _dep("wrapper", "i")}
    chain3 = {"a": _dep(), "b": _dep("wrapper", "a"), "c": _dep("wrapper", "b")}
    # -- the two defects found at design time, as fixed request sequences (prototype A.2)
    add("wrapfail-3deploy", wrap2, 3, [("deploy", "o")], fails=["i"], probe=True)
    add("redeploy-race", one, 4, {1: [("deploy", "a")], 2: [("undeploy", "a")], 3: [("deploy", "a")], 4: [("deploy", "a")]}, probe=True)
    # -- further defect classes found by this check, as fixed sequences (they also select the specification variant)
    add("waiter-race", one, 4, {1: [("deploy", "a")], 2: [("deploy", "a")], 3: [("undeploy", "a")], 4: [("deploy", "a")]}, probe=True)
    add("undeploy-failed", one, 3, {1: [("deploy", "a")], 2: [("undeploy", "a")], 3: [("deploy", "a")]}, fails=["a"], probe=True)
    add("rewrap-race", wrap2, 3, {1: [("deploy", "o")], 2: [("undeploy", "o")], 3: [("deploy", "o")]}, probe=True)
    add("outerfail-uall", wrap2, 2, {1: [("deploy", "o")], 2: [("uall", LOCALN)]}, fails=["o"], probe=True)
    # -- complete graphs, any request sequence
    add("one-3", one, 3, _all(["a"]))
    add("one-fail-3", one, 3, _all(["a"]), fails=["a"])
    add("wrap-3", wrap2, 3, _all(["i", "o"]), tiers=("thorough",))
    add("wrap-3q", wrap2, 3, [("deploy", "o"), ("undeploy", "o"), ("undeploy", "i"), ("uall", LOCALN)])
    add("wrapfail-3", wrap2, 3, [("deploy", "o"), ("deploy", "i"), ("undeploy", "o"), ("uall", LOCALN)], fails=["i"])
    add("outerfail-3", wrap2, 3, [("deploy", "o"), ("undeploy", "o"), ("undeploy", "i"), ("uall", LOCALN)], fails=["o"])
    add("local-3", {"w": _dep("wrapper", None)}, 3, [("deploy", "w"), ("undeploy", "w"), ("deploy", LOCALN), ("uall", LOCALN)],
        instant=[LOCALN])
    add("lazy-3", {"a": _dep(lazy=True)}, 3, _all(["a"], KINDS))
    add("lazy-fail-3", {"a": _dep(lazy=True)}, 3, [("deploy", "a"), ("use", "a"), ("undeploy", "a")], fails=["a"])
    add("lazywrap-3", {"i": _dep(lazy=True), "o": _dep("wrapper", "i")}, 3,
        [("deploy", "o"), ("use", "i"), ("undeploy", "o"), ("uall", LOCALN)], tiers=("thorough",))
    add("chain-3", chain3, 3, [("deploy", "c"), ("deploy", "b"), ("undeploy", "c"), ("undeploy", "a"), ("uall", LOCALN)],
        tiers=("thorough",))
    add("two-3", {"a": _dep(), "b": _dep()}, 3, _all(["a", "b"]), tiers=("thorough",))
    # -- large spaces: exhaustive TLC, counterexamples and simulated behaviours replayed
    add("one-4", one, 4, _all(["a"]), mode="mc")
    add("wrap-4", wrap2, 4, _all(["i", "o"]), mode="mc", tiers=("thorough",))
    add("wrapfail-4", wrap2, 4, _all(["i", "o"]), fails=["i"], mode="mc", tiers=("thorough",))
    add("lazy-4", {"a": _dep(lazy=True)}, 4, _all(["a"], KINDS), mode="mc", tiers=("thorough",))
    only = os.environ.get("C26_ONLY")          # debugging aid: comma separated scenario names
    if only:
        S = [s for s in S if s["name"] in only.split(",")]
    return S


# ------------------------------------------------------------------------------------------------
# TLA+ instance generation
# ------------------------------------------------------------------------------------------------
def _tset(xs):
    return "{" + ", ".join(xs) + "}"


def _tstr(s):
    return '"%s"' % s


def mc_files(scn, fixes):
    deps = sorted(scn["deps"])
    wraps = " [] ".join('d = "%s" -> "%s"' % (n, scn["deps"][n]["wraps"] or "-") for n in deps)
    kind = " [] ".join('d = "%s" -> "%s"' % (n, scn["deps"][n]["kind"]) for n in deps)
    choices = ", ".join(_tset('<<"%s", "%s">>' % (k, d) for k, d in scn["choices"][r]) for r in range(1, scn["nreq"] + 1))
    tla = """---- MODULE MC_Deployment ----
EXTENDS Deployment, Json
MCDeps == %s
MCWraps == [d \\in MCDeps |-> CASE %s]
MCKind == [d \\in MCDeps |-> CASE %s]
MCLazy == %s
MCFails == %s
MCInstant == %s
MCChoices == << %s >>
MCFixes == %s
Emit(a) == PrintT(ToJson([f |-> S, a |-> a, t |-> S', v |-> ViolSet(S, S')]))
GenNext == \\/ \\E r \\in Reqs, k \\in {"deploy", "undeploy", "uall", "use"}, d \\in Names :
                Start(r, k, d) /\\ Emit(<<"Start", ToString(r), k, d>>)
           \\/ \\E t \\in Tasks : IODone(t) /\\ Emit(<<"IODone", ToString(t)>>)
           \\/ Step /\\ Emit(<<"Step">>)
====
""" % (_tset(map(_tstr, deps)), wraps, kind,
       _tset(_tstr(n) for n in deps if scn["deps"][n].get("lazy")), _tset(map(_tstr, scn["fails"])),
       _tset(map(_tstr, scn["instant"])), choices, _tset(map(_tstr, sorted(fixes))))
    consts = ("CONSTANTS Deps <- MCDeps Wraps <- MCWraps Kind <- MCKind Lazy <- MCLazy Fails <- MCFails Instant <- MCInstant "
              "NReq = %d ReqChoices <- MCChoices Fixes <- MCFixes\nINIT Init\n" % scn["nreq"])
    mc = consts + "NEXT Next\n" + "".join("INVARIANT %s\n" % i for i in INVARIANTS) + "".join("PROPERTY %s\n" % p for p in ACTIONPROPS)
    gen = consts + "NEXT GenNext\nINVARIANT ModelOK\n"
    live = consts.replace("INIT Init\n", "") + "SPECIFICATION FairSpec\nPROPERTY EveryRequestEnds\n"
    return {"MC_Deployment.tla": tla, "MC.cfg": mc, "Gen.cfg": gen, "Live.cfg": live}


def one_prop_cfg(files, prop):
    base = files["MC.cfg"].split("NEXT Next\n")[0] + "NEXT Next\n"
    return base + ("INVARIANT %s\n" % prop if prop in INVARIANTS else "PROPERTY %s\n" % prop)


# ------------------------------------------------------------------------------------------------
# model states
# ------------------------------------------------------------------------------------------------
def _norm(x):
    """TLA+ values parsed from text (-simulate files) -> the shape ToJson gives."""
    if isinstance(x, dict):
        return {str(k): _norm(v) for k, v in x.items()}
    if isinstance(x, list):
        return [_norm(v) for v in x]
    return x


def _key(S):
    return hashlib.blake2b(json.dumps(S, sort_keys=True).encode(), digest_size=10).digest()


def _fn(x):
    if isinstance(x, list):
        return {str(i + 1): v for i, v in enumerate(x)}
    return x


def _meta(S):
    """What the judge needs besides the projection (request kinds, undeploy_all history)."""
    return {"rk": _fn(S["rk"]), "rd": _fn(S["rd"])}


def action_between(S1, S2):
    pc1, pc2 = _fn(S1["pc"]), _fn(S2["pc"])
    rk, rd = _fn(S2["rk"]), _fn(S2["rd"])
    for r in sorted(rk, key=int):
        if pc1[r] == "idle" and pc2[r] != "idle":
            return ["Start", r, rk[r], rd[r] if rk[r] != "uall" else LOCALN]
    io1, io2 = _fn(S1["io"]), _fn(S2["io"])
    for t in sorted(io1, key=int):
        if io1[t] == "pending" and io2[t] == "done":
            return ["IODone", t]
    return ["Step"]


# ------------------------------------------------------------------------------------------------
# judging the statement's clauses on observed projections (real behaviour)
# ------------------------------------------------------------------------------------------------
def _live(c):
    return c["kind"] != "future" and c["state"] in ("deploying", "deployed")


def _gone(c):
    return c["state"] in ("undeploying", "undeployed")


class Judge:
    """Clause evaluation over projections; keeps the little history the clauses need (which request is what,
    undeploy_all snapshots).  Used on the REAL projections for the verdict."""

    def __init__(self, scn):
        self.scn = scn
        self.rk, self.rd, self.ustart, self.alone = {}, {}, {}, {}
        self.used = {}

    def lazy(self, d):
        return d != LOCALN and bool(self.scn["deps"].get(d, {}).get("lazy"))

    def on_start(self, pre, r, k, d):
        r = str(r)
        self.rk[r], self.rd[r] = k, d
        running = [t for t, v in pre["tasks"].items() if v["pc"] == "run"]
        for q in self.alone:
            self.alone[q] = False
        if k == "uall":
            self.alone[r] = not running
            self.ustart[r] = [i + 1 for i, c in enumerate(pre["conn"]) if c["kind"] != "future" and c["state"] == "deployed"]

    def clauses(self, pre, post, use_holds=None):
        """-> {clause: info} of the clauses false on this step."""
        out = {}
        conn = post["conn"]
        bad = [i + 1 for i, c in enumerate(conn) if c["dc"] > 1 or c["uc"] > 1]
        if bad:
            out["once"] = {"conn": bad}
        by = {}
        for i, c in enumerate(conn):
            if _live(c):
                by.setdefault(c["name"], []).append(i + 1)
        two = {n: v for n, v in by.items() if len(v) > 1}
        if two:
            out["onelive"] = {"names": two}
        for i, c in enumerate(conn):
            if _live(c) and c["inner"]:
                x = conn[c["inner"] - 1]
                if _gone(x) or (x["real"] and _gone(conn[x["real"] - 1])):
                    out.setdefault("wrap", {"pairs": []})["pairs"].append([i + 1, c["inner"]])
        for r, v in post["tasks"].items():
            if int(r) >= 10 or v["result"] != "ok" or pre["tasks"].get(r, {"result": "-"})["result"] != "-":
                continue
            k, d = self.rk.get(r), self.rd.get(r)
            if k == "deploy" and not self.lazy(d):
                cid = post["dmap"].get(d, 0)
                st = conn[cid - 1]["state"] if cid else "absent"
                if st != "deployed":
                    out.setdefault("deployret", {"reqs": []})["reqs"].append({"r": r, "d": d, "state": st})
            elif k == "use":
                c = (use_holds or {}).get(r, 0)
                if c and conn[c - 1]["kind"] == "future":
                    real = conn[c - 1]["real"]
                    if not real or conn[real - 1]["state"] not in ("deployed", "undeploying", "undeployed"):
                        out.setdefault("useret", {"reqs": []})["reqs"].append({"r": r, "d": d})
            elif k == "uall" and self.alone.get(r):
                left = [i for i in self.ustart.get(r, []) if conn[i - 1]["uc"] != 1 or conn[i - 1]["state"] != "undeployed"]
                if left:
                    out["uall"] = {"r": r, "left": left}
        if post["nready"] == 0 and not any(v["io"] == "pending" for v in post["tasks"].values()):
            hung = [t for t, v in post["tasks"].items() if v["pc"] == "run"]
            if hung:
                out["hang"] = {"tasks": hung}
        return out


def _kind_of(world, t):
    t = int(t)
    if t >= 10:
        return "undeploy"           # child task of undeploy_all
    k = world.rk.get(t, "?")
    return "undeploy" if k == "uall" else k


def _hang_cause(world, post, t, seen=()):
    """Why will task t never be woken?  (from the rig's event log; only used to name the defect class)"""
    t = int(t)
    if t in seen:
        return "cycle"
    waits = [x for x in world.waitq if x[0] == t]
    if not waits:
        kids = [c for c in post["tasks"] if int(c) // 10 == t and post["tasks"][c]["pc"] == "run"]
        if kids:
            return _hang_cause(world, post, kids[0], seen + (t,))
        return "not-waiting-on-event"
    eid = waits[0][1]
    ops = [e for e in world.evlog if e[1] == eid and e[0] in ("set", "clear", "new")]
    owner = [n for n, v in post["ev"].items() if v == eid]
    name = owner[0] if owner else None
    if name is None:
        for c in post["conn"]:
            if c["dev"] == eid:
                return "lazy-deploy-event-never-set"
        return "stale-event-object"
    creator = next((e[2] for e in ops if e[0] == "new"), 0)
    sets_clears = [e for e in ops if e[0] in ("set", "clear")]
    if sets_clears and sets_clears[-1][0] == "clear":
        by = sets_clears[-1][2]
        res = post["tasks"].get(str(by), {}).get("result")
        failed = name in post["cfg"] and name not in post["dmap"]
        return "event-cleared-by-%s-that-%s%s" % (_kind_of(world, by), "raised" if res == "err" else "ended:%s" % res,
                                                   "-after-failed-deploy" if failed else "")
    if not sets_clears:
        cres = post["tasks"].get(str(creator), {})
        if cres.get("pc") == "run":
            return _hang_cause(world, post, creator, seen + (t,))
        if cres.get("result") == "err":
            kind = LOCALN if name == LOCALN else world.scn["deps"][name]["kind"]
            exc = world.exc.get(creator)
            en = type(exc).__name__
            if kind == "wrapper":
                if en in ("FakeDeployError", "WorkflowExecutionException"):
                    return "waiters-of-wrapper-after-inner-deploy-failure"
                return "waiters-of-wrapper-after-inner-deploy-error:%s" % en
            return "event-never-set-creator-raised:%s" % en
        return "event-never-set-creator-%s" % cres.get("result")
    return "other"


def _release_cause(world, r):
    """Which set() let deploy request r pass its wait?"""
    r = int(r)
    waits = [e for e in world.evlog if e[0] == "wait" and e[2] == r]
    if not waits:
        return "no-wait"
    eid = waits[-1][1]
    idx_new = next((i for i, e in enumerate(world.evlog) if e[0] == "new" and e[1] == eid), -1)
    sets = [(i, e) for i, e in enumerate(world.evlog) if e[0] == "set" and e[1] == eid]
    if not sets:
        return "event-not-set"
    i_set, e = sets[-1]
    by = e[2]
    k = _kind_of(world, by)
    if k == "undeploy":
        own = [i for i, x in enumerate(world.evlog) if x[0] == "wait" and x[2] == by]
        if own and own[-1] < idx_new and world.evlog[own[-1]][1] != eid:
            return "undeploy-sets-new-event"
        return "set-by-undeploy"
    return "set-by-%s" % k


def signature(world, clause, info, post):
    if clause == "hang":
        causes = sorted({_hang_cause(world, post, t) for t in info["tasks"]})
        return ["hang:%s" % c for c in causes]
    if clause == "deployret":
        return sorted({"deploy-returned-before-deployed:%s" % ("connector-%s:%s" % (q["state"], _release_cause(world, q["r"]))
                                                                 if _release_cause(world, q["r"]) != "undeploy-sets-new-event"
                                                                 else "undeploy-sets-new-event") for q in info["reqs"]})
    if clause == "useret":
        return ["use-returned-before-deployed"]
    if clause == "once":
        return sorted({"connector-%s-twice:%s" % ("deployed" if post["conn"][i - 1]["dc"] > 1 else "undeployed",
                                                 post["conn"][i - 1]["kind"]) for i in info["conn"]})
    if clause == "onelive":
        out = set()
        for n, ids in info["names"].items():
            lazy = any(c["kind"] == "future" and c["name"] == n for c in post["conn"])
            states = "+".join(sorted(post["conn"][i - 1]["state"] for i in ids))
            out.add("two-live-instances:%s:%s" % ("lazy" if lazy else "eager", states))
        return sorted(out)
    if clause == "wrap":
        out = set()
        for w, i in info["pairs"]:
            x, wc = post["conn"][i - 1], post["conn"][w - 1]
            older = any(c["name"] == wc["name"] and k + 1 != w and c["kind"] != "future" and _gone(c) for k, c in enumerate(post["conn"]))
            if wc.get("uc", 0) > 0:
                # the live wrapper itself was handed to connector.undeploy (it was still deploying): an undeploy request that
                # had waited for the previous incarnation took the re-created one for its own (not the stale tail loop)
                out.add("wrapped-undeployed-under-live-wrapper:wrapper-undeployed-while-deploying")
            elif older:
                out.add("wrapped-undeployed-under-live-wrapper:stale-undeploy-of-redeployed-wrapper")
            else:
                out.add("wrapped-undeployed-under-live-wrapper:other:%s-inner:wrapper-%s" % (x["kind"], wc["state"]))
        return sorted(out)
    if clause == "uall":
        out = set()
        for i in info["left"]:
            c = post["conn"][i - 1]
            sid = post["gobj"].get(c["name"], 0)
            claims = post["sets"][sid - 1] if sid else []
            failed = [m for m in claims if m in post["cfg"] and m not in post["dmap"]]
            orphan = any(f["kind"] == "future" and f["real"] == i and _gone(f) for f in post["conn"])
            if c["state"] == "deployed" and c["uc"] == 0 and failed:
                out.add("undeploy-all:left-deployed:inner-claimed-by-failed-wrapper")
            elif c["state"] == "deployed" and c["uc"] == 0 and orphan:
                out.add("undeploy-all:left-deployed:lazy-connector-orphaned-by-undeploy-during-deploy")
            else:
                out.add("undeploy-all:%s-uc%d" % (c["state"], c["uc"]))
        return sorted(out)
    return [clause]


# ------------------------------------------------------------------------------------------------
# lock-step replay of one behaviour on the real manager
# ------------------------------------------------------------------------------------------------
class _Watchdog(Exception):
    pass


def _alarm(signum, frame):
    raise _Watchdog()


def replay_path(ctx, scn, fixes, path, report=True, label=""):
    """Watchdog: one loop handle of the code under test that does not come back within 60 s (busy loop) is reported as
    a divergence; the model never predicts that."""
    import signal
    import threading as _th
    use_alarm = _th.current_thread() is _th.main_thread()
    if use_alarm:
        old = signal.signal(signal.SIGALRM, _alarm)
        signal.setitimer(signal.ITIMER_REAL, 60 + len(path))
    try:
        return _replay_path(ctx, scn, fixes, path, label)
    except _Watchdog:
        return {"divergence": {"field": "watchdog:handle-does-not-return", "act": ["Step"], "step": -1}, "violations": [],
                "clauses": set(), "steps": 0}
    finally:
        if use_alarm:
            signal.setitimer(signal.ITIMER_REAL, 0)
            signal.signal(signal.SIGALRM, old)


def _replay_path(ctx, scn, fixes, path, label=""):
    """path: [(action, expected_projection or None, expected_clause_set or None)].
    -> {"divergence": None | {...}, "violations": [(signature, detail)], "clauses": set()}"""
    from vh.sut import deploy_sut as ds
    w = ds.World(scn)
    judge = Judge(scn)
    res = {"divergence": None, "violations": [], "clauses": set(), "steps": 0}
    acts = []
    seen = set()
    try:
        pre = w.project()
        for act, exp, expv in path:
            acts.append(act)
            try:
                if act[0] == "Start":
                    judge.on_start(pre, act[1], act[2], act[3])
                    w.start(int(act[1]), act[2], act[3])
                    ok = True
                elif act[0] == "IODone":
                    ok = w.io_done(int(act[1]))
                else:
                    ok = w.step()
            except Exception as e:      # the rig itself must not fail; code under test runs inside tasks
                res["divergence"] = {"field": "exception:%s" % type(e).__name__, "act": act, "step": len(acts), "error": repr(e)}
                break
            if not ok:
                if res["divergence"] is None:
                    res["divergence"] = {"field": "not-enabled", "act": act, "step": len(acts),
                                         "real": {"tasks": pre["tasks"], "nready": pre["nready"]}}
                break
            post = w.project()
            res["steps"] += 1
            # ---- clauses judged on the real observation
            holds = {str(r): w.conn_id(c) for r, c in w.used.items()}
            cl = judge.clauses(pre, post, holds)
            for c, info in cl.items():
                res["clauses"].add(c)
                for sig in signature(w, c, info, post):
                    if sig not in seen:
                        seen.add(sig)
                        res["violations"].append((sig, {"clause": CLAUSES[c], "info": info, "scenario": scn, "fixes": sorted(fixes),
                                                        "actions": list(acts), "label": label,
                                                        "observed": {k: post[k] for k in ("tasks", "conn", "cfg", "dmap", "ev", "evset")}}))
            # ---- conformance with the model state
            if exp is not None and res["divergence"] is None:
                f = ds.diff(post, exp)
                if f is not None:
                    # the code has left the specification: keep applying the environment's actions while they are possible,
                    # without comparing, so that the statement's clauses are still judged on what the code really does
                    res["divergence"] = {"field": f, "act": act, "step": len(acts), "real": post[f], "model": exp[f],
                                         "actor": _actor(post, pre, act), "actions": list(acts)}
                elif expv is not None and set(expv) != set(cl):
                    res["divergence"] = {"field": "clauses", "act": act, "step": len(acts), "real": sorted(cl), "model": sorted(expv),
                                         "actor": "judge"}
            pre = post
    finally:
        w.close()
    return res


def _actor(post, pre, act):
    return act[0]


# ------------------------------------------------------------------------------------------------
# behaviours from TLC
# ------------------------------------------------------------------------------------------------
class Graph:
    def __init__(self):
        self.proj, self.edges, self.init = {}, {}, None
        self.n_edges = 0

    def add(self, line):
        from vh.sut.deploy_sut import model_projection
        f, t = line["f"], line["t"]
        fk, tk = _key(f), _key(t)
        if self.init is None:
            self.init = fk
        if fk not in self.proj:
            self.proj[fk] = model_projection(f)
        if tk not in self.proj:
            self.proj[tk] = model_projection(t)
        self.edges.setdefault(fk, []).append((line["a"], tk, sorted(line["v"] or [])))
        self.n_edges += 1

    def cover(self):
        """Paths from the initial state that together contain every edge."""
        parent = {self.init: None}
        order = [self.init]
        for u in order:
            for i, (a, v, _) in enumerate(self.edges.get(u, [])):
                if v not in parent:
                    parent[v] = (u, i)
                    order.append(v)
        covered = set()
        paths = []
        for u in order:
            for i in range(len(self.edges.get(u, []))):
                if (u, i) in covered:
                    continue
                pre = []
                x = u
                while parent[x] is not None:
                    pre.append(parent[x])
                    x = parent[x][0]
                pre.reverse()
                path = pre + [(u, i)]
                cur = self.edges[u][i][1]
                while True:
                    nxt = [j for j in range(len(self.edges.get(cur, []))) if (cur, j) not in covered and (cur, j) not in path]
                    if not nxt:
                        break
                    path.append((cur, nxt[0]))
                    cur = self.edges[cur][nxt[0]][1]
                covered.update(path)
                paths.append(path)
        return paths

    def as_replay(self, path):
        return [(self.edges[u][i][0], self.proj[self.edges[u][i][1]], self.edges[u][i][2]) for u, i in path]


def trace_to_path(states):
    """A TLC behaviour (list of S records, ToJson/parsed shape) -> replay path."""
    from vh.sut.deploy_sut import model_projection
    out = []
    for a, b in zip(states, states[1:]):
        out.append((action_between(a, b), model_projection(b), None))
    return out


# ------------------------------------------------------------------------------------------------
# one variant of the specification against the code
# ------------------------------------------------------------------------------------------------
class Divergence(Exception):
    def __init__(self, info):
        self.info = info


def check_variant(ctx, fixes, scns, final):
    """Run every scenario with the given repairs.  final=False: stop at the first divergence (variant probing)."""
    out = {"fixes": sorted(fixes), "divergences": [], "violations": [], "model_violated": {}, "paths": 0, "steps": 0}

    def note(scn, r, label):
        out["paths"] += 1
        out["steps"] += r["steps"]
        for sig, det in r["violations"]:
            out["violations"].append((sig, det))
        if r["divergence"] is not None:
            d = dict(r["divergence"], scenario=scn["name"], label=label)
            out["divergences"].append((scn, d, label))
            if not final:
                raise Divergence(d)

    def tlc_jobs(scn):
        files = mc_files(scn, fixes)
        res = {}
        if scn["mode"] == "edges":
            res["gen"] = _tlc(ctx, "Gen.cfg", files, workers=1, timeout=1500, count=True)
            if ctx.quick:
                return res          # the clauses are evaluated by TLC on every transition of the complete graph (ViolSet)
        if scn["mode"] == "mc":
            # the whole space (only the model's sanity invariant, so that TLC does not stop at a known defect) ...
            files["Full.cfg"] = files["MC.cfg"].split("NEXT Next\n")[0] + "NEXT Next\nINVARIANT ModelOK\n"
            res["full"] = _tlc(ctx, "Full.cfg", files, timeout=3000, coverage=True, count=True)
        # ... and the clauses (TLC stops at the first violated one; thorough: one run per clause afterwards)
        res["mc"] = _tlc(ctx, "MC.cfg", files, timeout=3000, count=False)
        return res

    with ThreadPoolExecutor(max_workers=ctx.pick(3, 4) if final else 1) as ex:
        jobs = {s["name"]: ex.submit(tlc_jobs, s) for s in scns}
        try:
            for scn in scns:
                res = jobs[scn["name"]].result()
                mc = res.get("mc")
                flagged = set()
                if "full" in res:
                    full = res["full"]
                    ctx.require(full.ok, "exhaustive exploration of %s failed: %s %s\n%s" % (scn["name"], full.error, full.violated, full.stdout[-1200:]))
                    ctx.require_coverage(full, ["Start", "IODone", "Step"])
                    out.setdefault("graph_sizes", {})[scn["name"]] = [full.distinct, full.generated, 0]
                if mc is not None:
                    ctx.require(mc.error in (None, "invariant", "property"), "TLC failed on %s: %s\n%s" % (scn["name"], mc.error, mc.stdout[-1500:]))
                    ctx.require("ModelOK" not in mc.violated, "model sanity invariant ModelOK violated in %s" % scn["name"])
                    out["model_violated"][scn["name"]] = list(mc.violated)
                # (b) the counterexample, replayed
                if mc is not None and mc.trace:
                    states = [st["state"]["S"] for st in mc.trace]
                    r = replay_path(ctx, scn, fixes, trace_to_path(states), label="counterexample:%s" % ",".join(mc.violated))
                    note(scn, r, "counterexample")
                    flagged |= r["clauses"]
                    ctx.count("counterexamples_replayed")
                    if r["divergence"] is None:
                        want = {k for k, v in CLAUSES.items() if v in mc.violated}
                        ctx.require(want <= r["clauses"], "TLC counterexample for %s in %s was followed by the code but the "
                                    "judge did not flag it (%s)" % (mc.violated, scn["name"], sorted(r["clauses"])))
                # (a) the complete transition graph
                if scn["mode"] == "edges":
                    g = Graph()
                    gen = res["gen"]
                    ctx.require(gen.ok, "generation run failed for %s: %s" % (scn["name"], gen.stdout[-800:]))
                    mviol = set()
                    for line in gen.printed_json():
                        if isinstance(line, dict) and "f" in line:
                            g.add(line)
                            mviol |= set(line["v"] or [])
                    ctx.require(g.n_edges > 0 and g.n_edges == gen.generated - 1, "transition emission incomplete for %s (%d of %d)" % (
                        scn["name"], g.n_edges, gen.generated - 1))
                    paths = g.cover()
                    for p in paths:
                        r = replay_path(ctx, scn, fixes, g.as_replay(p), label="edges")
                        note(scn, r, "edges")
                        flagged |= r["clauses"]
                    ctx.count("edges:%s" % scn["name"], g.n_edges)
                    ctx.count("edge_paths", len(paths))
                    ctx.count("transitions_replayed", g.n_edges)
                    if not out["divergences"]:
                        ctx.require(mviol == flagged, "clauses violated in the model %s and on the code %s differ in %s although "
                                    "every transition was followed" % (sorted(mviol), sorted(flagged), scn["name"]))
                        if mc is not None:
                            nat = {k for k, v in CLAUSES.items() if v in mc.violated}
                            ctx.require(nat <= mviol and (bool(nat) == bool(mviol)), "TLC property check and ViolSet disagree in %s: %s vs %s" % (
                                scn["name"], sorted(nat), sorted(mviol)))
                        out["model_violated"][scn["name"]] = sorted(CLAUSES[k] for k in mviol)
                    out.setdefault("graph_sizes", {})[scn["name"]] = [len(g.proj), g.n_edges, len(paths)]
                else:
                    # (c) simulated behaviours of the large scenario
                    num, depth = ctx.pick((60, 60), (300, 80))
                    d = ctx.scratch("sim_%s_%s" % (scn["name"], "".join(sorted(fixes))))
                    files = mc_files(scn, fixes)
                    files["Sim.cfg"] = files["Gen.cfg"].replace("NEXT GenNext", "NEXT Next")
                    sim = _tlc(ctx, "Sim.cfg", files, workers=1, count=False, timeout=900,
                                  simulate={"num": num, "depth": depth, "file": os.path.join(d, "b")})
                    from vh import tlc as vtlc
                    n = 0
                    for fn in sorted(os.listdir(d)):
                        beh = vtlc.parse_sim_file(os.path.join(d, fn))
                        states = [_norm(b["state"]["S"]) for b in beh]
                        if len(states) < 2:
                            continue
                        r = replay_path(ctx, scn, fixes, trace_to_path(states), label="simulation")
                        note(scn, r, "simulation")
                        n += 1
                    ctx.require(n > 0, "no simulated behaviour for %s" % scn["name"])
                    ctx.count("simulated_behaviours", n)
        except Divergence:
            for j in jobs.values():
                j.cancel()
    return out


def per_property_counterexamples(ctx, fixes, scns, out):
    """thorough, large scenarios: TLC stops at the first violated clause, so the check is repeated without the clauses
    already found violated until the remaining ones hold on the whole space: every violated clause yields its own
    counterexample (replayed on the code), and the clauses that hold are checked exhaustively."""
    def job(scn):
        found = []
        viol = [v for v in out["model_violated"].get(scn["name"], []) if v != "ModelOK"]
        files = mc_files(scn, fixes)
        while viol:
            left = [p for p in INVARIANTS[1:] + ACTIONPROPS if p not in viol]
            base = files["MC.cfg"].split("NEXT Next\n")[0] + "NEXT Next\nINVARIANT ModelOK\n"
            files["Rest.cfg"] = base + "".join(("INVARIANT %s\n" if p in INVARIANTS else "PROPERTY %s\n") % p for p in left)
            mc = _tlc(ctx, "Rest.cfg", files, timeout=3000, count=False)
            if not (mc.trace and mc.violated):
                break
            found.append(mc)
            viol = viol + list(mc.violated)
        return found
    todo = [s for s in scns if s["mode"] == "mc" and out["model_violated"].get(s["name"])]
    with ThreadPoolExecutor(max_workers=3) as ex:
        futs = [(scn, ex.submit(job, scn)) for scn in todo]
        for scn, f in futs:
            for mc in f.result():
                states = [st["state"]["S"] for st in mc.trace]
                lab = "counterexample:%s" % ",".join(mc.violated)
                r = replay_path(ctx, scn, fixes, trace_to_path(states), label=lab)
                ctx.count("counterexamples_replayed")
                out["paths"] += 1
                out["steps"] += r["steps"]
                out["violations"] += r["violations"]
                if r["divergence"] is not None:
                    out["divergences"].append((scn, dict(r["divergence"], scenario=scn["name"], label=lab), "counterexample"))
                else:
                    want = {k for k, v in CLAUSES.items() if v in mc.violated}
                    ctx.require(want <= r["clauses"], "TLC counterexample for %s in %s was followed by the code but the judge did "
                                "not flag it (%s)" % (mc.violated, scn["name"], sorted(r["clauses"])))
                out["model_violated"][scn["name"]] = sorted(set(out["model_violated"][scn["name"]]) | set(mc.violated))


def _drive(scn, acts):
    from vh.sut import deploy_sut as ds
    w = ds.World(scn)
    try:
        for a in acts:
            if a[0] == "S":
                w.start(a[1], a[2], a[3])
            elif a[0] == "IO":
                w.io_done(a[1])
            elif a[0] == "step":
                w.step()
                continue
            elif a[0] == "nodrain":
                continue
            if a[-1] == "hold":
                continue
            n = 0
            while w.step() and n < 1000:
                n += 1
        return w.project()
    finally:
        w.close()


def probe_variant():
    """Which repairs does the code contain?  One fixed behaviour per repair, with an observation that only that repair
    changes.  (Only a hint: the variant is verified afterwards by the conformance check on every scenario.)"""
    one = {"deps": {"a": _dep()}}
    wrap2 = {"deps": {"i": _dep(), "o": _dep("wrapper", "i")}}
    fixes = set()
    try:
        p = _drive(dict(wrap2, fails=["i"]), [("S", 1, "deploy", "o"), ("S", 2, "deploy", "o"), ("IO", 1)])
        if p["tasks"].get("2", {}).get("result") == "err":
            fixes.add("A")
        p = _drive(one, [("S", 1, "deploy", "a"), ("IO", 1), ("S", 2, "undeploy", "a"), ("S", 3, "deploy", "a"), ("IO", 2), ("S", 4, "deploy", "a")])
        if p["tasks"].get("4", {}).get("result") == "-":
            fixes.add("B")
        p = _drive(dict(one, fails=["a"]), [("S", 1, "deploy", "a"), ("S", 2, "undeploy", "a"), ("IO", 1)])
        if p["tasks"].get("2", {}).get("result") == "ok":
            fixes.add("C")
        p = _drive(one, [("S", 1, "deploy", "a", "hold"), ("S", 2, "deploy", "a"), ("IO", 1, "hold"), ("S", 3, "undeploy", "a", "hold"),
                         ("S", 4, "deploy", "a")])
        if p["tasks"].get("2", {}).get("result") == "-":
            fixes.add("D")
        p = _drive(wrap2, [("S", 1, "deploy", "o"), ("IO", 1), ("IO", 1), ("S", 2, "undeploy", "o"), ("S", 3, "deploy", "o"), ("IO", 2)])
        if p["conn"] and p["conn"][0]["state"] == "deployed" and p["tasks"].get("2", {}).get("result") == "ok":
            fixes.add("E")
        p = _drive(dict(wrap2, fails=["o"]), [("S", 1, "deploy", "o"), ("IO", 1), ("IO", 1)])
        sid = p["gobj"].get("i", 0)
        if sid and p["sets"][sid - 1] == [] and p["tasks"].get("1", {}).get("result") == "err":
            fixes.add("F")
    except Exception:       # a tree on which the probes crash is judged against the as-is specification
        return set()
    return fixes


def run(ctx):
    ctx.rule = ("behaviours of Deployment.tla (complete transition graphs of the small scenarios, TLC counterexamples, simulated "
                "behaviours of the large ones) are imposed action by action (request start / connector completion / one event-loop "
                "handle) on the real DefaultDeploymentManager running on a single-stepping loop with gated fake connectors; after "
                "every action the projected real state is compared with the model state and the statement's clauses are judged on "
                "the real observation; a case is one replayed behaviour, non-trivial when it contains a suspension")
    scns = scenarios(ctx)
    # which variant of the specification does the code implement?  Each repair has one discriminating behaviour that is run
    # directly on the code (no TLC); the variant found is then verified by the complete conformance check below.
    fixes = probe_variant()
    ctx.extra["probed_variant"] = sorted(fixes)
    probes = [s for s in scns if s["probe"]] or scns[:1]
    rest = [s for s in scns if s not in probes]
    chosen = check_variant(ctx, set(fixes), probes, final=True)
    if chosen["divergences"] and fixes:
        ctx.count("variants_rejected")
        asis = check_variant(ctx, set(), probes, final=True)
        if len(asis["divergences"]) <= len(chosen["divergences"]):
            chosen = asis
    more = check_variant(ctx, set(chosen["fixes"]), rest, final=True) if rest else None
    if more is not None:
        for k in ("divergences", "violations"):
            chosen[k] += more[k]
        for k in ("paths", "steps"):
            chosen[k] += more[k]
        chosen["model_violated"].update(more["model_violated"])
        chosen.setdefault("graph_sizes", {}).update(more.get("graph_sizes", {}))
    fixes = set(chosen["fixes"])
    ctx.extra["spec_variant"] = sorted(fixes)
    if not ctx.quick and not chosen["divergences"]:
        per_property_counterexamples(ctx, fixes, scns, chosen)
    # ---- verdicts on the real code
    for scn, d, label in chosen["divergences"][:8]:
        sig = "conformance:%s:%s" % (d["field"], d["act"][0] if d["act"][0] != "Start" else "Start-%s" % d["act"][2])
        ctx.violation(sig, {"scenario": scn, "fixes": sorted(fixes), "divergence": d, "label": label},
                      "the real manager leaves the specification at step %d (%s) of a %s behaviour of scenario %s: field %s differs"
                      % (d["step"], d["act"], label, scn["name"], d["field"]))
    for sig, det in chosen["violations"]:
        ctx.violation(sig, det, "%s violated on the real manager (scenario %s, %d actions)" % (
            det["clause"], det["scenario"]["name"], len(det["actions"])))
        ctx.count("violation:%s" % sig)
    ctx.impl_trace(chosen["paths"])
    ctx.evaluations += chosen["paths"]
    ctx.count("real_actions_compared", chosen["steps"])
    for s in scns:
        ctx.distinct.add(s["name"])
    ctx.extra["model_violated_clauses"] = chosen["model_violated"]
    ctx.extra["graphs"] = chosen.get("graph_sizes", {})
    ctx.sample({"scenario": scns[0]["name"], "model_violated": chosen["model_violated"].get(scns[0]["name"])})
    ctx.exhaustive = False
    ctx.assumptions += [
        "connector classes are fakes whose deploy/undeploy suspend once (or not at all when 'instant') and whose failures are injected",
        "the event loop is asyncio-FIFO; requests are submitted as tasks; environment events may arrive between any two handles",
        "undeploy_all clause judged only for an undeploy_all that runs while no other request is active",
    ]


def replay(ctx, data):
    d = data["detail"]
    if "actions" in d:
        path = [(a, None, None) for a in d["actions"]]
        r = replay_path(ctx, d["scenario"], set(d.get("fixes", [])), path, label="replay")
        for sig, det in r["violations"]:
            ctx.violation(sig, det, "%s violated on the real manager" % det["clause"])
        if r["divergence"] is not None:
            ctx.violation("conformance:%s:replay" % r["divergence"]["field"], {"divergence": r["divergence"]}, "behaviour cannot be followed")
    elif "divergence" in d and "actions" in d["divergence"]:
        # conformance: re-run the prefix on the code and compare the diverging field with the model's value
        from vh.sut import deploy_sut as ds
        dv = d["divergence"]
        w = ds.World(d["scenario"])
        try:
            ok = True
            for a in dv["actions"]:
                if a[0] == "Start":
                    w.start(int(a[1]), a[2], a[3])
                elif a[0] == "IODone":
                    ok = w.io_done(int(a[1])) and ok
                else:
                    ok = w.step() and ok
            got = json.loads(json.dumps(w.project()[dv["field"]])) if dv["field"] in ds.FIELDS else None
        finally:
            w.close()
        if not ok or got != dv["model"]:
            ctx.violation("conformance:%s:replay" % dv["field"], {"divergence": dv, "real": got},
                          "after the stored actions the real %s is %s, the specification says %s" % (dv["field"], got, dv["model"]))
    else:
        run(ctx)
