"""Binding of the RemoteFS model to StreamFlowPath (C24): concrete names/contents, tree building,
execution of one model transition on LocalStreamFlowPath and on RemoteStreamFlowPath (shell-based
remote of vh.sut.fs_remote), comparison with the model's expectation."""
from __future__ import annotations

import asyncio
import errno
import glob as _glob
import hashlib
import json
import os
import random
import shutil

from . import fs_remote as FR

# order of PathList in RemoteFS.tla
PATHS = [("d1",), ("d2",), ("d1", "a"), ("d1", "b"), ("d2", "a"), ("d2", "b")]

# concrete names for d1, d2, a, b: every class keeps the four names distinct; the glob classes are
# chosen so that an unquoted use really expands to something else (d* also matches dx, ...)
NAME_CLASSES = {
    "plain": {"d1": "dira", "d2": "dirb", "a": "fa", "b": "fb"},
    "space": {"d1": "d one", "d2": "d two", "a": "f a", "b": "f b"},
    "squote": {"d1": "d'1", "d2": "d'2", "a": "a'x", "b": "b'x"},
    "dquote": {"d1": 'd"1', "d2": 'd"2', "a": 'a"x', "b": 'b"x'},
    "star": {"d1": "d*", "d2": "dx", "a": "f*", "b": "fx"},
    "qmark": {"d1": "d?", "d2": "dx", "a": "f?", "b": "fx"},
    "bracket": {"d1": "d[x]", "d2": "dx", "a": "f[x]", "b": "fx"},
    "unicode": {"d1": "dé1", "d2": "dü2", "a": "fñ", "b": "f✓"},
    "dash": {"d1": "-d1", "d2": "-d2", "a": "-a", "b": "-b"},
}
CONTENT_CLASSES = {
    "text": {1: "hello", 2: "other text"},
    "newline": {1: "line one\n", 2: "x\ny\n"},
    "empty": {1: "", 2: "z"},
    "unicode": {1: "héllo ✓", 2: "ünï"},
    "padded": {1: "  padded  ", 2: " x"},
    "special": {1: "it's \"q\" * $HOME `id` \\n", 2: "a'b"},
    "big": {1: "A" * 70001, 2: "B" * 10},
}
CONTENT_OPS = {"write_text", "read_text", "size", "checksum"}
ERRNO_NAMES = {getattr(errno, n): n for n in ("EEXIST", "ENOENT", "ENOTDIR", "EISDIR", "EPERM", "ELOOP", "EACCES",
                                              "ENOTEMPTY", "EINVAL", "EXDEV")}
BUDGET = 120  # remote commands one StreamFlowPath call may issue
CAP = 48     # tuples taken from an async generator before it is declared non-terminating


class Names:
    def __init__(self, ncls: str, ccls: str, W: str):
        self.ncls, self.ccls, self.W = ncls, ccls, W
        self.n = NAME_CLASSES[ncls]
        self.c = CONTENT_CLASSES[ccls]

    def rel(self, path) -> str:
        return "/".join(self.n[x] for x in path)

    def abs(self, path) -> str:
        return self.W + ("/" + self.rel(path) if path else "")

    def strip(self, s: str) -> str:
        s = str(s)
        if s == self.W:
            return ""
        if s.startswith(self.W + "/"):
            return s[len(self.W) + 1:]
        return "ABS:" + s


# ------------------------------------------------------------------------------------------------
# model state -> concrete tree
# ------------------------------------------------------------------------------------------------

def expected_tree(state, nm: Names) -> dict:
    """state = [[node per path], [[content, mode] per inode]] (compact form of MC_RemoteFS!StC)."""
    nodes, inodes = state
    out = {}
    for path, n in zip(PATHS, nodes):
        if n == 0:
            continue
        rel = nm.rel(path)
        if n[0] == "f":
            c, m = inodes[n[1] - 1]
            out[rel] = {"kind": "f", "mode": m, "content": nm.c[c].encode("utf-8"), "ino": n[1]}
        elif n[0] == "d":
            out[rel] = {"kind": "d", "mode": n[1]}
        else:
            tgt, isrel = n[1], n[2]
            out[rel] = {"kind": "l", "target": nm.n[tgt[-1]] if isrel else nm.abs(tgt)}
    return out


def build_tree(realW: str, state, nm: Names):
    """Create the tree of a model state below realW with os.* (never through StreamFlow)."""
    if os.path.lexists(realW):
        shutil.rmtree(realW)
    os.makedirs(realW)
    nodes, inodes = state
    first = {}
    for path, n in zip(PATHS, nodes):
        if n == 0:
            continue
        p = os.path.join(realW, nm.rel(path))
        if n[0] == "f":
            if n[1] in first:
                os.link(first[n[1]], p)
            else:
                c, m = inodes[n[1] - 1]
                with open(p, "wb") as f:
                    f.write(nm.c[c].encode("utf-8"))
                os.chmod(p, m)
                first[n[1]] = p
        elif n[0] == "d":
            os.mkdir(p)
            os.chmod(p, n[1])
        else:
            tgt, isrel = n[1], n[2]
            os.symlink(nm.n[tgt[-1]] if isrel else nm.abs(tgt), p)


def tree_diff(exp: dict, got: dict):
    """First difference between an expected tree and a snapshot, or None.  -> (what, path, exp, got)"""
    if set(exp) != set(got):
        return ("names", None, sorted(exp), sorted(got))
    for k in sorted(exp):
        e, g = exp[k], got[k]
        if e["kind"] != g["kind"]:
            return ("kind", k, e["kind"], g["kind"])
        if e["kind"] == "f" and e["content"] != g["content"]:
            return ("content", k, e["content"][:80], g["content"][:80])
        if e["kind"] == "l" and e["target"] != g["target"]:
            return ("link", k, e["target"], g["target"])
    for k in sorted(exp):
        e, g = exp[k], got[k]
        if e["kind"] in "fd" and e["mode"] != g["mode"]:
            return ("mode", k, oct(e["mode"]), oct(g["mode"]))
    # hard-link groups
    def groups(t):
        by = {}
        for k, v in t.items():
            if v["kind"] == "f":
                by.setdefault(v["ino"], []).append(k)
        return sorted(sorted(v) for v in by.values())
    if groups(exp) != groups(got):
        return ("hardlinks", None, groups(exp), groups(got))
    return None


# ------------------------------------------------------------------------------------------------
# expectation of one model observation in concrete terms
# ------------------------------------------------------------------------------------------------

def variant(a) -> str:
    op, args = a["op"], a["args"]
    if op == "mkdir":
        return "(%s%s)" % ("p" if args[1] else "-", "e" if args[2] else "-")
    if op == "walk":
        return "(%s,%s)" % ("topdown" if args[1] else "bottomup", "follow" if args[2] else "nofollow")
    if op == "glob":
        return "(%s)" % args[1]
    if op == "read_text":
        return "(n=%s)" % (args[1] or "all")
    if op == "symlink_to":
        return "(rel)" if args[2] else "(abs)"
    return ""


def expectation(a, nm: Names):
    """('ok', value) | ('err', errno name) in the terms the implementation results are normalised to."""
    op, args, st, v = a["op"], a["args"], a["st"], a["v"]
    if st != "ok":
        return ("err", st)
    if op in ("exists", "is_file", "is_dir", "is_symlink", "is_executable"):
        return ("ok", bool(v))
    if op == "read_text":
        s = nm.c[v]
        return ("ok", s if not args[1] else s[:args[1]])
    if op == "size":
        return ("ok", sum(len(nm.c[c].encode("utf-8")) for c in v))
    if op == "checksum":
        return ("ok", hashlib.sha1(nm.c[v[0]].encode("utf-8")).hexdigest() if v else None)
    if op == "glob":
        return ("ok", sorted(nm.rel(p) for p in v))
    if op == "walk":
        return ("ok", sorted([nm.rel(t["path"]), sorted(nm.n[x] for x in t["dirs"]),
                              sorted(nm.n[x] for x in t["files"])] for t in v))
    if op == "resolve":
        return ("ok", nm.rel(v[0]) if v else None)
    if op == "write_text":
        return ("ok", len(nm.c[v]))
    return ("ok", None)


async def _drain(agen, conv):
    out = []
    try:
        async for x in agen:
            out.append(conv(x))
            if len(out) > CAP:
                return "NONTERMINATING(>%d items)" % CAP
    finally:
        try:
            await agen.aclose()
        except Exception:
            pass
    return out


async def call(mk, a, nm: Names):
    """Perform the model operation `a` through StreamFlowPath objects made by mk(path tuple)."""
    op, args = a["op"], a["args"]
    p = mk(tuple(args[0]))
    if op == "exists":
        return await p.exists()
    if op == "is_file":
        return await p.is_file()
    if op == "is_dir":
        return await p.is_dir()
    if op == "is_symlink":
        return await p.is_symlink()
    if op == "is_executable":
        return await p.is_executable()
    if op == "read_text":
        return await (p.read_text(args[1]) if args[1] else p.read_text())
    if op == "size":
        return await p.size()
    if op == "checksum":
        return await p.checksum()
    if op == "glob":
        pat = "*" if args[1] == "*" else "*/*" if args[1] == "*/*" else _glob.escape(nm.n[args[2]])
        r = await _drain(p.glob(pat), lambda x: nm.strip(x))
        return sorted(r) if isinstance(r, list) else r
    if op == "walk":
        r = await _drain(p.walk(top_down=args[1], follow_symlinks=args[2]),
                         lambda t: [nm.strip(t[0]), sorted(t[1]), sorted(t[2])])
        if isinstance(r, list):
            order = [x[0] for x in r]
            for i, x in enumerate(order):     # a directory comes before (top-down) / after (bottom-up) what is below it
                for j, y in enumerate(order):
                    if y.startswith(x + "/") and ((j < i) if args[1] else (j > i)):
                        return "ORDER:%s" % order
            return sorted(r)
        return r
    if op == "resolve":
        r = await p.resolve()
        return None if r is None else nm.strip(r)
    if op == "mkdir":
        return await p.mkdir(parents=args[1], exist_ok=args[2])
    if op == "write_text":
        return await p.write_text(nm.c[args[1]])
    if op == "rmtree":
        return await p.rmtree()
    if op == "symlink_to":
        return await p.symlink_to(nm.n[args[1]] if args[2] else nm.abs(tuple(args[1])))
    if op == "hardlink_to":
        return await p.hardlink_to(nm.abs(tuple(args[1])))
    if op == "chmod":
        return await p.chmod(args[1])
    raise ValueError(op)


async def outcome(coro, watchdog: float = 30.0):
    """Run one StreamFlow call: ('ok', value) | ('err', class-or-errno) | ('hang', text) | ('timeout', '')."""
    from streamflow.core.exception import WorkflowExecutionException
    try:
        return ("ok", await asyncio.wait_for(coro, watchdog))
    except FR.ShellWouldBlock as e:
        return ("hang", str(e))
    except FR.CommandBudgetExceeded as e:
        return ("nonterminating", "more than %d remote commands" % BUDGET)
    except (asyncio.TimeoutError, TimeoutError):
        return ("timeout", "")
    except WorkflowExecutionException as e:
        return ("err", "WorkflowExecutionException", str(e)[:300])
    except OSError as e:
        return ("err", ERRNO_NAMES.get(e.errno, type(e).__name__), str(e)[:300])
    except Exception as e:  # noqa - whatever the code under test raises is an observation
        return ("err", type(e).__name__, str(e)[:300])


def agrees(exp, got, remote: bool) -> bool:
    if exp[0] == "err":
        if got[0] != "err":
            return False
        return got[1] == ("WorkflowExecutionException" if remote else exp[1])
    return got[0] == "ok" and got[1] == exp[1] and type(got[1]) is type(exp[1])


# ------------------------------------------------------------------------------------------------
# one worker = one StreamFlow context with a local deployment and one shell-remote location
# ------------------------------------------------------------------------------------------------

class Bench:
    def __init__(self, scratch: str, template: str | None = None):
        self.scratch = os.path.realpath(scratch)
        os.makedirs(self.scratch, exist_ok=True)
        self.W = os.path.join(self.scratch, "w")
        self.ctx = None
        self.template = template

    async def start(self):
        import logging
        from streamflow.log_handler import logger
        logger.setLevel(logging.CRITICAL)
        from . import context as C
        os.umask(0o022)
        self.ctx = C.build(path=self.scratch)
        self.toolbox = FR.Toolbox(os.path.join(self.scratch, "tb"), self.template)
        await self._deploy()
        self.lconn, self.lloc = await FR.deploy_local(self.ctx)
        return self

    async def _deploy(self):
        self.gen = getattr(self, "gen", 0) + 1
        self.dep = "rem%d" % self.gen
        self.conn, locs, roots = await FR.deploy(self.ctx, self.toolbox, self.dep, ["r"])
        self.rloc, self.root = locs["r"], roots["r"]
        self.realW = self.root + self.W

    async def reset_remote(self):
        """After a watchdog expiry the persistent shell is in an unknown state: new deployment."""
        try:
            await asyncio.wait_for(self.ctx.deployment_manager.undeploy(self.dep), 20)
        except Exception:
            pass
        await self._deploy()

    async def stop(self):
        from . import context as C
        try:
            await asyncio.wait_for(C.close(self.ctx), 30)
        except Exception:
            pass

    def mk_local(self, nm):
        from streamflow.data.remotepath import StreamFlowPath
        return lambda path: StreamFlowPath(nm.abs(path), context=self.ctx, location=self.lloc)

    def mk_remote(self, nm):
        from streamflow.data.remotepath import StreamFlowPath
        return lambda path: StreamFlowPath(nm.abs(path), context=self.ctx, location=self.rloc)

    def strays(self):
        s = FR.stray(self.root)
        top = self.W.strip("/").split("/")[0]
        s = [x for x in s if x != top]
        parent = os.path.dirname(self.realW)
        s += ["<parent>/" + x for x in os.listdir(parent) if x != os.path.basename(self.W)]
        return s

    def clean_strays(self):
        for x in self.strays():
            p = os.path.join(os.path.dirname(self.realW), x[9:]) if x.startswith("<parent>/") else os.path.join(self.root, x)
            if os.path.isdir(p) and not os.path.islink(p):
                shutil.rmtree(p, ignore_errors=True)
            else:
                try:
                    os.unlink(p)
                except OSError:
                    pass


def pick_deviation(seed, key: str, op: str):
    """The one deviation from plain names / plain text a transition is re-run with."""
    r = random.Random("%s/%s" % (seed, key))
    ncls = r.choice([k for k in NAME_CLASSES if k != "plain"])
    ccls = r.choices([k for k in CONTENT_CLASSES if k != "text"], weights=[4, 2, 2, 2, 2, 1])[0]
    if op in CONTENT_OPS and r.random() < 0.5:
        return "plain", ccls
    return ncls, "text"


def signature(a, nm: Names, side: str) -> str:
    """operation(variant) : class of the operand : what deviates from plain : which side disagrees
    with the model.  `semantic` = already with plain names and plain text."""
    dev = "semantic" if (nm.ncls, nm.ccls) == ("plain", "text") else \
        "name=%s" % nm.ncls if nm.ncls != "plain" else "content=%s" % nm.ccls
    return "%s%s:%s:%s:%s" % (a["op"], variant(a), a["kind"], dev, side)


async def run_one(b: Bench, state_from, a, state_to, nm: Names, fresh: bool, report):
    """One model transition on both implementations.  `fresh`: (re)build the trees first.
    report(signature, detail, what).  Returns True when trees are still as the model says."""
    exp = expectation(a, nm)
    exp_tree = expected_tree(state_to, nm)
    if fresh:
        build_tree(b.W, state_from, nm)
        build_tree(b.realW, state_from, nm)
    good = True
    results = {}
    for side, mk in (("local", b.mk_local(nm)), ("remote", b.mk_remote(nm))):
        b.conn.budget = BUDGET if side == "remote" else None
        got = await outcome(call(mk, a, nm))
        b.conn.budget = None
        results[side] = got
        snap = FR.snapshot(None if side == "local" else b.root, b.W)
        diff = tree_diff(exp_tree, snap)
        stray = b.strays() if side == "remote" else []
        ok_res = agrees(exp, got, side == "remote")
        if got[0] == "timeout" and side == "remote":
            await b.reset_remote()
        if ok_res and diff is None and not stray:
            continue
        good = False
        what = []
        if not ok_res:
            what.append("result %r, expected %r" % (_short(got), _short(exp)))
        if diff is not None:
            what.append("tree differs (%s at %s: expected %r, found %r)" % (diff[0], diff[1], _short(diff[2]), _short(diff[3])))
        if stray:
            what.append("stray entries outside the tree: %s" % stray)
            b.clean_strays()
        detail = {"from": state_from, "a": a, "to": state_to, "name_class": nm.ncls, "content_class": nm.ccls,
                  "side": side, "expected": exp, "got": got, "tree_diff": diff, "stray": stray,
                  "args_concrete": [nm.abs(tuple(x)) if isinstance(x, list) and all(isinstance(y, str) for y in x) else x
                                    for x in a["args"]],
                  "last_remote_commands": list(b.conn.commands[-4:]) if side == "remote" else []}
        mode_only = ok_res and not stray and diff is not None and diff[0] == "mode"
        report(signature(a, nm, side) + (":mode" if mode_only else ""), detail,
               "%s%s on %s (%s names): %s: %s" % (a["op"], variant(a), a["kind"], nm.ncls, side, "; ".join(what)))
    del b.conn.commands[:-8]
    return good, results


def _short(x, n=160):
    s = repr(x)
    return s if len(s) <= n else s[:n] + "..."


async def run_items(b: Bench, items, seed, report, count):
    """items: parsed TLC lines {"f","t","a","d"}.  Observe lines carry the table of all queries.
    Every transition is executed with plain names and plain text first (a disagreement there is a
    semantic one); if that agrees, once more with ONE deviation drawn per (seed, transition): a
    name class, or - for the operations that touch contents - a content class."""
    plain = Names("plain", "text", b.W)
    for it in items:
        f, t, a = it["f"], it["t"], it["a"]
        key = json.dumps([f, a["op"], a["args"]], sort_keys=True)
        if a["op"] == "observe":
            passed = []
            fresh = True
            for q in a["v"]:
                good, _ = await run_one(b, f, q, f, plain, fresh, report)
                fresh = not good
                count(q["op"], q["kind"], "plain", "text")
                if good:
                    passed.append(q)
            ncls, _ = pick_deviation(seed, key, "observe")
            r = random.Random("%s/%s/c" % (seed, key))
            ccls = r.choices([k for k in CONTENT_CLASSES if k != "text"], weights=[4, 2, 2, 2, 2, 1])[0]
            for nm, qs in ((Names(ncls, "text", b.W), passed),
                           (Names("plain", ccls, b.W), [q for q in passed if q["op"] in CONTENT_OPS])):
                fresh = True
                for q in qs:
                    good, _ = await run_one(b, f, q, f, nm, fresh, report)
                    fresh = not good
                    count(q["op"], q["kind"], nm.ncls, nm.ccls)
        else:
            good, _ = await run_one(b, f, a, t, plain, True, report)
            count(a["op"], a["kind"], "plain", "text")
            if good:
                ncls, ccls = pick_deviation(seed, key, a["op"])
                nm = Names(ncls, ccls, b.W)
                await run_one(b, f, a, t, nm, True, report)
                count(a["op"], a["kind"], ncls, ccls)


def worker(args):
    """Process-pool entry: runs a chunk of items in its own context.  Returns plain data."""
    scratch, template, items, seed = args
    from vh import aio
    out = {"violations": [], "cases": 0, "by_op": {}, "by_kind": {}, "by_class": {}, "by_content": {}, "keys": set(), "error": None}

    def report(sig, detail, what):
        out["violations"].append((sig, detail, what))

    def count(op, kind, ncls, ccls):
        out["cases"] += 1
        out["by_op"][op] = out["by_op"].get(op, 0) + 1
        out["by_kind"][kind] = out["by_kind"].get(kind, 0) + 1
        out["by_class"][ncls] = out["by_class"].get(ncls, 0) + 1
        out["by_content"][ccls] = out["by_content"].get(ccls, 0) + 1
        out["keys"].add("%s:%s:%s:%s" % (op, kind, ncls, ccls))

    async def main():
        b = await Bench(scratch, template).start()
        try:
            await run_items(b, items, seed, report, count)
        finally:
            await b.stop()
    _, exc = aio.run(main(), timeout=None)
    if exc is not None:
        import traceback
        out["error"] = "".join(traceback.format_exception(type(exc), exc, exc.__traceback__))[-3000:]
    return out
