"""Driving the real DefaultDataManager with the operation sequences of specs/DataManager (C21).

Paths of the model (sequences of letters) become "/a/b" strings, locations become real
ExecutionLocation objects of fake deployments (no connector is needed: the data manager only looks
at deployment/name/local/wraps/mounts).  Every answer is obtained through the public API:
register_path, register_relation, invalidate_location, get_data_locations, get_source_location.
"""
from __future__ import annotations

import sys

EXP = {0: "no", 1: "reg", 2: "rel", 3: "any"}


def pstr(p):
    return "/" + "/".join(p)


def make_locations(nlocs: int, wrap: bool, same_dep: bool = False, wrap2: bool = False):
    """wrap: L3 wraps L2 with the mount point /a -> /b; wrap2: L2 wraps L1 with the mount point /b/a -> /b/b
    (both: a stack of depth two, /a/a/x on L3 = /b/a/x on L2 = /b/b/x on L1)."""
    from streamflow.core.deployment import ExecutionLocation
    l1 = ExecutionLocation(name="__LOCAL__", deployment="__LOCAL__", local=True)
    if wrap2:
        l2 = ExecutionLocation(name="n2", deployment="d2", wraps=l1, mounts={"/b/a": "/b/b"})
    else:
        l2 = ExecutionLocation(name="n2", deployment="d2")
    if wrap:
        l3 = ExecutionLocation(name="n3", deployment="d3", wraps=l2, mounts={"/a": "/b"})
    elif same_dep:
        l3 = ExecutionLocation(name="n3", deployment="d2")       # same deployment, other location name
    else:
        l3 = ExecutionLocation(name="n3", deployment="d3")
    return dict(list({"L1": l1, "L2": l2, "L3": l3}.items())[:nlocs])


class Unfollowable(Exception):
    """The behaviour asks for a handle the implementation does not list (only legal where the statement
    leaves the answer open)."""


class Replayer:
    def __init__(self, context, paths, locs):
        from streamflow.core.data import DataType
        from streamflow.data.manager import DefaultDataManager
        self.DataType = DataType
        self.dm = DefaultDataManager(context)
        self.paths = paths                  # list of tuples of letters, in the order of the model's PathSeq
        self.locs = locs                    # dict name -> ExecutionLocation, in the order of LocSeq
        self.last = None
        self.types = {"PRIMARY": DataType.PRIMARY, "SYMLINK": DataType.SYMBOLIC_LINK}

    # ---- operations -------------------------------------------------------------------------
    def _handle(self, d):
        if d[0] == "last":
            if self.last is None:
                raise Unfollowable("no held handle")
            return self.last
        path, loc = pstr(d[1]), self.locs[d[2]]
        objs = self.dm.get_data_locations(path, loc.deployment, loc.name)
        own = [o for o in objs if o.path == path]
        if not own:
            raise Unfollowable("no own object listed for %s on %s" % (path, d[2]))
        return own[0]

    def apply(self, op):
        """Returns the name of the exception class raised by the code under test, or None."""
        lim = sys.getrecursionlimit()
        try:
            if op[0] == "reg":
                self.last = None
                self.last = self.dm.register_path(self.locs[op[1]], pstr(op[2]), data_type=self.types[op[3]])
            elif op[0] == "rel":
                src, dst = self._handle(op[1]), self._handle(op[2])
                self.dm.register_relation(src, dst)
            elif op[0] == "inv":
                self.last = None
                # a lower limit makes an unbounded recursion cheap to observe; legitimate nesting is tiny
                sys.setrecursionlimit(min(lim, 400))
                self.dm.invalidate_location(self.locs[op[1]], pstr(op[2]))
            else:
                raise ValueError(op)
        except Unfollowable:
            raise
        except BaseException as e:      # noqa: an exception of the code under test is an observation
            if isinstance(e, (KeyboardInterrupt, SystemExit)):
                raise
            return type(e).__name__
        finally:
            sys.setrecursionlimit(lim)
        return None

    # ---- observations -----------------------------------------------------------------------
    def listing(self, p, lname, dtype=None):
        loc = self.locs[lname]
        return self.dm.get_data_locations(pstr(p), loc.deployment, loc.name, dtype)

    def avail_row(self):
        return [1 if self.listing(p, l) else 0 for p in self.paths for l in self.locs]

    def listing_defects(self):
        """Self-consistency of get_data_locations over every (path, deployment, name, type) tuple."""
        DT = self.DataType
        bad = []
        for p in self.paths:
            allobjs = self.dm.get_data_locations(pstr(p))
            per_cell = []
            for lname, loc in self.locs.items():
                objs = self.listing(p, lname)
                per_cell += objs
                for o in objs:
                    if o.deployment != loc.deployment or o.name != loc.name:
                        bad.append(("foreign-object", pstr(p), lname, o.path, str(o.location)))
                    if o.data_type == DT.INVALID:
                        bad.append(("invalid-object-listed", pstr(p), lname, o.path))
                typed = []
                for t in (DT.PRIMARY, DT.SYMBOLIC_LINK):
                    tl = self.listing(p, lname, t)
                    typed += tl
                    if any(o.data_type != t for o in tl):
                        bad.append(("type-filter", pstr(p), lname, t.name))
                if sorted(map(id, typed)) != sorted(map(id, objs)):
                    bad.append(("typed-union", pstr(p), lname))
                if self.listing(p, lname, DT.INVALID):
                    bad.append(("invalid-filter-lists", pstr(p), lname))
                by_name = self.dm.get_data_locations(pstr(p), location_name=loc.name)
                if any(o.name != loc.name for o in by_name) or not set(map(id, objs)) <= set(map(id, by_name)):
                    bad.append(("name-filter", pstr(p), lname))
            if sorted(map(id, allobjs)) != sorted(map(id, per_cell)):
                bad.append(("unfiltered-union", pstr(p)))
        return bad

    def source_defects(self, exp_cell):
        """get_source_location(path, dst) for every path and destination deployment: the answer must be one of
        the PRIMARY copies listed for that path (None iff there is none) and must not live where the path
        has to be unavailable.  The coroutine never needs to suspend (all copies are available)."""
        DT = self.DataType
        bad = []
        row = []
        deps = sorted({l.deployment for l in self.locs.values()}) + ["elsewhere"]
        for p in self.paths:
            prim = self.dm.get_data_locations(pstr(p), data_type=DT.PRIMARY)
            some = 0
            for dep in deps:
                co = self.dm.get_source_location(pstr(p), dep)
                try:
                    co.send(None)
                    co.close()
                    bad.append(("blocks", pstr(p), dep))
                    continue
                except StopIteration as s:
                    r = s.value
                except Exception as e:
                    bad.append(("raises:%s" % type(e).__name__, pstr(p), dep))
                    continue
                if r is None:
                    if prim:
                        bad.append(("none-although-primary-listed", pstr(p), dep))
                    continue
                some = 1
                if r.data_type != DT.PRIMARY:
                    bad.append(("not-primary:%s" % r.data_type.name, pstr(p), dep))
                elif not any(r is o for o in prim):
                    bad.append(("not-a-listed-copy", pstr(p), dep, r.path, str(r.location)))
                else:
                    lname = next((n for n, l in self.locs.items() if l.deployment == r.deployment and l.name == r.name), None)
                    if lname is None or exp_cell(p, lname) == "no":
                        bad.append(("copy-on-invalidated-location", pstr(p), dep, str(r.location)))
            row.append(some)
        return bad, row
