"""C25 support: concrete instantiation of character classes, probe/command scripts, a minimal concrete
BaseConnector (the "remote" of this offline harness) and runners for the quoting sites."""
from __future__ import annotations

import asyncio
import os
import shlex
import shutil

CHARS = {"plain": "k", "space": " ", "squote": "'", "dquote": '"', "dollar": "$", "btick": "`",
         "bslash": "\\", "newline": "\n", "semi": ";", "nonascii": "é", "star": "*"}
CLASS_OF = {v: k for k, v in CHARS.items()}
ENV_KEY = "VHK"      # variables VHK0, VHK1, ...
UNSET = "__VH_UNSET__"


def concrete(classes) -> str:
    return "".join(CHARS[c] for c in classes)


def classes_of(s: str):
    return [CLASS_OF.get(ch, "other") for ch in s]


def cls_name(classes) -> str:
    return "-".join(classes) if classes else "empty"


PROBE = r"""#!/bin/sh
# usage: probe.sh OUTPREFIX N [args...]  -- dumps VHK0..VHK(N-1), cwd and argv as raw bytes (NUL separated)
out="$1"; n="$2"; shift 2
: > "$out.env"
i=0
while [ "$i" -lt "$n" ]; do
  eval "val=\${VHK$i-__VH_UNSET__}"
  printf '%s\000' "$val" >> "$out.env"
  i=$((i+1))
done
pwd -P > "$out.cwd"
: > "$out.argv"
for a in "$@"; do printf '%s\000' "$a" >> "$out.argv"; done
echo run >> "$out.runs"
printf 'probe-ok'
"""


def write_probe(d: str) -> str:
    p = os.path.join(d, "probe.sh")
    with open(p, "w") as f:
        f.write(PROBE)
    os.chmod(p, 0o755)
    return p


def read_probe(out: str) -> dict:
    """What the probe saw; {'ran': 0} when it never ran."""
    res = {"ran": 0, "env": None, "cwd": None, "argv": None}
    try:
        with open(out + ".runs") as f:
            res["ran"] = len(f.read().splitlines())
    except FileNotFoundError:
        return res
    with open(out + ".env", "rb") as f:
        res["env"] = f.read().decode("utf-8", "surrogateescape").split("\0")[:-1]
    with open(out + ".cwd", "rb") as f:
        c = f.read().decode("utf-8", "surrogateescape")
        res["cwd"] = c[:-1] if c.endswith("\n") else c
    with open(out + ".argv", "rb") as f:
        a = f.read().decode("utf-8", "surrogateescape")
        res["argv"] = a.split("\0")[:-1]
    return res


def make_remote_class():
    """A concrete BaseConnector: everything (run, get_shell, fallback) is inherited unchanged."""
    from streamflow.deployment.connector.base import BaseConnector

    class ShellRemote(BaseConnector):
        async def deploy(self, external: bool) -> None:
            pass

        async def get_available_locations(self, service=None):
            return {}

        @classmethod
        def get_schema(cls) -> str:
            return ""

    return ShellRemote


def location(name="loc0", deployment="vh"):
    from streamflow.core.deployment import ExecutionLocation
    return ExecutionLocation(name=name, deployment=deployment)


def describe_exc(e: BaseException) -> str:
    return "%s: %s" % (type(e).__name__, str(e)[:200])


async def guarded(coro, watchdog: float):
    """(result, None) | (None, exception).  A watchdog expiry is reported as HarnessTimeout."""
    try:
        return await asyncio.wait_for(coro, watchdog), None
    except asyncio.TimeoutError as e:
        # either the code under test raised TimeoutError itself or the watchdog fired: tell them apart
        return None, e
    except asyncio.CancelledError:
        raise
    except BaseException as e:  # noqa: B902 - exceptions of the code under test are observations
        if isinstance(e, (KeyboardInterrupt, SystemExit)):
            raise
        return None, e


def which_any(names):
    return [n for n in names if shutil.which(n)]


def sh_quote(s: str) -> str:
    return shlex.quote(s)
