"""C30 helper: turn a tool description of specs/CWLBinding (TLC's JSON) plus a text assignment into a CWL v1.2
CommandLineTool + job, run it with cwltool (the oracle) and with StreamFlow's CWL runner (in-process, local
execution through CWLCommand -> create_command -> LocalConnector -> /bin/sh) and read back what the probe saw.

Everything here runs inside pool worker processes (see `init_worker`); nothing is written outside the scratch
directory handed to `init_worker`."""
from __future__ import annotations

import contextlib
import io
import json
import logging
import os
import re
import shutil
import signal
import sys
import tempfile

# ----------------------------------------------------------------------------------------------------------
# text: character classes
# ----------------------------------------------------------------------------------------------------------
# values of the job object: any content
VALUE_CLASSES = {
    "plain": "abc",
    "space": "a  b c",
    "squote": "it's",
    "dquote": 'say "hi" x',
    "dollar": "a$HOME$$b",
    "dollarparen": "$(echo X)",
    "backtick": "`echo X`",
    "backslash": "a\\b\\\\c\\",
    "newline": "l1\nl2",
    "semicolon": "a;echo X",
    "glob": "*",
    "nonascii": "h\u00e9llo\u2192\u00fc",
    "empty": "",
    "dash": "-x",
    "amp": "a&b|c>d",
    "hash": "#x y",
    "tilde": "~",
    "tab": "a\tb",
}
# literal text of the CWL document (prefix, itemSeparator, literal valueFrom, argument strings, envValue):
# no "$(" / "${" (that would be an expression) and never empty
DOC_CLASSES = {k: v for k, v in VALUE_CLASSES.items() if k not in ("dollarparen", "empty")}
DOC_CLASSES.update({"plain": "-p", "dash": "--opt=", "dollar": "a$HOME$b"})
# file names (basename of File inputs, stdout/stderr names): no "/" and not empty
NAME_CLASSES = {
    "plain": "f.txt", "space": "f  x.txt", "squote": "it's.txt", "dquote": 'q"q.txt', "dollar": "a$HOME.txt",
    "backtick": "`echo X`.txt", "backslash": "a\\b.txt", "semicolon": "a;b.txt", "glob": "*.txt",
    "nonascii": "h\u00e9\u2192.txt", "dash": "-x.txt", "amp": "a&b.txt", "tilde": "~x",
}
# names of the stdout/stderr files are literal text of the document (no "$(") and must not be glob patterns
# (the outputs of type stdout/stderr are collected by name)
SNAME_CLASSES = {k: v for k, v in NAME_CLASSES.items() if k not in ("glob",)}
NAME_CLASSES["dollarparen"] = "$(echo X).txt"
# fixed texts of the shell classes (words that are NOT shell-quoted) and of the fragments sh makes of them
SHELL_SEMS = {"plain": "pl-1", "space": "l r", "empty": "", "sqwrap": "'q  w'", "envref": "$SFV_REF", "refval": "ref-val"}
FIX_TEXT = {"sp.l": "l", "sp.r": "r", "sq.in": "q  w", "envref.val": "ref-val"}
INT_CLASSES = {"plain": 7, "int0": 0, "intneg": -3, "intmax": 2147483647, "int10": 10}

PROBE_SRC = r'''
import json, os, stat, sys
data = {"argv": sys.argv[1:], "env": {k: v for k, v in os.environ.items() if k.startswith("SFV_")},
        "stdin": None, "cwd_is_home": os.environ.get("HOME") == os.getcwd(), "cwd": os.getcwd(),
        "HOME": os.environ.get("HOME"), "TMPDIR": os.environ.get("TMPDIR"),
        "tmp_isdir": os.path.isdir(os.environ.get("TMPDIR") or "/nonexistent")}
try:
    if stat.S_ISREG(os.fstat(0).st_mode):
        data["stdin"] = sys.stdin.buffer.read().decode("utf-8", "surrogateescape")
except Exception as e:
    data["stdin"] = "ERR:%r" % (e,)
with open("probe.json", "w") as f:
    json.dump(data, f)
sys.stdout.write("PROBE-STDOUT\n")
sys.stdout.flush()
sys.stderr.write("PROBE-STDERR\n")
'''


# ----------------------------------------------------------------------------------------------------------
# slots of a tool description and their concrete text
# ----------------------------------------------------------------------------------------------------------
def slots_of(tool: dict) -> list:
    """Every piece of text of the tool: (slot key, kind, sem).  kind: value|doc|name|int"""
    out = []

    def binding(o, of, i, b):
        if not b["has"]:
            return
        if b["prefix"]:
            out.append((("pre", o, of, i), "doc", b["prefix"]))
        if b["isep"]:
            out.append((("sep", o, of, i), "doc", b["isep"]))
        if b["vf"] == "lit":
            out.append((("lit", o, of, i), "doc", b["vfsem"]))

    for f in tool["inputs"]:
        v = f["val"]
        items = v["v"] if v["t"] == "arr" else [v]
        for j, it in enumerate(items):
            idx = (j + 1) if v["t"] == "arr" else 0
            if it["t"] == "str":
                out.append((("val", "in", f["name"], idx), "value", it["s"]))
            elif it["t"] == "int":
                out.append((("val", "in", f["name"], idx), "int", "plain"))
            elif it["t"] == "file":
                out.append((("path", "in", f["name"], idx), "name", it["s"]))
                out.append((("content", "in", f["name"], idx), "value", "any"))
        binding("in", f["name"], 0, f["b"])
        binding("item", f["name"], 0, f["ib"])
    for i, a in enumerate(tool["args"]):
        if a["kind"] == "str":
            out.append((("lit", "arg", "", i), "doc", a["sem"]))
        elif a["kind"] == "rec":
            binding("arg", "", i, a["b"])
    for k, e in enumerate(tool["env"]):
        if e["kind"] == "lit":
            out.append((("lit", "env", e["name"], k + 1), "doc", e["sem"]))
    if tool["stdout"]:
        out.append((("stdout",), "sname", tool["stdout"]))
    if tool["stderr"]:
        out.append((("stderr",), "sname", tool["stderr"]))
    return out


def text_for(kind: str, sem: str, cls: str, n: int = 0, what: str = ""):
    """Concrete content of a slot of `kind` whose model class is `sem`, given the chosen character class.
    Plain text is different for every slot (n = ordinal of the slot) so that a difference can be located."""
    if kind == "int":
        return INT_CLASSES[cls] if cls != "plain" else 100 + n
    if sem == "plain":
        return "pl-%d" % n
    if sem != "any":
        return SHELL_SEMS[sem]
    if cls == "plain":
        if kind == "value":
            return "v%d" % n
        if kind == "doc":
            return {"pre": "-p%d", "sep": ":%d:"}.get(what, "d%d") % n
        return "f%d.txt" % n
    table = {"value": VALUE_CLASSES, "doc": DOC_CLASSES, "name": NAME_CLASSES, "sname": SNAME_CLASSES}[kind]
    return table[cls]


def hash_index(s: str, n: int) -> int:
    return sum(ord(c) for c in s) % n


def classes_for(kind: str) -> list:
    return sorted({"value": VALUE_CLASSES, "doc": DOC_CLASSES, "name": NAME_CLASSES, "sname": SNAME_CLASSES, "int": INT_CLASSES}[kind])


def atom_key(a: dict):
    return (a["k"], a["o"], a["of"], a["i"])


# the designated directories of a job (atoms of kind "rt"): compared as tags, see runtime_view
RT_TAG = {"outdir": "<OUTDIR>", "tmpdir": "<TMPDIR>"}


def atom_text(a: dict, text: dict) -> str:
    if a["k"] == "rt":
        return RT_TAG[a["of"]]
    return str(text[atom_key(a)])


def with_vals(tool: dict, vals: list) -> dict:
    """CWLBinding!WithVals: the tool with the input values of another job of the step."""
    t = dict(tool)
    t["inputs"] = [dict(f, val=v) for f, v in zip(tool["inputs"], vals, strict=True)]
    return t


def runtime_view(obs: dict, tool: dict, others=()) -> None:
    """Replace the job's designated directories in what the probe saw by tags (they differ from run to run):
    obs["rt"] = {"HOME": tag, "TMPDIR": tag}, obs["env"] values that are one of the directories -> tag.
    Output directory of the job := the directory its process was started in.  Temporary directory := $TMPDIR; when
    the tool also publishes $(runtime.tmpdir) (EnvVarRequirement of kind "rt") and the two differ, the one that is
    NOT also a directory of another job of the step is taken as the job's own and the other one is blamed (if
    neither is, both are reported).  `others`: the raw observations of the other jobs of the same step."""
    if not obs.get("ok"):
        return
    tvar = next((e["name"] for e in tool["env"] if e["kind"] == "rt" and e["ref"] == "tmpdir"), None)
    live = [o for o in others if o.get("ok")]

    def published(o):
        env = o.get("env_raw", o.get("env")) or {}
        return env.get(tvar) if tvar else None

    def own_tmp(o, rest):
        t, v = o.get("TMPDIR"), published(o)
        if v is not None and v != t and any(t == x.get("TMPDIR") for x in rest):
            return v            # $TMPDIR is (also) another job's: believe $(runtime.tmpdir)
        return t

    out, tmp = obs.get("cwd"), own_tmp(obs, live)
    oth = [(o.get("cwd"), own_tmp(o, [x for x in live if x is not o] + [obs])) for o in live]

    def tag(v):
        if v is None:
            return "<unset>"
        if v == out:
            return "<OUTDIR>"
        if v == tmp:
            return "<TMPDIR>"
        if any(v == o for o, _ in oth):
            return "<OUTDIR of another job>"
        if any(v == t for _, t in oth):
            return "<TMPDIR of another job>"
        return v

    obs["env_raw"] = dict(obs.get("env") or {})
    obs["env"] = {k: (tag(v) if os.path.isabs(v) else v) for k, v in obs["env_raw"].items()}
    t = tag(obs.get("TMPDIR"))
    if t == "<TMPDIR>":
        v = published(obs)
        if v is None and any(obs.get("TMPDIR") == o.get("TMPDIR") for o in live):
            # (without $(runtime.tmpdir) nothing tells which of the jobs the directory belongs to)
            t = "<TMPDIR shared with another job>"
        elif not obs.get("tmp_isdir"):
            t = "<TMPDIR: not a directory>"
        elif v is not None and tag(v) == v:      # differs from $(runtime.tmpdir), which is nobody's directory either
            t = "<TMPDIR differs from runtime.tmpdir>"
    obs["rt"] = {"HOME": tag(obs.get("HOME")), "TMPDIR": t}


# ----------------------------------------------------------------------------------------------------------
# rendering
# ----------------------------------------------------------------------------------------------------------
def render(tool: dict, text: dict, probe: str, indir: str, explicit_zero: bool = False):
    """-> (cwl document dict, job dict, names of stdout/stderr files).  `text`: slot key -> content."""

    def bnd(o, of, i, b):
        d = {}
        if b["pos"] != 0 or explicit_zero:
            d["position"] = b["pos"]
        if b["prefix"]:
            d["prefix"] = text[("pre", o, of, i)]
        if b["sep"] != "default":
            d["separate"] = b["sep"] == "true"
        if b["isep"]:
            d["itemSeparator"] = text[("sep", o, of, i)]
        if b["vf"] == "lit":
            d["valueFrom"] = text[("lit", o, of, i)]
        elif b["vf"] == "self":
            d["valueFrom"] = "$(self)"
        elif b["vf"] == "ref":
            d["valueFrom"] = "$(inputs.%s)" % b["vfref"]
        if b["sq"] != "default":
            d["shellQuote"] = b["sq"] == "true"
        return d

    doc = {"cwlVersion": "v1.2", "class": "CommandLineTool", "baseCommand": [sys.executable, "-I", "-S", probe],
           "inputs": {}, "outputs": {"probe": {"type": "File", "outputBinding": {"glob": "probe.json"}}}}
    reqs = {}
    if tool["shell"]:
        reqs["ShellCommandRequirement"] = {}
    if tool["env"]:
        reqs["EnvVarRequirement"] = {"envDef": [
            {"envName": e["name"], "envValue": text[("lit", "env", e["name"], k + 1)] if e["kind"] == "lit"
             else "$(runtime.%s)" % e["ref"] if e["kind"] == "rt"
             else "$(inputs.%s)" % e["ref"]} for k, e in enumerate(tool["env"])]}
    if reqs:
        doc["requirements"] = reqs
    job = {}
    for f in tool["inputs"]:
        name = f["name"]
        base = f["ty"].rstrip("[]")
        if f["ty"].endswith("[]"):
            ty = {"type": "array", "items": base}
            if f["ib"]["has"]:
                ty["inputBinding"] = bnd("item", name, 0, f["ib"])
        else:
            ty = base
        if f["opt"]:
            ty = ["null", ty]
        port = {"type": ty}
        if f["b"]["has"]:
            port["inputBinding"] = bnd("in", name, 0, f["b"])
        doc["inputs"][name] = port

        def val(v, idx):
            if v["t"] in ("str", "int"):
                return text[("val", "in", name, idx)]
            if v["t"] == "bool":
                return v["b"]
            if v["t"] == "null":
                return None
            if v["t"] == "file":
                d = os.path.join(indir, "%s_%d" % (name, idx))
                os.makedirs(d, exist_ok=True)
                p = os.path.join(d, text[("path", "in", name, idx)])
                with open(p, "w", encoding="utf-8") as fh:
                    fh.write(text[("content", "in", name, idx)])
                return {"class": "File", "path": p}
            raise ValueError(v)

        v = f["val"]
        job[name] = [val(it, j + 1) for j, it in enumerate(v["v"])] if v["t"] == "arr" else val(v, 0)
    if tool["args"]:
        doc["arguments"] = []
        for i, a in enumerate(tool["args"]):
            if a["kind"] == "str":
                doc["arguments"].append(text[("lit", "arg", "", i)])
            elif a["kind"] == "expr":
                doc["arguments"].append("$(inputs.%s)" % a["ref"])
            else:
                doc["arguments"].append(bnd("arg", "", i, a["b"]))
    names = {}
    if tool["stdin"]:
        doc["stdin"] = "$(inputs.%s.path)" % tool["stdin"]
    if tool["stdout"]:
        doc["stdout"] = names["stdout"] = text[("stdout",)]
        doc["outputs"]["out"] = {"type": "stdout"}
    if tool["stderr"]:
        doc["stderr"] = names["stderr"] = text[("stderr",)]
        doc["outputs"]["err"] = {"type": "stderr"}
    return doc, job, names


def expected_of(exp: dict, tool: dict, text: dict) -> dict:
    """Instantiate TLC's expected answer.  argv words: list of pieces ("t", text) / ("p", basename)."""

    def piece(a):
        if a["k"] == "fix":
            return ("t", FIX_TEXT[a["of"]])
        if a["k"] == "path":
            return ("p", text[("path", a["o"], a["of"], a["i"])])
        return ("t", atom_text(a, text))

    argv = [[piece(a) for a in w] for w in exp["argv"]]
    env = {e["name"]: "".join(atom_text(a, text) for a in e["text"]) for e in exp["env"]}
    stdin = text[("content", "in", exp["stdin"], 0)] if exp["stdin"] else None
    return {"argv": argv, "env": env, "stdin": stdin,
            "rt": {e["name"]: "".join(atom_text(a, text) for a in e["text"]) for e in exp["rtenv"]},
            "stdout": text[("stdout",)] if exp["stdout"] else None,
            "stderr": text[("stderr",)] if exp["stderr"] else None}


_DIR = r"(?:/[A-Za-z0-9._\-]+)*/"


def word_regex(pieces) -> str:
    return "".join(re.escape(s) if k == "t" else _DIR + re.escape(s) for k, s in pieces)


def canon_word(pieces) -> str:
    return "".join(s if k == "t" else "<DIR>/" + s for k, s in pieces)


def normalise_argv(argv, expected_words):
    """Replace staging directories by <DIR> in the words that are expected to hold a path (position-wise and,
    failing that, any word that matches one of the expected path patterns)."""
    if not isinstance(argv, list):
        return argv
    pats = [(re.compile(word_regex(w), re.S), canon_word(w)) for w in expected_words if any(k == "p" for k, _ in w)]
    out = []
    for w in argv:
        for rx, canon in pats:
            if rx.fullmatch(w):
                w = canon
                break
        out.append(w)
    return out


# ----------------------------------------------------------------------------------------------------------
# running (inside a worker process)
# ----------------------------------------------------------------------------------------------------------
_W = {}


class _Timeout(Exception):
    pass


def _alarm(signum, frame):
    raise _Timeout()


def init_worker(scratch: str):
    d = tempfile.mkdtemp(prefix="w_", dir=scratch)
    os.environ["TMPDIR"] = d
    tempfile.tempdir = d
    os.environ["HOME"] = d
    os.chdir(d)
    probe = os.path.join(d, "probe.py")
    with open(probe, "w") as f:
        f.write(PROBE_SRC)
    devnull = os.open(os.devnull, os.O_WRONLY)
    os.dup2(devnull, 1)
    os.dup2(devnull, 2)
    logging.getLogger("cwltool").setLevel(logging.ERROR)
    import cwltool.main  # noqa
    import cwltool.loghandler  # noqa
    from streamflow.cwl.runner import main as sf_main
    from streamflow.log_handler import logger as sf_logger
    _W.update(dir=d, probe=probe, cwltool=cwltool.main, sf_main=sf_main, sf_logger=sf_logger, n=0)
    signal.signal(signal.SIGALRM, _alarm)


SF_FILE = ("version: v1.0\nworkflows:\n  w:\n    type: cwl\n    config:\n      file: tool.cwl\n      settings: job.json\n"
           "database:\n  type: default\n  config:\n    connection: ':memory:'\n")


def _collect(outdir: str, names: dict) -> dict:
    res = {"ok": False}
    p = os.path.join(outdir, "probe.json")
    if os.path.exists(p):
        try:
            with open(p) as f:
                res.update(json.load(f))
            res["ok"] = True
        except Exception as e:
            res["error"] = "unreadable probe.json: %r" % (e,)
    for k, n in names.items():
        fp = os.path.join(outdir, n)
        if os.path.isfile(fp):
            with open(fp, "rb") as f:
                res[k] = f.read().decode("utf-8", "replace")
        else:
            res[k] = None
    return res


class _Capture(logging.Handler):
    def __init__(self):
        super().__init__(level=logging.WARNING)
        self.lines = []

    def emit(self, record):
        try:
            self.lines.append(record.getMessage()[-600:])
        except Exception:
            pass


def _ref_run(cd: str, doc: str, job: str, outdir: str, timeout: int):
    """cwltool in-process -> (rc, log)"""
    w = _W
    so, se = io.StringIO(), io.StringIO()
    rc = None
    signal.alarm(timeout)
    try:
        rc = w["cwltool"].main(argsl=["--no-container", "--quiet", "--relax-path-checks", "--outdir", outdir,
                                      os.path.join(cd, doc), os.path.join(cd, job)], stdout=so, stderr=se)
    except _Timeout:
        rc = "timeout"
    except BaseException as e:  # noqa
        rc = "raise:%s" % type(e).__name__
    finally:
        signal.alarm(0)
    return rc, se.getvalue()[-800:]


def _sf_run(cd: str, sf_yml: str, doc: str, job: str, outdir: str, timeout: int):
    """streamflow.cwl.runner in-process -> (rc, what it printed on stdout, log)"""
    w = _W
    cap = _Capture()
    w["sf_logger"].addHandler(cap)
    cwd = os.getcwd()
    os.chdir(cd)
    buf = io.StringIO()
    signal.alarm(timeout)
    try:
        with contextlib.redirect_stdout(buf):
            rc = w["sf_main"](["--quiet", "--streamflow-file", os.path.join(cd, sf_yml), "--outdir", outdir,
                               os.path.join(cd, doc), os.path.join(cd, job)])
    except _Timeout:
        rc = "timeout"
    except BaseException as e:  # noqa
        rc = "raise:%s" % type(e).__name__
    finally:
        signal.alarm(0)
        os.chdir(cwd)
        w["sf_logger"].removeHandler(cap)
    return rc, buf.getvalue(), "\n".join(cap.lines)[-800:]


def run_case(case: dict) -> dict:
    """case: {"id", "tool", "text": [[slot key list, content]...], "explicit_zero", "timeout"} ->
    {"id", "ref": {...}, "sf": {...}}; every failure of a runner is an observation, not an exception.
    A case with "jobs" is a STEP (see run_step)."""
    if case.get("jobs"):
        return run_step(case)
    w = _W
    w["n"] += 1
    cd = os.path.join(w["dir"], "c%d" % w["n"])
    indir = os.path.join(cd, "in")
    os.makedirs(indir)
    text = {tuple(k): v for k, v in case["text"]}
    out = {"id": case["id"]}
    try:
        doc, job, names = render(case["tool"], text, w["probe"], indir, case.get("explicit_zero", False))
        with open(os.path.join(cd, "tool.cwl"), "w") as f:
            json.dump(doc, f)
        with open(os.path.join(cd, "job.json"), "w") as f:
            json.dump(job, f)
        with open(os.path.join(cd, "sf.yml"), "w") as f:
            f.write(SF_FILE)
        out["doc"], out["job"] = doc, job
        timeout = int(case.get("timeout", 120))
        # --- the oracle
        ref_out = os.path.join(cd, "ref")
        rc, log = _ref_run(cd, "tool.cwl", "job.json", ref_out, timeout)
        out["ref"] = _collect(ref_out, names)
        out["ref"]["rc"] = rc
        if not out["ref"]["ok"]:
            out["ref"]["log"] = log
        # --- StreamFlow
        sf_out = os.path.join(cd, "sf")
        rc, _, log = _sf_run(cd, "sf.yml", "tool.cwl", "job.json", sf_out, timeout)
        out["sf"] = _collect(sf_out, names)
        out["sf"]["rc"] = rc
        if not out["sf"]["ok"]:
            out["sf"]["log"] = log
        runtime_view(out["ref"], case["tool"])
        runtime_view(out["sf"], case["tool"])
    except BaseException as e:  # noqa  (harness-side problem: reported as machinery error by the driver)
        import traceback
        out["harness_error"] = traceback.format_exc()[-1500:]
    finally:
        shutil.rmtree(cd, ignore_errors=True)
        # StreamFlow's local job directories of this run
        shutil.rmtree(os.path.join(w["dir"], "streamflow"), ignore_errors=True)
    return out


# ----------------------------------------------------------------------------------------------------------
# steps: one tool, several jobs (CWLBinding "Steps")
# ----------------------------------------------------------------------------------------------------------
def _plain_type(ty):
    """The type without command-line bindings (a workflow parameter has none)."""
    if isinstance(ty, list):
        return [_plain_type(t) for t in ty]
    if isinstance(ty, dict):
        return {k: _plain_type(v) if k in ("type", "items") else v for k, v in ty.items() if k != "inputBinding"}
    return ty


def step_workflow(doc: dict) -> dict:
    """A workflow whose only step scatters the tool (tool.cwl) over ALL its inputs (dotproduct): element j of
    every input array is the value of that input in job j, so one CWLCommand object executes all the jobs."""
    names = list(doc["inputs"])
    outs = list(doc["outputs"])
    step = {"run": "tool.cwl", "scatter": names if len(names) > 1 else names[0], "in": {n: n for n in names}, "out": outs}
    if len(names) > 1:
        step["scatterMethod"] = "dotproduct"
    return {"cwlVersion": "v1.2", "class": "Workflow", "requirements": {"ScatterFeatureRequirement": {}},
            "inputs": {n: {"type": {"type": "array", "items": _plain_type(doc["inputs"][n]["type"])}} for n in names},
            "outputs": {o: {"type": {"type": "array", "items": "File"}, "outputSource": "s/" + o} for o in outs},
            "steps": {"s": step}}


def _collect_listed(result: dict, j: int, names: dict) -> dict:
    """Observations of job j from the output object of the scattered workflow (arrays in scatter order)."""
    res = {"ok": False}
    try:
        with open(result["probe"][j]["path"]) as f:
            res.update(json.load(f))
        res["ok"] = True
    except Exception as e:
        res["error"] = "no readable probe output for job %d: %r" % (j + 1, e)
    for k in names:
        try:
            with open(result[{"stdout": "out", "stderr": "err"}[k]][j]["path"], "rb") as f:
                res[k] = f.read().decode("utf-8", "replace")
        except Exception:
            res[k] = None
    return res


def run_step(case: dict) -> dict:
    """case: {"id", "jobs": [{"tool", "text"}...], "explicit_zero", "timeout"}: the jobs share the description
    (every tool differs from the first in the input values only).  The oracle runs the tool ALONE on the inputs
    of every job; StreamFlow runs the tool scattered over the jobs.  -> {"id", "jobs": [{"ref", "sf"}...], ...}"""
    w = _W
    w["n"] += 1
    cd = os.path.join(w["dir"], "c%d" % w["n"])
    os.makedirs(cd)
    out = {"id": case["id"]}
    try:
        timeout = int(case.get("timeout", 120))
        docs, jobs, names = [], [], {}
        for j, jb in enumerate(case["jobs"]):
            indir = os.path.join(cd, "in%d" % (j + 1))
            os.makedirs(indir)
            d, jo, names = render(jb["tool"], {tuple(k): v for k, v in jb["text"]}, w["probe"], indir, case.get("explicit_zero", False))
            docs.append(d)
            jobs.append(jo)
        if any(d != docs[0] for d in docs):
            raise RuntimeError("the jobs of a step do not share one tool description")
        doc, wf = docs[0], step_workflow(docs[0])
        wjob = {n: [jo[n] for jo in jobs] for n in doc["inputs"]}
        for name, obj in (("tool.cwl", doc), ("wf.cwl", wf), ("wjob.json", wjob)):
            with open(os.path.join(cd, name), "w") as f:
                json.dump(obj, f)
        with open(os.path.join(cd, "sf.yml"), "w") as f:
            f.write(SF_FILE.replace("tool.cwl", "wf.cwl").replace("job.json", "wjob.json"))
        out.update(doc=doc, job=jobs, wf=wf)
        # --- the oracle: every job alone
        refs = []
        for j, jo in enumerate(jobs):
            with open(os.path.join(cd, "job%d.json" % (j + 1)), "w") as f:
                json.dump(jo, f)
            ref_out = os.path.join(cd, "ref%d" % (j + 1))
            rc, log = _ref_run(cd, "tool.cwl", "job%d.json" % (j + 1), ref_out, timeout)
            r = _collect(ref_out, names)
            r["rc"] = rc
            if not r["ok"]:
                r["log"] = log
            refs.append(r)
        # --- StreamFlow: one step, len(jobs) jobs
        sf_out = os.path.join(cd, "sf")
        rc, printed, log = _sf_run(cd, "sf.yml", "wf.cwl", "wjob.json", sf_out, timeout * 2)
        try:
            result = json.loads(printed[printed.index("{"):])
        except Exception:
            result = {}
        if rc not in (0, None) or not result.get("probe"):
            # is the step workflow the harness wrote a valid one?  (the reference must be able to run it)
            wrc, wlog = _ref_run(cd, "wf.cwl", "wjob.json", os.path.join(cd, "refwf"), timeout * 2)
            if wrc != 0:
                raise RuntimeError("the reference cannot run the step workflow written by the harness (rc=%s): %s" % (wrc, wlog))
        sfs = []
        for j in range(len(jobs)):
            r = _collect_listed(result, j, names) if rc in (0, None) else {"ok": False}
            r["rc"] = rc
            if not r["ok"]:
                r["log"] = log
            sfs.append(r)
        for j, jb in enumerate(case["jobs"]):
            runtime_view(refs[j], jb["tool"])
            runtime_view(sfs[j], jb["tool"], [o for i, o in enumerate(sfs) if i != j])
        out["jobs"] = [{"ref": r, "sf": s} for r, s in zip(refs, sfs)]
    except BaseException as e:  # noqa
        import traceback
        out["harness_error"] = traceback.format_exc()[-1500:]
    finally:
        shutil.rmtree(cd, ignore_errors=True)
        shutil.rmtree(os.path.join(w["dir"], "streamflow"), ignore_errors=True)
    return out
