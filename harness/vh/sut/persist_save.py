"""Binding of `PersistenceSave` (C08, Part 4): CONCURRENT saves of shared persistable entities on the real classes.

A shape emitted by MC_PersistenceSave (an entity graph: a token DAG, or a workflow whose steps share targets /
deployments / filters, or a workflow saved by two tasks) is instantiated with real objects and saved by real
`entity.save(database)` calls on the real SqliteDatabase, whose row-writing methods are wrapped at their public names
(`add_workflow/port/step/token/target/deployment/filter`, `update_step`): the wrapper records the call (`Issue`: which
entity, which ids of other entities the row refers to), executes the real statement and then PARKS; the completion
is delivered when the driver says so.  The driver acts only when every task is blocked (no task ready, no statement
executing), i.e. only at the genuinely nondeterministic points: which database call completes next, and when a second
top-level caller arrives.  All such schedules of a shape are enumerated (depth-first over the choices; capped).

Every run yields a trace (Start / Issue / Complete / Return / End with observations) that Trace_PersistenceSave
explains and judges, and an outcome: the saved graph is loaded twice and compared with the original.
"""
from __future__ import annotations

import asyncio
import inspect
import json

from vh import aio
from vh.sut import persist_wf as W

GATED = {"add_workflow": "workflow", "add_port": "port", "add_step": "step", "add_token": "token",
         "add_target": "target", "add_deployment": "deployment", "add_filter": "filter", "update_step": "step"}
PASSED = ("add_dependency",)          # executed for real, never parked (their completion order is not explored)
UNKNOWN = 99                          # an id that no completed INSERT of the referred entity returned


class GatedDb:
    """Wrappers around the row-writing methods of one real database object."""

    def __init__(self, db):
        self.db = db
        self.busy = 0                 # real statements being executed (aiosqlite thread)
        self.changed = None
        self.gates = aio.Gates()
        self.run = None               # the Run that receives the events (None: pass through)
        self.installed = []

    def install(self):
        self.changed = asyncio.Event()
        for name in list(GATED) + list(PASSED):
            orig = getattr(self.db, name)
            setattr(self.db, name, self._wrap(name, orig))
            self.installed.append(name)

    def uninstall(self):
        for name in self.installed:
            self.db.__dict__.pop(name, None)
        self.installed = []

    def _wrap(self, name, orig):
        sig = inspect.signature(orig)
        gdb = self

        async def w(*a, **k):
            run = gdb.run
            key = None
            if run is not None and name in GATED:
                try:
                    args = dict(sig.bind(*a, **k).arguments)
                except TypeError:
                    args = dict(k)
                key = run.on_issue(name, args)
            gdb.busy += 1
            try:
                r = await orig(*a, **k)
            except BaseException as e:  # noqa
                if run is not None:
                    run.on_db_error(name, key, e)
                raise
            finally:
                gdb.busy -= 1
                gdb.changed.set()
            if key is not None:
                run.results.setdefault(key, []).append(r)
                await gdb.gates.wait(key)
            return r
        w.__wrapped__ = orig
        return w

    async def quiesce(self, watchdog=120.0):
        """Until every task is blocked on a gate or an event: nothing ready, no statement executing."""
        loop = asyncio.get_running_loop()
        idle = 0
        while idle < 2:
            await asyncio.sleep(0)
            if self.busy:
                self.changed.clear()
                if self.busy:
                    await asyncio.wait_for(self.changed.wait(), aio.scaled(watchdog))
                idle = 0
                continue
            if len(getattr(loop, "_ready", ())) == 0:
                idle += 1
            else:
                idle = 0


# ------------------------------------------------------------------------------------------------
# real objects of a shape
# ------------------------------------------------------------------------------------------------
class Built:
    def __init__(self, shape):
        self.shape = shape
        self.objs = {}            # node -> object
        self.table = {}           # node -> table
        self.ident = {}           # (table, identifying value) -> node
        self.extract = {}         # node -> [(referred node, fn(args) -> real id)]
        self.cls = {}             # node -> class name
        self.tops = {}            # t -> coroutine factory
        self.load = None          # async fn(loading_context) -> loaded root
        self.root = None
        self.count_sql = {}       # node -> (sql, args)

    def add(self, node, obj, table, ident, extract=()):
        self.objs[node] = obj
        self.cls[node] = type(obj).__name__
        if table is not None:
            self.table[node] = table
            self.ident[(table, ident)] = node
            col = {"token": "tag", "target": "workdir"}.get(table, "name")
            self.count_sql[node] = ("SELECT id FROM %s WHERE %s = ?" % (table, col), (ident,))
        self.extract[node] = list(extract)


IDENT_ARG = {"workflow": "name", "port": "name", "step": "name", "token": "tag", "target": "workdir", "deployment": "name", "filter": "name"}


def build_tokens(sf, shape, serial, variant, port_id, wf_id):
    """Token DAG o / a, b / s, x.  variant deals the container classes (ListToken, ObjectToken, JobToken) to the roles."""
    from streamflow.core.workflow import Job, Token
    from streamflow.workflow.token import JobToken, ListToken, ObjectToken
    b = Built(shape)
    rot = ["List", "Object", "Job"]
    role = {"a": rot[variant % 3], "b": rot[(variant // 3) % 3], "o": rot[(variant + variant // 3 + 1) % 3]}
    vals = W.json_values()
    order = [n for n in ("s", "x", "a", "b", "o") if n in shape["kind"]]
    for i, n in enumerate(order):
        tag = "0.77.%d.%d" % (serial, i)        # identifies the entity in add_token and in the row count: no other part uses 0.77.*
        members = list(shape["reads"][n])
        if shape["kind"][n] == "Token":
            if n == "s":
                obj = Token(value=vals[(serial + 3) % len(vals)], tag=tag, recoverable=bool((variant + serial) % 2))
            else:
                obj = Token(value={"k": [vals[serial % len(vals)], serial], "e": {}}, tag=tag, recoverable=bool((variant + serial + 1) % 2))
            b.add(n, obj, "token", tag)
            continue
        kind = role[n]
        if kind == "List":
            obj = ListToken(value=[b.objs[m] for m in members], tag=tag)
            ex = [(m, (lambda a, j=j: a["value"][j])) for j, m in enumerate(members)]
        elif kind == "Object":
            obj = ObjectToken(value={"k_" + m: b.objs[m] for m in members}, tag=tag)
            ex = [(m, (lambda a, m=m: a["value"]["k_" + m])) for m in members]
        else:
            obj = JobToken(value=Job(name="/job/%d/%s" % (serial, n), workflow_id=wf_id, inputs={"k_" + m: b.objs[m] for m in members},
                                     input_directory="/in/" + W.STRINGS[2], output_directory=None, tmp_directory="/tmp/x"), tag=tag)
            ex = [(m, (lambda a, m=m: a["value"]["job"]["params"]["inputs"]["k_" + m])) for m in members]
        b.add(n, obj, "token", tag, ex)
    db = sf.database
    for t, n in shape["tops"].items():
        b.tops[t] = (lambda n=n: b.objs[n].save(db, port_id=port_id))
    b.root = b.objs["o"]

    async def load(lc):
        return await lc.load_token(b.root.persistent_id)
    b.load = load
    return b


def build_workflow(sf, shape, serial):
    """The workflows of the explicit catalogue (`name`): real steps / ports / targets / deployments / filters."""
    from streamflow.core.config import BindingConfig
    from streamflow.core.deployment import Target
    from streamflow.workflow import step as wstep
    from streamflow.workflow.port import ConnectorPort, JobPort
    b = Built(shape)
    wb = W.Builder(sf, 500000 + serial)
    wf = wb.workflow("Workflow")
    name = shape["name"]
    wid = ("w", lambda a: a["workflow_id"])
    b.add("w", wf, "workflow", wf.name)

    def port(node, cls=None):
        p = wb.port(cls)
        b.add(node, p, "port", p.name, [wid])
        return p

    def deployment(node):
        d = wb.deployment(remote=True)
        b.add(node, d, "deployment", d.name)
        return d

    def target(node, d):
        t = Target(deployment=d, locations=2, service="svc", workdir="/remote/" + wb.name("w"))
        b.add(node, t, "target", t.workdir, [("d", lambda a: a["deployment"])])
        return t

    def schedule(node, targets, filters, pj_node, pc_node, pj, pc, d):
        s = wf.create_step(cls=wstep.ScheduleStep, name="/" + wb.name("sched") + "/__schedule__",
                           binding_config=BindingConfig(targets=[b.objs[t] for t in targets], filters=[b.objs[f] for f in filters]),
                           connector_ports={d.name: pc}, job_port=pj, job_prefix="prefix_" + W.STRINGS[2],
                           input_directory="/in", output_directory="/out", tmp_directory="/tmpd")
        ex = [wid, (pc_node, lambda a: list(a["params"]["connector_ports"].values())[0]), (pj_node, lambda a: a["params"]["job_port"])]
        ex += [(t, (lambda a, j=j: a["params"]["binding_config"]["targets"][j])) for j, t in enumerate(targets)]
        ex += [(f, (lambda a, j=j: a["params"]["binding_config"]["filters"][j])) for j, f in enumerate(filters)]
        b.add(node, s, "step", s.name, ex)
        return s

    if name == "savers":
        p1, p2 = port("p1"), port("p2")
        s = wf.create_step(cls=wstep.CombinatorStep, name="/" + wb.name("comb") + "-combinator", combinator=wb.combinator("Dot", 1))
        s.add_input_port("in", p1)
        s.add_output_port("out", p2)
        b.add("s1", s, "step", s.name, [wid])
    elif name == "binding":
        d = deployment("d")
        target("t1", d)
        target("t2", d)
        f = wb.filter()
        b.add("f", f, "filter", f.name)
        pj1, pc1, pj2, pc2 = port("pj1", JobPort), port("pc1", ConnectorPort), port("pj2", JobPort), port("pc2", ConnectorPort)
        schedule("sc1", ["t1", "t2"], ["f"], "pj1", "pc1", pj1, pc1, d)
        schedule("sc2", ["t2"], ["f"], "pj2", "pc2", pj2, pc2, d)
    elif name == "deploy":
        d = deployment("d")
        target("t", d)
        pc, pj = port("pc", ConnectorPort), port("pj", JobPort)
        dp = wf.create_step(cls=wstep.DeployStep, name="/" + wb.name("dep") + "/__deploy__", deployment_config=d, connector_port=pc)
        b.add("dp", dp, "step", dp.name, [wid, ("d", lambda a: a["params"]["deployment_config"]), ("pc", lambda a: a["params"]["connector_port"])])
        schedule("sc", ["t"], [], "pj", "pc", pj, pc, d)
    elif name == "outproc":
        d = deployment("d")
        t = target("t", d)
        pj, po1, po2 = port("pj", JobPort), port("po1"), port("po2")
        ex = wf.create_step(cls=wstep.ExecuteStep, name="/" + wb.name("exec"), job_port=pj)
        for k, (pn, p) in enumerate((("po1", po1), ("po2", po2))):
            op = wstep.DefaultCommandOutputProcessor(name=wb.name("op"), workflow=wf, target=t)
            ex.add_output_port("o%d" % (k + 1), p, op)
            b.add("op%d" % (k + 1), op, None, None)
        b.add("ex", ex, "step", ex.name, [wid, ("pj", lambda a: a["params"]["job_port"]),
                                          ("t", lambda a: a["params"]["output_processors"]["o1"]["params"]["target"])])
    else:
        raise ValueError(name)
    missing = set(shape["kind"]) ^ set(b.objs)
    if missing:
        raise ValueError("shape %s and its real objects differ on %s" % (name, sorted(missing)))
    db = sf.database
    for t, n in shape["tops"].items():
        b.tops[t] = (lambda n=n: b.objs[n].save(db))
    b.root = wf

    async def load(lc):
        return await lc.load_workflow(wf.persistent_id)
    b.load = load
    return b


# ------------------------------------------------------------------------------------------------
# one execution under one schedule
# ------------------------------------------------------------------------------------------------
class Run:
    def __init__(self, gdb, built, choices):
        self.gdb, self.b, self.choices = gdb, built, list(choices)
        self.events = []
        self.results = {}          # gate key -> real ids returned by the parked statements (FIFO)
        self.parked = []           # gate keys in issue order (a key may occur twice when an entity is written twice)
        self.mid = {}              # (table, real id) -> model id (ordinal of the completed INSERT)
        self.next_mid = 1
        self.widths = []
        self.errors = []           # (where, exception)
        self.returned = {}
        self.node_of_id = {}       # (table, real id) -> node (for update_step)
        self.stuck = False

    # ---- hooks (called from the wrappers, inside the code's own atomic section) ----------------
    def model_id(self, node, real):
        if real is None:
            return 0
        return self.mid.get((self.b.table.get(node), real), UNKNOWN)

    def on_issue(self, name, args):
        table = GATED[name]
        upd = 1 if name == "update_step" else 0
        if upd:
            if "params" not in (args.get("updates") or {}):
                return None             # a status update, not a re-save
            node = self.node_of_id.get((table, args.get("step_id")))
            a = dict(args)
            try:
                a["params"] = json.loads(args["updates"]["params"])
            except Exception:
                a["params"] = {}
        else:
            node = self.b.ident.get((table, args.get(IDENT_ARG[table])))
            a = args
        if node is None:
            self.events.append({"n": "Issue", "node": "?", "upd": upd, "refs": [], "table": table})
            return None
        refs = []
        for m, fn in self.b.extract.get(node, ()):
            if upd and m == "w":
                continue
            try:
                real = fn(a)
            except Exception:
                real = None
            refs.append([m, self.model_id(m, real)])
        self.events.append({"n": "Issue", "node": node, "upd": upd, "refs": refs})
        key = node + ("!upd" if upd else "")
        self.parked.append(key)
        return key

    def on_db_error(self, name, key, e):
        self.errors.append(("db:%s" % name, e))
        if key in self.parked:
            self.parked.remove(key)

    # ---- observation ----------------------------------------------------------------------------
    def observe(self):
        pids = []
        for n, o in self.b.objs.items():
            if n in self.b.table:
                pids.append([n, self.model_id(n, getattr(o, "persistent_id", None))])
        return {"parked": [[k.split("!")[0], 1 if k.endswith("!upd") else 0] for k in self.parked if self.gdb.gates.is_parked(k)],
                "pid": pids}

    async def top(self, t):
        ent = self.b.objs[self.b.shape["tops"][t]]
        try:
            await self.b.tops[t]()
        except Exception as e:  # noqa
            self.errors.append(("save:%s" % t, e))
            self.returned[t] = "raised"
            return
        self.returned[t] = True
        self.events.append({"n": "Return", "t": t, "id": self.model_id(self.b.shape["tops"][t], ent.persistent_id),
                            "pids": self.observe()["pid"]})

    async def execute(self):
        gdb = self.gdb
        gdb.run = self
        gdb.gates = aio.Gates()      # fresh parking places: entity names recur from run to run
        pending = sorted(self.b.shape["tops"])
        tasks = []
        k = 0
        try:
            while True:
                await gdb.quiesce()
                live = [x for x in self.parked if gdb.gates.is_parked(x)]
                opts = [("C", x) for x in sorted(set(live))]
                if pending:            # T1 starts first; a later caller may arrive at any quiescent point
                    opts = [("S", "T1")] if pending[0] == "T1" else opts + [("S", pending[0])]
                if not opts:
                    break
                self.widths.append(len(opts))
                pick = opts[self.choices[k] if k < len(self.choices) and self.choices[k] < len(opts) else 0]
                k += 1
                obs = self.observe()
                if pick[0] == "S":
                    t = pending.pop(0)
                    self.events.append({"n": "Start", "t": t, "o": obs})
                    tasks.append(asyncio.ensure_future(self.top(t)))
                else:
                    key = pick[1]
                    node, upd = key.split("!")[0], 1 if key.endswith("!upd") else 0
                    real = self.results[key].pop(0)
                    if not upd:
                        self.mid[(self.b.table[node], real)] = self.next_mid
                        self.node_of_id[(self.b.table[node], real)] = node
                        self.next_mid += 1
                    self.events.append({"n": "Complete", "node": node, "upd": upd, "o": obs})
                    self.parked.remove(key)
                    gdb.gates.open(key)
            self.stuck = any(not t.done() for t in tasks)
        finally:
            gdb.run = None
            for t in tasks:
                if not t.done():
                    t.cancel()
            if tasks:
                await asyncio.gather(*tasks, return_exceptions=True)
        rows = []
        async with gdb.db.connection as c:
            for n, (sql, args) in self.b.count_sql.items():
                async with c.execute(sql, args) as cur:
                    rows.append([n, len(list(await cur.fetchall()))])
        self.events.append({"n": "End", "o": self.observe(), "rows": rows, "stuck": 1 if self.stuck else 0})
        return self


def next_choices(choices, widths):
    """Depth-first enumeration of schedules: the successor of a choice vector given the number of options met."""
    c = list(choices) + [0] * (len(widths) - len(choices))
    c = c[:len(widths)]
    i = len(c) - 1
    while i >= 0:
        if c[i] + 1 < widths[i]:
            return c[:i] + [c[i] + 1]
        i -= 1
    return None


def trace_of(run):
    sh = dict(run.b.shape)
    return {"shape": sh, "events": run.events}


def judge(ctx, traces, timeout=1800):
    """One TLC run over the batch: accepted traces, failing clauses ("BAD tid l clause"), and - for traces that the
    permissive protocol cannot explain - the longest explained prefix (a second, diagnostic run over those only)."""
    import os
    out = [{"accepted": False, "bad": [], "prefix": None} for _ in traces]
    if not traces:
        return out

    def run(batch, diag):
        wd = ctx.spec_workdir("Persistence")
        tf = os.path.join(wd, "traces.json")
        with open(tf, "w") as f:
            json.dump(batch, f)
        return ctx.tlc("Persistence", "Trace_PersistenceSave", "Trace_PersistenceSave.cfg", workdir=wd,
                       env={"TRACE_FILE": tf, "DIAG": "1" if diag else "0"}, timeout=timeout, count=False)
    r = run(traces, False)
    ctx.require(r.error is None, "trace validation of the concurrent saves failed (%s %s):\n%s" % (r.error, r.violated, r.stdout[-1500:]))
    for s in r.printed():
        if isinstance(s, str) and s.startswith("ACCEPT "):
            out[int(s.split()[1]) - 1]["accepted"] = True
        elif isinstance(s, str) and s.startswith("BAD "):
            _, tid, l, clause = s.split()
            out[int(tid) - 1]["bad"].append((int(l), clause))
    ctx.states += r.distinct
    ctx.count("trace_validation_states", r.distinct)
    ctx.count("traces_validated", len(traces))
    ctx.impl_trace(len(traces))
    rejected = [i for i, o in enumerate(out) if not o["accepted"]][:6]
    if rejected:
        d = run([traces[i] for i in rejected], True)
        for s in d.printed():
            if isinstance(s, str) and s.startswith("L "):
                _, tid, l = s.split()
                o = out[rejected[int(tid) - 1]]
                o["prefix"] = max(o["prefix"] or 0, int(l) - 1)
    return out
