"""C25 part (a): replaying behaviours of specs/Shell/Shell.tla on the real BaseConnector.run / SubprocessShell.

Two bindings:
  FakeWorld   replaces the *environment* (asyncio.create_subprocess_exec) by scripted processes on a virtual-time
              loop: the real BaseConnector.run, get_shell, _create_shell, SubprocessShell, BaseShell.execute,
              _read_with_output, create_command and run_in_subprocess run unchanged and receive exactly the
              chunks, timeouts and failures of the behaviour (deterministic).
  RealWorld   a real `sh` session: the commands are invocations of a script that logs every execution, stalls
              where the behaviour says the command is slow and prints the chosen output.
Both return the same observation format, compared with the property (fresh process per command) and with the
specification's prediction.
"""
from __future__ import annotations

import asyncio
import os
import re
import shlex
import time

from . import shell_env as se

ML_TEXT = "SF_CMD_END_deadbeef-0000-4000-8000-000000000000:7"
N_ARGS = 6          # dir k shape status slow stall
STALE_MARK = "<end-marker-of-an-earlier-command>:"
_REAL_MARK = re.compile(r"SF_CMD_END_(?!deadbeef-)[0-9a-fA-F-]{36}:")


def normalise_output(text: str) -> str:
    """End markers are random: replace each by a fixed word so that outputs are comparable."""
    return _REAL_MARK.sub(STALE_MARK, text) if isinstance(text, str) else text


CHARS = {1: "a", 2: "\u00e9", 3: "\u20ac", 4: "\U0001f600"}     # one character per UTF-8 width ("ch" tokens)
REPLACEMENT = "\ufffd"
UTF_SHAPES = ("utf", "utfl")


def tok_bytes(t, marker=None) -> bytes:
    """What one unit of the pipe is on the wire; a "by" token is ONE byte of a multi-byte character."""
    if t[0] == "by":
        return CHARS[t[1]].encode("utf-8")[t[2] - 1:t[2]]
    return tok_text(t, marker).encode("utf-8")


def encode_units(tokens):
    """Shell.tla Encode: a character of width w becomes w byte units, every other token is one unit."""
    out = []
    for t in tokens:
        if t[0] == "ch":
            out += [["by", t[1], i] for i in range(1, t[1] + 1)]
        else:
            out.append(t)
    return out


def tok_text(t, marker=None) -> str:
    ty, a, b = t
    if ty == "ch":
        return CHARS[a]
    if ty == "bad":
        return REPLACEMENT
    if ty == "o":
        return "o%d_%dé" % (a, b)
    if ty == "e":
        return "e%d_%d" % (a, b)
    if ty == "nl":
        return "\n"
    if ty == "ml":
        return ML_TEXT
    if ty == "st":
        return str(a)
    if ty == "cw":
        return "cw=w%d" % a
    if ty == "ev":
        return "ev=%d" % a
    if ty in ("ma", "mb") and marker is None:
        return STALE_MARK if ty == "ma" else ""
    if ty in ("ma", "mb"):
        m = marker + ":"
        h = len(m) // 2
        return m[:h] if ty == "ma" else m[h:]
    raise ValueError(t)


STATE_VAR = "VHS"      # the variable whose value a "probe" command prints


def has_wd(attr):
    return attr.get("pre", "none") in ("wd", "both")


def has_env(attr):
    return attr.get("pre", "none") in ("env", "both")


def out_tokens(shape, k, cwd=0, env=0, txt=()):
    """Output of command k (text: characters); a "probe" prints the directory (w<cwd>) and the variable (env) it
    sees, "utf"/"utfl" print one character of width w for every w in txt (utfl: and a newline)."""
    if shape == "probe":
        return [["cw", cwd, 0], ["nl", 0, 0], ["ev", env, 0]]
    if shape in UTF_SHAPES:
        return [["ch", w, 0] for w in (txt or [])] + ([["nl", 0, 0]] if shape == "utfl" else [])
    return {"empty": [], "nonl": [["o", k, 1]],
            "multi": [["o", k, 1], ["nl", 0, 0], ["e", k, 2], ["o", k, 3], ["nl", 0, 0]],
            "mlike": [["ml", 0, 0], ["nl", 0, 0], ["o", k, 1]]}[shape]


def text_of(tokens) -> str:
    return "".join(tok_text(t) for t in tokens)


def stream_tokens(attr, k, cwd=0, env=0):
    """Units the shell emits for command k (before the end marker), with the stall position ("mid": after the
    first unit, which is the first BYTE of a text that starts with a multi-byte character)."""
    out = encode_units(out_tokens(attr["shape"], k, cwd, env, attr.get("txt")))
    if attr["slow"] == "pre" or (attr["slow"] == "mid" and not out):
        return [["stall", 0, 0]] + out
    if attr["slow"] == "mid":
        return [out[0], ["stall", 0, 0]] + out[1:]
    return out


CMD_SCRIPT = r"""#!/bin/sh
# usage: cmd.sh DIR K SHAPE STATUS SLOW STALL   (one line per execution in DIR/runs; $# is 6 iff the command line is verbatim)
dir="$1"; k="$2"; shape="$3"; status="$4"; slow="$5"; stall="$6"
echo "$k $$ $PPID $#" >> "$dir/runs"
stall() { sleep "$stall"; echo "$k $$" >> "$dir/woke"; }
mid() { if [ "$slow" = mid ]; then stall; fi; }
if [ "$slow" = pre ]; then stall; fi
case "$shape" in
  empty) mid ;;
  nonl)  printf 'o%s_1é' "$k"; mid ;;
  multi) printf 'o%s_1é' "$k"; mid; printf '\n'; printf 'e%s_2' "$k" >&2; printf 'o%s_3é\n' "$k" ;;
  mlike) printf '%s' 'SF_CMD_END_deadbeef-0000-4000-8000-000000000000:7'; mid; printf '\no%s_1é' "$k" ;;
  probe) printf 'cw=%s' "$(basename "$(pwd -P)")"; mid; printf '\nev=%s' "${VHS-0}" ;;
  utf:*|utfl:*)
    # one character per digit w of the suffix, w = number of bytes of its UTF-8 encoding: a, e-acute, euro sign, U+1F600;
    # the first BYTE is written on its own (a slow command stalls after it, possibly in the middle of a character)
    w="${shape#*:}"; all=""
    while [ -n "$w" ]; do
      rest="${w#?}"; d="${w%"$rest"}"; w="$rest"
      case "$d" in
        1) all="$all\\141" ;;
        2) all="$all\\303\\251" ;;
        3) all="$all\\342\\202\\254" ;;
        4) all="$all\\360\\237\\230\\200" ;;
      esac
    done
    tail="${all#????}"; head="${all%"$tail"}"
    printf "$head"; mid; printf "$tail"
    case "$shape" in utfl:*) printf '\n' ;; esac ;;
esac
echo "$k $$" >> "$dir/done"
exit "$status"
"""


def write_cmd_script(d: str) -> str:
    p = os.path.join(d, "cmd.sh")
    with open(p, "w") as f:
        f.write(CMD_SCRIPT)
    return p


def shape_word(attr) -> str:
    if attr["shape"] in UTF_SHAPES:
        return "%s:%s" % (attr["shape"], "".join(str(w) for w in (attr.get("txt") or [])))
    return attr["shape"]


def command_for(script, d, k, attr, stall):
    return ["sh", script, d, str(k), shape_word(attr), str(attr["status"]), attr["slow"], str(stall)]


def workdir_for(d, k, attr):
    return os.path.join(d, "w%d" % k) if has_wd(attr) else None


def environment_for(k, attr):
    return {STATE_VAR: str(k)} if has_env(attr) else None


def classify_exc(e) -> str:
    if isinstance(e, (asyncio.TimeoutError, TimeoutError)):
        return "timeout"
    return "error:%s" % type(e).__name__


def expected_obs(beh, k):
    kind, out, st = beh["expected"][k - 1]
    return {"kind": kind, "out": text_of(out or []).strip() if kind == "ok" else "", "st": st if kind == "ok" else 0}


def spec_obs(beh, k):
    r = beh["ret"][k - 1]
    return {"kind": r["kind"], "out": text_of(r["out"] or []).strip() if r["kind"] == "ok" else "",
            "st": r["st"] if r["kind"] == "ok" else 0}


# ================================================================================================
# fake environment
# ================================================================================================

class _FakeStdin:
    def __init__(self, proc):
        self.proc = proc

    def write(self, data):
        if not self.proc.dead:
            self.proc.feed(data)

    async def drain(self):
        if self.proc.dead:
            raise ConnectionResetError("Connection lost")

    def close(self):
        self.proc.exit()

    async def wait_closed(self):
        return None

    def is_closing(self):
        return self.proc.dead


class _FakeStdout:
    def __init__(self, proc):
        self.proc = proc

    async def read(self, n=-1):
        p = self.proc
        if p.pending is not None and not p.pending.done():
            raise RuntimeError("read() called while another read is pending")
        if p.dead and not p.delivering:
            return b""
        p.pending = asyncio.get_running_loop().create_future()
        p.read_sizes.append(n)
        return await p.pending


class FakeShellProc:
    """Token-level simulation of `sh` reading framed commands from its stdin."""
    FRAME = re.compile(r'\A(?P<cmd>.*?)(?:\n|;[ ]*)echo "(?P<marker>[^"$:\n]+):\$\?"\n\Z', re.S)

    def __init__(self, world):
        self.world = world
        self.stdin = _FakeStdin(self)
        self.stdout = _FakeStdout(self)
        self.stderr = None
        self.returncode = None
        self.pid = 4242
        self.dead = False
        self.delivering = False
        self.queue = []           # parsed commands not yet started: dicts
        self.cur = None
        self.rem = []
        self.stalled = False
        self.pipe = []            # emitted, unread: list of byte strings (one per token)
        self.pending = None
        self.read_sizes = []
        self.exited = asyncio.Event()
        self.split_reads = 0      # chunks delivered that end inside a multi-byte character
        self.cwd = 0              # the shell's own state: directory w<cwd>, value of VHS (0 = unset)
        self.env = 0

    # ---- what the code under test does to the process
    def feed(self, data: bytes):
        text = data.decode()
        if text == "exit\n":
            self.exit()
            return
        m = self.FRAME.match(text)
        cmd = None
        if m:
            line = m.group("cmd")
            merged = False
            if line.endswith(" 2>&1"):
                line, merged = line[:-5], True
            cmd = self.world.parse_line(line)
            if cmd is not None:
                cmd.update(marker=m.group("marker"), merged=merged)
        if cmd is None:
            self.world.unparsed.append(text)
            return
        self.queue.append(cmd)

    def exit(self):
        if not self.dead:
            self.dead = True
            self.returncode = 0
            self.exited.set()
            if self.pending is not None and not self.pending.done():
                self.pending.set_result(b"")

    def kill(self):
        if not self.dead:
            self.dead = True
            self.returncode = -9
            self.exited.set()
            if self.pending is not None and not self.pending.done():
                self.pending.set_result(b"")

    async def wait(self):
        await self.exited.wait()
        return self.returncode

    # ---- what the behaviour does to the process
    def can_run(self):
        return not self.dead and not self.stalled and (self.cur is not None or bool(self.queue))

    def run(self):
        """Start the next queued command / continue the current one up to its next stall."""
        if not self.can_run():
            return False
        if self.cur is None:
            self.cur = self.queue.pop(0)
            k = self.cur["k"]
            self.world.executions.append({"k": k, "where": "shell", "garbled": self.cur["garbled"]})
            attr = self.world.attr(k)
            seen_cwd = self.cur["cd"] if self.cur.get("cd") is not None else self.cwd
            seen_env = self.cur["export"] if self.cur.get("export") is not None else self.env
            if self.cur.get("in_shell"):        # the preamble was executed by this shell itself: it stays in effect
                self.cwd, self.env = seen_cwd, seen_env
            toks = stream_tokens(attr, k, seen_cwd, seen_env)
            if not self.cur["merged"]:
                toks = [t for t in toks if t[0] != "e"]
            self.rem = toks + [["ma", k, 0], ["mb", k, 0], ["st", attr["status"], 0], ["nl", 0, 0]]
        while self.rem:
            t = self.rem.pop(0)
            if t[0] == "stall":
                self.stalled = True
                return True
            self.pipe.append(tok_bytes(t, self.cur["marker"]))
        self.cur = None
        return True

    def wake(self):
        self.stalled = False

    def deliver(self, ntokens: int, split_at=None) -> bool:
        """Complete the pending read with the next ntokens tokens (exactly the chunk of the behaviour)."""
        if self.pending is None or self.pending.done() or not self.pipe:
            return False
        n = min(ntokens, len(self.pipe))
        data = b"".join(self.pipe[:n])
        del self.pipe[:n]
        if self.pipe and (self.pipe[0][0] & 0xC0) == 0x80:
            self.split_reads += 1         # this chunk ends in the middle of a multi-byte character
        self.pending.set_result(data)
        return True


class _FakeFreshProc:
    """A fresh process executing one command line without the persistent shell."""

    def __init__(self, world, cmd, merged, stall):
        self.world, self.cmd, self.merged, self.stall = world, cmd, merged, stall
        self.returncode = None
        self.stdout = self.stderr = self.stdin = None
        self.pid = 4343

    async def communicate(self, input=None):
        k = self.cmd["k"]
        attr = self.world.attr(k)
        if attr["slow"] != "no":
            await asyncio.sleep(self.stall)
        toks = out_tokens(attr["shape"], k, self.cmd.get("cd") or 0, self.cmd.get("export") or 0, attr.get("txt"))
        out = "".join(tok_text(t) for t in toks if self.merged or t[0] != "e")
        err = "" if self.merged else "".join(tok_text(t) for t in toks if t[0] == "e")
        self.returncode = attr["status"]
        return out.encode(), err.encode()

    async def wait(self):
        await self.communicate()
        return self.returncode

    def kill(self):
        pass


class FakeWorld:
    T = 10.0          # virtual seconds: timeout given to run()
    STALL = 1000.0    # virtual seconds a slow command stalls

    def __init__(self, beh, script="/vh/cmd.sh", d="/vh/session"):
        self.beh = beh
        self.script, self.dir = script, d
        self.shells = []
        self.executions = []
        self.unparsed = []
        self.unknown_argv = []
        self.notes = []

    def attr(self, k):
        return self.beh["attr"][k - 1]

    def command(self, k):
        return command_for(self.script, self.dir, k, self.attr(k), int(self.STALL))

    def parse_command(self, line: str):
        """`sh <script> <dir> <k> ...` possibly with extra words -> {'k':..,'garbled':..}; None when it is not ours."""
        try:
            words = shlex.split(line)
        except ValueError:
            return None
        return self.parse_words(words)

    _BRACE = re.compile(r"\A\{ (?P<inner>.*); \}\Z", re.S)
    _PAREN = re.compile(r"\A\( ?(?P<inner>.*?) ?\)\Z", re.S)

    def parse_line(self, line: str):
        """A command line as the code writes it to a shell: the command itself, or the command behind a
        `cd <dir>` / `export VHS=<k>` preamble that is wrapped in a child `sh -c '...'`, a subshell `( ... )`
        or a brace group `{ ...; }` (the last one is executed by the shell that reads the line)."""
        line = line.strip()
        in_shell = True
        inner = line
        try:
            words = shlex.split(line)
        except ValueError:
            words = []
        m = self._BRACE.match(line)
        if len(words) == 3 and words[:2] == ["sh", "-c"]:
            inner, in_shell = words[2], False
        elif m:
            inner = m.group("inner")
        elif self._PAREN.match(line):
            inner, in_shell = self._PAREN.match(line).group("inner"), False
        parts = [p for p in re.split(r"\s*(?:;|&&)\s*", inner) if p]
        cd = export = None
        cmd = None
        for part in parts:
            try:
                w = shlex.split(part)
            except ValueError:
                return None
            if w and w[0] == "cd" and len(w) == 2:
                base = os.path.basename(w[1])
                if not re.fullmatch(r"w\d+", base):
                    return None
                cd = int(base[1:])
            elif w and w[0] == "export" and len(w) == 2 and w[1].startswith(STATE_VAR + "="):
                try:
                    export = int(w[1].split("=", 1)[1])
                except ValueError:
                    return None
            elif cmd is None:
                cmd = self.parse_words(w)
                if cmd is None:
                    return None
            else:
                return None
        if cmd is None:
            return None
        cmd.update(cd=cd, export=export, in_shell=in_shell and (cd is not None or export is not None))
        return cmd

    def parse_words(self, words):
        if len(words) < 4 or words[0] != "sh" or words[1] != self.script or words[2] != self.dir:
            return None
        try:
            k = int(words[3])
        except ValueError:
            return None
        if not 1 <= k <= len(self.beh["attr"]):
            return None
        return {"k": k, "garbled": words != self.command(k)}

    async def create_subprocess_exec(self, *argv, stdin=None, stdout=None, stderr=None, **kw):
        argv = [str(a) for a in argv]
        if argv == ["sh"] and stdin == asyncio.subprocess.PIPE:
            p = FakeShellProc(self)
            self.shells.append(p)
            return p
        merged = False
        if len(argv) == 3 and argv[:2] == ["sh", "-c"]:
            line = argv[2].strip()
            if line.endswith(" 2>&1"):
                line, merged = line[:-5], True
            cmd = self.parse_line(line)
        else:
            cmd = self.parse_words(argv)
        if cmd is None:
            self.unknown_argv.append(argv)
            raise FileNotFoundError(2, "No such file or directory", argv[0] if argv else "")
        self.executions.append({"k": cmd["k"], "where": "fresh", "garbled": cmd["garbled"]})
        return _FakeFreshProc(self, cmd, merged, self.STALL)

    @property
    def shell(self):
        live = [p for p in self.shells if not p.dead]
        return live[-1] if live else (self.shells[-1] if self.shells else None)


def run_virtual(coro, timeout_virtual: float = 1e7):
    """vh.aio.run_virtual with one correction kept local to this check: cancelled timers at the head of the timer
    heap are purged *before* the virtual clock jumps, otherwise the base loop computes a positive (real) select
    timeout towards the next live timer and every iteration sleeps for real."""
    import heapq
    from vh import aio

    class _Loop(aio.VirtualTimeLoop):
        def _run_once(self):
            sched = self._scheduled
            while sched and sched[0]._cancelled:
                h = heapq.heappop(sched)
                h._scheduled = False
                self._timer_cancelled_count -= 1
            super()._run_once()

    loop = _Loop()
    try:
        asyncio.set_event_loop(loop)

        async def main():
            return await asyncio.wait_for(coro, timeout_virtual)
        try:
            return loop.run_until_complete(main()), None
        except BaseException as e:  # noqa: B902
            if isinstance(e, (KeyboardInterrupt, SystemExit)):
                raise
            return None, e
    finally:
        try:
            pend = [t for t in asyncio.all_tasks(loop) if not t.done()]
            for t in pend:
                t.cancel()
            if pend:
                loop.run_until_complete(asyncio.gather(*pend, return_exceptions=True))
        except Exception:  # noqa
            pass
        asyncio.set_event_loop(None)
        loop.close()


async def _settle():
    from vh import aio
    await aio.settle(rounds=2)


async def replay_fake(beh, byte_split=None):
    """Drive the real code through the behaviour.  Returns observation dict."""
    from streamflow.core import utils as sf_utils  # noqa: F401  (imported so that patching asyncio is visible there)
    world = FakeWorld(beh)
    Remote = se.make_remote_class()
    conn = Remote("vh-fake", "/tmp", 65536)
    loc = se.location()
    orig = asyncio.create_subprocess_exec
    asyncio.create_subprocess_exec = world.create_subprocess_exec
    tasks = {}
    skipped = []
    n = len(beh["attr"])

    async def finish(k, limit):
        t = tasks.get(k)
        if t is None or t.done():
            return
        await asyncio.wait({t}, timeout=limit)

    def autorun():
        # the shell is fast: whatever it can do without waiting happens at once (ShellRun has priority)
        for p in world.shells:
            for _ in range(20):
                if not p.run():
                    break

    async def complete(k):
        """Let call k finish under the default environment: deliver everything, fire a timeout only where the
        shell really stalls, end stalls that nobody times out on."""
        t = tasks.get(k)
        for _ in range(40):
            if t is None or t.done():
                return
            autorun()
            sh = world.shell
            if sh is not None and sh.pipe and sh.deliver(len(sh.pipe)):
                pass
            elif sh is not None and sh.stalled and not sh.dead and not world.attr(k)["tmo"]:
                sh.wake()
            else:
                await asyncio.sleep(2 * world.T + 2)     # virtual
            await _settle()

    try:
        for step in beh["hist"]:
            a, k, cnt = step["a"], step["k"], step["n"]
            autorun()
            sh = world.shell
            if a == "call":
                if k > 1 and k - 1 in tasks and not tasks[k - 1].done():
                    await complete(k - 1)
                tasks[k] = asyncio.ensure_future(
                    conn.run(loc, world.command(k), capture_output=True,
                             workdir=workdir_for(world.dir, k, world.attr(k)),
                             environment=environment_for(k, world.attr(k)),
                             timeout=world.T if world.attr(k)["tmo"] else None))
                await _settle()
            elif a == "run":
                pass                                        # done by autorun()
            elif a == "read":
                if sh is None or not sh.deliver(cnt):
                    skipped.append(step)
                await _settle()
            elif a == "timeout":
                t = tasks.get(k)
                if t is not None and not t.done() and sh is not None and sh.stalled and not sh.pipe:
                    await asyncio.sleep(2 * world.T + 2)   # virtual: the reader's wait_for fires first
                    await _settle()
                else:
                    skipped.append(step)                    # this shell does not stall: no timeout can fire
            elif a == "wake":
                reading_with_timeout = any(not t.done() and world.attr(j)["tmo"] for j, t in tasks.items())
                if sh is None or not sh.stalled or reading_with_timeout:
                    skipped.append(step)                    # a short timeout fires before a stall ends
                else:
                    sh.wake()
            elif a == "kill":
                busy = any(not t.done() for t in tasks.values())      # the model kills an idle shell between calls
                if busy and tasks:
                    await complete(max(tasks))
                    sh = world.shell
                if sh is None or sh.dead or sh.stalled or sh.cur is not None or sh.queue:
                    skipped.append(step)
                else:
                    sh.kill()
                    await _settle()
        for k in sorted(tasks):
            await complete(k)
        # drain every shell (queued commands still execute in a real shell)
        for p in world.shells:
            for _ in range(20):
                if p.dead:
                    break
                if p.stalled:
                    p.wake()
                if not p.run():
                    break
        calls = {}
        for k in range(1, n + 1):
            t = tasks.get(k)
            if t is None:
                calls[k] = {"kind": "not-called", "out": "", "st": 0}
            elif not t.done():
                t.cancel()
                calls[k] = {"kind": "hang", "out": "", "st": 0}
            elif t.cancelled():
                calls[k] = {"kind": "cancelled", "out": "", "st": 0}
            elif t.exception() is not None:
                e = t.exception()
                calls[k] = {"kind": classify_exc(e), "out": "", "st": 0, "exc": se.describe_exc(e)}
            else:
                r = t.result()
                if isinstance(r, tuple) and len(r) == 2:
                    calls[k] = {"kind": "ok", "out": r[0], "st": r[1]}
                else:
                    calls[k] = {"kind": "bad-result", "out": repr(r), "st": 0}
        await se.guarded(conn.undeploy(False), 100)
    finally:
        asyncio.create_subprocess_exec = orig
        for t in tasks.values():
            if not t.done():
                t.cancel()
    runs = {k: sum(1 for e in world.executions if e["k"] == k) for k in range(1, n + 1)}
    garbled = {k: any(e["garbled"] for e in world.executions if e["k"] == k) for k in range(1, n + 1)}
    return {"calls": calls, "runs": runs, "garbled": garbled, "skipped": skipped, "unparsed": world.unparsed,
            "unknown_argv": world.unknown_argv, "notes": world.notes, "shells": len(world.shells),
            "read_sizes": sorted({s for p in world.shells for s in p.read_sizes}),
            "split_reads": sum(p.split_reads for p in world.shells)}


# ================================================================================================
# real shell
# ================================================================================================

def projection(beh):
    """What a real session can impose: attributes + for every call whether the harness first waits for the
    stalled shell, and where the shell process is killed."""
    steps = []
    waits = []
    for s in beh["hist"]:
        if s["a"] == "call":
            steps.append({"a": "call", "k": s["k"], "wait_for": waits})
            waits = []
        elif s["a"] == "kill":
            steps.append({"a": "kill", "wait_for": waits})
            waits = []
        elif s["a"] == "wake":
            waits = waits + [s["k"]]
        elif s["a"] == "timeout":
            waits = []
        elif s["a"] == "read":
            waits = []        # wakes while a call is reading need no harness action
    return {"attr": beh["attr"], "steps": steps}


async def _wait_lines(path, pred, limit):
    t0 = time.time()
    while time.time() - t0 < limit:
        try:
            with open(path) as f:
                if pred(f.read().splitlines()):
                    return True
        except FileNotFoundError:
            pass
        await asyncio.sleep(0.05)
    return False


async def replay_real(beh, d, script, T, STALL, bufsize=65536):
    """Real `sh` session through the real BaseConnector.run.  Timing rule: a command that the behaviour calls
    slow sleeps STALL seconds, calls that carry a timeout use T << STALL.  `bufsize` is the connector's
    transferBufferSize = the most one read of the shell's stdout returns: the one handle on the chunking that a
    real pipe offers (1..3 bytes: every multi-byte character is cut by a read)."""
    os.makedirs(d, exist_ok=True)
    Remote = se.make_remote_class()
    conn = Remote("vh-real", d, bufsize)
    loc = se.location()
    proj = projection(beh)
    n = len(beh["attr"])
    calls = {}
    notes = []
    shell_pids = set()

    def shells():
        try:
            return [s for m in list(conn._shells.values()) for s in list(m.values())]
        except AttributeError:
            return []

    procs = {}

    def remember_shell():
        for s in shells():
            p = getattr(s, "_proc", None)
            if p is not None:
                shell_pids.add(p.pid)
                procs[p.pid] = p

    async def wait_woke(k):
        # the execution of k *inside the persistent shell* has finished its stall
        def ok(_):
            try:
                runs = [l.split() for l in open(os.path.join(d, "runs")).read().splitlines()]
                woke = [l.split() for l in open(os.path.join(d, "woke")).read().splitlines()]
            except FileNotFoundError:
                return False
            pids = {r[1] for r in runs if r[0] == str(k) and int(r[2]) in shell_pids}
            return any(w[0] == str(k) and w[1] in pids for w in woke)
        good = await _wait_lines(os.path.join(d, "runs"), ok, STALL * 4 + 30)
        if not good:
            notes.append("stall of %d did not end in time" % k)
        await asyncio.sleep(0.3)

    t_start = time.time()
    aborted_after = None
    for st in proj["steps"]:
        remember_shell()
        for k in st["wait_for"]:
            await wait_woke(k)
        if st["a"] == "kill":
            # the behaviour kills an idle shell: wait until it has nothing queued, then kill the process
            for s in shells():
                p = getattr(s, "_proc", None)
                if p is not None and p.returncode is None:
                    p.kill()
                    await p.wait()
            await asyncio.sleep(0.3)
            continue
        k = st["k"]
        attr = beh["attr"][k - 1]
        t0 = time.time()
        if has_wd(attr):
            os.makedirs(workdir_for(d, k, attr), exist_ok=True)
        watchdog = 6 * STALL + 60
        res, exc = await se.guarded(conn.run(loc, command_for(script, d, k, attr, STALL), capture_output=True,
                                             workdir=workdir_for(d, k, attr), environment=environment_for(k, attr),
                                             timeout=T if attr["tmo"] else None), watchdog)
        remember_shell()
        el = round(time.time() - t0, 2)
        if isinstance(exc, (asyncio.TimeoutError, TimeoutError)) and not attr["tmo"] and el >= 0.95 * watchdog:
            # a call WITHOUT timeout did not return within 6 stalls + 60 s: the code waits for something that never
            # comes.  Nothing about timing: the session is abandoned here (later calls are not made, not judged).
            calls[k] = {"kind": "hang", "out": "", "st": 0, "elapsed": el}
            aborted_after = k
            notes.append("call %d (no timeout) did not return within %d s: session abandoned" % (k, watchdog))
            break
        if exc is not None:
            calls[k] = {"kind": classify_exc(exc), "out": "", "st": 0, "exc": se.describe_exc(exc), "elapsed": el}
        elif isinstance(res, tuple) and len(res) == 2:
            calls[k] = {"kind": "ok", "out": res[0], "st": res[1], "elapsed": el}
        else:
            calls[k] = {"kind": "bad-result", "out": repr(res), "st": 0, "elapsed": el}
    # let the shell finish what is queued, and the fresh processes of timed-out fallbacks finish their stall
    remember_shell()
    for s in shells():
        p = getattr(s, "_proc", None)
        if p is not None and p.returncode is None and not getattr(s, "_closed", False) and aborted_after is None:
            await se.guarded(s.execute(["true"], capture_output=True, timeout=None), 4 * STALL + 60)
    await se.guarded(conn.undeploy(False), 60)
    for p in procs.values():            # release the pipes of shells the code abandoned (killed / never closed)
        try:
            if p.returncode is None:
                p.kill()
                await p.wait()
            tr = getattr(p, "_transport", None)
            if tr is not None:
                tr.close()
        except Exception:  # noqa
            pass
    runs = {k: 0 for k in range(1, n + 1)}
    garbled = {k: False for k in range(1, n + 1)}
    try:
        for l in open(os.path.join(d, "runs")).read().splitlines():
            w = l.split()
            k = int(w[0])
            if k in runs:
                runs[k] += 1
                if int(w[3]) != N_ARGS:
                    garbled[k] = True
    except FileNotFoundError:
        pass
    for k in range(1, n + 1):
        calls.setdefault(k, {"kind": "not-called", "out": "", "st": 0})
    return {"calls": calls, "runs": runs, "garbled": garbled, "notes": notes, "wall": round(time.time() - t_start, 2),
            "aborted_after": aborted_after}
