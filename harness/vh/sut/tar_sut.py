"""C23 helpers: real trees and archives, their abstract shape, the scripted raw stream, and one real
copy through `streamflow.deployment.connector.base.copy_remote_to_local` (the tar-stream reader).

Nothing here decides a verdict; `vh/props/C23.py` does.
"""
from __future__ import annotations

import hashlib
import io
import logging
import os
import shutil
import stat
import subprocess
import tarfile

BLOCK = 512
GNU_TAR = "/usr/bin/tar"


# ------------------------------------------------------------------------------------------------
# trees
# ------------------------------------------------------------------------------------------------
def content(size: int, salt: int) -> bytes:
    """Deterministic bytes without NUL (an all-zero block must only occur where tar writes one)."""
    return bytes(((i * 7 + salt * 13) % 251) + 1 for i in range(size))


def make_tree(parent: str, base: str, entries: list) -> str:
    """entries: [(relpath, "dir"|"file", size, mode)] ; relpath "" is the root itself (a directory, or a
    single file when its kind is "file").  Returns the path of the root."""
    root = os.path.join(parent, base)
    for k, (rel, kind, size, mode) in enumerate(entries):
        p = os.path.join(root, rel) if rel else root
        if kind == "dir":
            os.makedirs(p, exist_ok=True)
        else:
            os.makedirs(os.path.dirname(p), exist_ok=True)
            with open(p, "wb") as f:
                f.write(content(size, k))
    for rel, kind, size, mode in entries:       # modes last (a read-only directory would block creation)
        os.chmod(os.path.join(root, rel) if rel else root, mode)
    return root


def scan(root: str) -> dict:
    """{relpath: (kind, size, sha1, mode)} of everything under root (root itself as "")."""
    out = {}
    if not os.path.lexists(root):
        return out

    def one(p, rel):
        st = os.lstat(p)
        if stat.S_ISDIR(st.st_mode):
            out[rel] = ("dir", 0, "", st.st_mode & 0o777)
            for n in sorted(os.listdir(p)):
                one(os.path.join(p, n), (rel + "/" + n) if rel else n)
        elif stat.S_ISREG(st.st_mode):
            with open(p, "rb") as f:
                b = f.read()
            out[rel] = ("file", len(b), hashlib.sha1(b).hexdigest(), st.st_mode & 0o777)
        else:
            out[rel] = ("other", 0, "", st.st_mode & 0o777)
    one(root, "")
    return out


# ------------------------------------------------------------------------------------------------
# archives
# ------------------------------------------------------------------------------------------------
PY_FORMATS = {"py-gnu": tarfile.GNU_FORMAT, "py-pax": tarfile.PAX_FORMAT, "py-ustar": tarfile.USTAR_FORMAT}


def write_archive(writer: str, root: str) -> bytes:
    parent, base = os.path.split(root)
    if writer in PY_FORMATS:
        bio = io.BytesIO()
        with tarfile.open(fileobj=bio, mode="w", format=PY_FORMATS[writer], dereference=True) as t:
            t.add(root, arcname=base)
        return bio.getvalue()
    if writer.startswith("gnutar"):
        fmt = writer.split("-", 1)[1]
        env = dict(os.environ, LC_ALL="C")
        p = subprocess.run([GNU_TAR, "--format=" + fmt, "--sort=name", "-chf", "-", "-C", parent, base],
                           stdout=subprocess.PIPE, stderr=subprocess.PIPE, env=env, timeout=120)
        if p.returncode != 0:
            raise RuntimeError("GNU tar failed: %s" % p.stderr.decode(errors="replace"))
        return p.stdout
    raise ValueError(writer)


def collector():
    from streamflow.core.data import StreamWrapper

    class _Collector(StreamWrapper):
        def __init__(self):
            super().__init__(None)
            self.buf = bytearray()
            self.closed = False
            self.writes = 0

        async def close(self):
            self.closed = True

        async def read(self, size=None):
            raise NotImplementedError

        async def write(self, data):
            self.writes += 1
            self.buf += data
    return _Collector()


async def aio_write(root: str, arcname: str, bufsize: int | None, fmt=tarfile.GNU_FORMAT) -> bytes:
    """The body of copy_local_to_remote: the async writer writes `root` to a collecting stream."""
    from streamflow.deployment import aiotarstream
    col = collector()
    async with aiotarstream.open(stream=col, format=fmt, mode="w", dereference=True, copybufsize=bufsize) as tar:
        await tar.add(root, arcname=arcname)
    return bytes(col.buf)


def layout(data: bytes) -> list:
    """Members of a real archive as the trusted reader (Python tarfile) sees them:
    [{"name","type","size","mode","start" (first byte incl. extension headers),"hdr","data"}] + end offset."""
    out = []
    with tarfile.open(fileobj=io.BytesIO(data), mode="r:") as t:
        for m in t:
            out.append({"name": m.name, "type": "dir" if m.isdir() else "file" if m.isreg() else "other",
                        "size": m.size if m.isreg() else 0, "mode": m.mode & 0o777,
                        "start": m.offset, "hdr": m.offset_data - BLOCK, "data": m.offset_data})
    return out


def unit_of_rem(r: int, B: int) -> int:
    """Abstract length of a partial block of r bytes (0 < r < 512): 1, 511 and 'in between' are kept apart
    as far as B allows."""
    if B == 2:
        return 1
    if r == 1:
        return 1
    if r == BLOCK - 1:
        return B - 1
    return 2 if B > 3 else (2 if r > 1 else 1)


def block_points(B: int) -> list:
    """byte offset of unit u inside a 512-byte block, u = 0..B  (first/last byte boundaries are kept)."""
    pts = []
    for u in range(B + 1):
        if u == 0:
            pts.append(0)
        elif u == B:
            pts.append(BLOCK)
        elif B > 2 and u == 1:
            pts.append(1)
        elif B > 2 and u == B - 1:
            pts.append(BLOCK - 1)
        else:
            pts.append((BLOCK * u) // B)
    return pts


class Shape:
    """Abstract shape of a real archive for block size B, and the strictly monotone map F from abstract
    positions (units) to byte offsets: every header/data/padding/end-block boundary of the model is the
    same boundary of the real archive."""

    def __init__(self, data: bytes, B: int):
        self.B = B
        self.members = layout(data)
        self.nbytes = len(data)
        self.pts = [0]           # pts[u] = byte offset of unit u
        bp = block_points(B)
        m_shape = []
        self.classes = {}        # unit -> boundary class of a truncation at that unit
        pos = 0

        def add_block(cls_inside, cls_start=None):
            nonlocal pos
            base = self.pts[-1]
            u0 = len(self.pts) - 1
            for u in range(1, B + 1):
                self.pts.append(base + bp[u])
            for u in range(u0 + 1, u0 + B):
                self.classes[u] = cls_inside
            if cls_start is not None:
                self.classes[u0] = cls_start
            pos += BLOCK

        def add_linear(units, nbytes, cls_inside):
            nonlocal pos
            base = self.pts[-1]
            u0 = len(self.pts) - 1
            for u in range(1, units + 1):
                self.pts.append(base + (nbytes * u) // units)
            for u in range(u0 + 1, u0 + units):
                self.classes[u] = cls_inside
            pos += nbytes

        for k, m in enumerate(self.members):
            if m["start"] != pos:
                raise ValueError("archive layout: member %d starts at %d, expected %d" % (k, m["start"], pos))
            self.classes[len(self.pts) - 1] = "at-member-boundary"
            ext_blocks = (m["hdr"] - m["start"]) // BLOCK
            e = 0
            if ext_blocks:
                e = (ext_blocks - 1) * B
                for x in range(ext_blocks):
                    add_block("inside-extension-header", "inside-extension-header" if x else None)
                self.classes[len(self.pts) - 1] = "inside-extension-header"
            add_block("inside-header")
            q, r = divmod(m["size"], BLOCK)
            if m["size"]:
                self.classes[len(self.pts) - 1] = "at-header-end"
            for x in range(q):
                add_block("inside-data", "inside-data" if x else None)
            ar = 0
            if r:
                if q:
                    self.classes[len(self.pts) - 1] = "inside-data"
                ar = unit_of_rem(r, B)
                add_linear(ar, r, "inside-data")
                self.classes[len(self.pts) - 1] = "at-data-end"
                add_linear(B - ar, BLOCK - r, "inside-padding")
            m_shape.append({"e": e, "n": q * B + ar})
        self.end_off = len(self.pts) - 1
        self.classes[self.end_off] = "before-end-blocks"
        rest = self.nbytes - pos
        if rest < 2 * BLOCK or data[pos:] != bytes(rest):
            raise ValueError("archive layout: no end-of-archive blocks at %d" % pos)
        add_block("inside-end-blocks")
        self.classes[len(self.pts) - 1] = "inside-end-blocks"
        add_block("inside-end-blocks")
        tail = 2 * B
        rest -= 2 * BLOCK
        if rest:
            self.classes[len(self.pts) - 1] = "inside-end-blocks"
            add_linear(1, rest, "inside-end-blocks")
            tail += 1
        self.total = len(self.pts) - 1
        self.m = m_shape
        self.tail = tail
        assert self.pts[-1] == self.nbytes and all(a < b for a, b in zip(self.pts, self.pts[1:]))

    def key(self):
        return (self.B, tuple((x["e"], x["n"]) for x in self.m), self.tail)

    def tla(self) -> str:
        return "[m |-> <<%s>>, tail |-> %d]" % (", ".join("[e |-> %d, n |-> %d]" % (x["e"], x["n"]) for x in self.m), self.tail)

    def F(self, u: int) -> int:
        return self.pts[u]

    def trunc_class(self, u: int) -> str:
        return self.classes.get(u, "inside-data")

    def class_of_byte(self, b: int) -> str:
        """Boundary class of a truncation after b bytes (for byte-level truncations)."""
        import bisect
        u = bisect.bisect_right(self.pts, b) - 1
        if self.pts[u] == b:
            return self.trunc_class(u)
        # strictly inside the byte range of unit u..u+1
        for v in (u + 1, u):
            c = self.classes.get(v)
            if c and c.startswith("inside"):
                return c
        left, right = self.classes.get(u, ""), self.classes.get(u + 1, "")
        # between two boundary units: the segment they delimit
        if left == "at-header-end" or right == "at-data-end" or left == "inside-data":
            return "inside-data"
        if left == "at-data-end" or left == "inside-padding":
            return "inside-padding"
        if left in ("before-end-blocks", "inside-end-blocks"):
            return "inside-end-blocks"
        if left == "inside-extension-header":
            return "inside-extension-header"
        return "inside-header"

    def hdr_byte(self, i: int) -> int:
        return self.members[i]["hdr"]


def corrupt_header(data: bytes, hdr_off: int) -> bytes:
    """Flip one byte of the name field of the header block at hdr_off: the stored checksum no longer matches."""
    b = bytearray(data)
    b[hdr_off] ^= 0x01
    return bytes(b)


# ------------------------------------------------------------------------------------------------
# the scripted raw stream and one real copy
# ------------------------------------------------------------------------------------------------
class StreamHang(BaseException):
    """Raised by the scripted stream after a long run of empty answers at the end of the stream: the
    reader polls a finished stream forever (deterministic substitute for a wall-clock watchdog)."""


HANG_AFTER = 200


def scripted(data: bytes, limit: int, boundaries=None, chunker=None, log=None):
    """A StreamWrapper serving data[:limit].  A read(size) is answered with the bytes up to the next
    planned boundary (a sorted list of byte offsets), or by `chunker(size, pos)` (fixed/random sizes),
    never more than `size`, and with b"" at `limit`."""
    from streamflow.core.data import StreamWrapper

    class _Scripted(StreamWrapper):
        def __init__(self):
            super().__init__(None)
            self.pos = 0
            self.bi = 0
            self.zero_run = 0
            self.nreads = 0
            self.closed = False
            self.short_seeks = 0      # filled by the seek hook
            self.tell_lies = 0

        async def close(self):
            self.closed = True

        async def write(self, data):
            raise NotImplementedError

        async def read(self, size=None):
            self.nreads += 1
            room = limit - self.pos
            if size is None or size < 0:
                size = room
            n = min(size, room)
            if n > 0:
                if boundaries is not None:
                    while self.bi < len(boundaries) and boundaries[self.bi] <= self.pos:
                        self.bi += 1
                    if self.bi < len(boundaries):
                        n = min(n, boundaries[self.bi] - self.pos)
                elif chunker is not None:
                    n = max(1, min(n, chunker(size, self.pos)))
            if log is not None:
                log.append((size, n))
            if n <= 0:
                if size > 0:
                    self.zero_run += 1
                    if self.zero_run > HANG_AFTER:
                        raise StreamHang("%d consecutive empty reads at the end of the stream" % self.zero_run)
                return b""
            self.zero_run = 0
            b = data[self.pos:self.pos + n]
            self.pos += n
            return b
    return _Scripted()


def _raw_of(wrapper):
    s = wrapper
    for _ in range(8):
        if hasattr(s, "zero_run"):
            return s
        s = getattr(s, "stream", None)
        if s is None:
            return None
    return None


_HOOKED = False


def install_seek_hook():
    """Run-time wrapper at the public name SeekableStreamReaderWrapper.seek: records on the scripted stream
    whether a seek consumed fewer bytes than it skipped (diagnosis only; no behaviour change)."""
    global _HOOKED
    if _HOOKED:
        return True
    try:
        from streamflow.deployment import aiotarstream
        cls = aiotarstream.SeekableStreamReaderWrapper
        orig = cls.seek
    except Exception:
        return False

    async def seek(self, offset, *a, **k):
        raw = _raw_of(self)
        before = raw.pos if raw is not None else None
        p0 = getattr(self, "position", None)
        try:
            return await orig(self, offset, *a, **k)
        finally:
            if raw is not None and p0 is not None and isinstance(offset, int) and offset > p0:
                if raw.pos - before < offset - p0 and getattr(self, "position", None) == offset:
                    raw.short_seeks += 1
    seek.__wrapped__ = orig
    cls.seek = seek
    _HOOKED = True
    return True


class _CM:
    def __init__(self, st):
        self.st = st

    async def __aenter__(self):
        return self.st

    async def __aexit__(self, *a):
        await self.st.close()


class FakeConnector:
    """What copy_remote_to_local needs from a connector: a stream reader and the transfer buffer size."""

    def __init__(self, st, bufsize):
        self.st = st
        self.transferBufferSize = bufsize

    async def get_stream_reader(self, command, location):
        return _CM(self.st)


def quiet():
    logging.getLogger("streamflow").setLevel(logging.ERROR)
    try:
        from streamflow.log_handler import logger
        logger.setLevel(logging.ERROR)
    except Exception:
        pass


async def real_copy(st, bufsize, src: str, dst: str):
    """One real copy: remote tar stream -> local `dst`.  Returns ("ok"|"error"|"hang", exception repr)."""
    from streamflow.deployment.connector import base as cb
    try:
        await cb.copy_remote_to_local(FakeConnector(st, bufsize), "scripted-location", src, dst, ["tar", "chf", "-"])
        return "ok", None
    except StreamHang as e:
        return "hang", repr(e)
    except (KeyboardInterrupt, SystemExit):
        raise
    except BaseException as e:  # noqa: an exception of the code under test is an observation
        return "error", "%s: %s" % (type(e).__name__, str(e)[:200])


def rmtree(p):
    def onerr(f, path, exc):
        try:
            os.chmod(os.path.dirname(path), 0o700)
            os.chmod(path, 0o700)
            f(path)
        except Exception:
            pass
    if os.path.isdir(p) and not os.path.islink(p):
        for r, ds, fs in os.walk(p):
            for d in ds:
                try:
                    os.chmod(os.path.join(r, d), 0o700)
                except OSError:
                    pass
        shutil.rmtree(p, onerror=onerr)
    elif os.path.lexists(p):
        os.unlink(p)
