"""Generator of well-formed workflow descriptions (see dflow.py for the format).

The grammar mirrors what StreamFlow's translator/builders produce: multi-input job steps are fed by a
combinator (aligned inputs), a gather is paired with the size port of its scatter, schedule+execute share one
job port, workflow outputs carry at most one token.  Every description is tagged with feature classes."""
from __future__ import annotations

import copy


def _d(name, steps, inputs, outputs, classes, fail=None):
    return {"name": name, "steps": steps, "inputs": inputs, "outputs": outputs, "fail": fail or [], "classes": sorted(classes)}


def S(name, kind, ins, outs):
    return {"name": name, "kind": kind, "ins": ins, "outs": outs}


def L(vals, tag=(0,)):
    return {"tag": list(tag), "val": list(vals)}


def V(v, tag=(0,)):
    return {"tag": list(tag), "val": v}


def library(n_small=2, n_big=3):
    """Fixed library of shapes (sizes are parameters so that quick/thorough differ)."""
    out = []
    out.append(_d("pipe2", [S("a", "fwd", ["in"], ["p1"]), S("b", "fwd", ["p1"], ["out"])],
                  {"in": [V(3)]}, ["out"], {"pipeline"}))
    out.append(_d("diamond", [S("a", "fwd", ["in"], ["p1"]), S("b", "fwd", ["in"], ["p2"]), S("j", "fwd", ["p1", "p2"], ["out"])],
                  {"in": [V(4)]}, ["out"], {"diamond", "multi-input"}))
    out.append(_d("sg", [S("sc", "scatter", ["in"], ["el", "sz"]), S("f", "fwd", ["el"], ["e2"]),
                         S("ga", "gather", ["e2", "sz"], ["out"])],
                  {"in": [L(range(1, n_big + 1))]}, ["out"], {"scatter-gather"}))
    out.append(_d("sg0", [S("sc", "scatter", ["in"], ["el", "sz"]), S("f", "fwd", ["el"], ["e2"]),
                          S("ga", "gather", ["e2", "sz"], ["out"])],
                  {"in": [L([])]}, ["out"], {"scatter-gather", "empty-scatter"}))
    out.append(_d("sxg", [S("sc", "scatter", ["in"], ["el", "sz"]), S("ex", "exec", ["el"], ["ex"]),
                          S("ga", "gather", ["ex", "sz"], ["ls"]), S("fw", "fwd", ["ls"], ["out"])],
                  {"in": [L(range(1, n_big + 1))]}, ["out"], {"scatter-gather", "jobs"}))
    out.append(_d("exec1", [S("ex", "exec", ["in"], ["out"])], {"in": [V(5)]}, ["out"], {"jobs", "pipeline"}))
    out.append(_d("xx", [S("e1", "exec", ["in"], ["p1"]), S("e2", "exec", ["p1"], ["out"])], {"in": [V(1)]}, ["out"],
                  {"jobs", "pipeline"}))
    out.append(_d("sdiam", [S("sc", "scatter", ["in"], ["el", "sz"]), S("ex", "exec", ["el"], ["ex"]),
                            S("f", "fwd", ["el"], ["e2"]), S("j", "fwd", ["ex", "e2"], ["e3"]),
                            S("ga", "gather", ["e3", "sz"], ["out"])],
                  {"in": [L(range(1, n_small + 1))]}, ["out"], {"scatter-gather", "jobs", "multi-input", "misaligned-rounds"}))
    out.append(_d("scond", [S("sc", "scatter", ["in"], ["el", "sz"]), S("c", "cond", ["el"], ["e2"]),
                            S("ga", "gather", ["e2", "sz"], ["out"])],
                  {"in": [L(range(1, n_big + 1))]}, ["out"], {"scatter-gather", "conditional", "forced-gather"}))
    out.append(_d("scondall", [S("sc", "scatter", ["in"], ["el", "sz"]), S("c", "cond", ["el"], ["e2"]),
                               S("ga", "gather", ["e2", "sz"], ["out"])],
                  {"in": [L([5])]}, ["out"], {"scatter-gather", "conditional", "forced-gather", "all-dropped"}))
    out.append(_d("two-out", [S("a", "exec", ["in"], ["o1"]), S("b", "fwd", ["in"], ["p"]), S("c", "exec", ["p"], ["o2"])],
                  {"in": [V(2)]}, ["o1", "o2"], {"jobs", "two-outputs"}))
    out.append(_d("dot", [S("s1", "scatter", ["i1"], ["a", "z1"]), S("s2", "scatter", ["i2"], ["b", "z2"]),
                          S("d", "dot", ["a", "b"], ["a2", "b2"]), S("j", "fwd", ["a2", "b2"], ["c"]),
                          S("ga", "gather", ["c", "z1"], ["out"]), S("sink", "fwd", ["z2"], ["out2"])],
                  {"i1": [L(range(1, n_small + 1))], "i2": [L(range(11, 11 + n_small))]}, ["out", "out2"],
                  {"scatter-gather", "combinator", "two-outputs"}))
    out.append(_d("cross", [S("s1", "scatter", ["i1"], ["a", "z1"]), S("s2", "scatter", ["i2"], ["b", "z2"]),
                            S("x", "cart", ["a", "b"], ["a2", "b2"]), S("j", "fwd", ["a2", "b2"], ["c"]),
                            S("m", "mul", ["z1", "z2"], ["zz"]), dict(S("ga", "gather", ["c", "zz"], ["out"]), depth=2)],
                  {"i1": [L(range(1, n_small + 1))], "i2": [L([11 + 3 * x for x in range(n_small)])]}, ["out"],
                  {"scatter-gather", "combinator", "cross-product"}))
    out.append(_d("crossx", [S("s1", "scatter", ["i1"], ["a", "z1"]), S("s2", "scatter", ["i2"], ["b", "z2"]),
                             S("x", "cart", ["a", "b"], ["a2", "b2"]), S("j", "exec", ["a2", "b2"], ["c"]),
                             S("m", "mul", ["z1", "z2"], ["zz"]), dict(S("ga", "gather", ["c", "zz"], ["out"]), depth=2)],
                  {"i1": [L([1, 2] if n_big > 3 else [1])], "i2": [L([11, 14])]}, ["out"],
                  {"scatter-gather", "combinator", "cross-product", "jobs", "multi-input"}))
    out.append(_d("cross0", [S("s1", "scatter", ["i1"], ["a", "z1"]), S("s2", "scatter", ["i2"], ["b", "z2"]),
                             S("x", "cart", ["a", "b"], ["a2", "b2"]), S("j", "fwd", ["a2", "b2"], ["c"]),
                             S("m", "mul", ["z1", "z2"], ["zz"]), dict(S("ga", "gather", ["c", "zz"], ["out"]), depth=2)],
                  {"i1": [L([4, 5])], "i2": [L([])]}, ["out"], {"scatter-gather", "combinator", "cross-product", "empty-scatter"}))
    out.append(_d("nested", [S("s1", "scatter", ["in"], ["l1", "z1"]), S("s2", "scatter", ["l1"], ["l2", "z2"]),
                             S("f", "fwd", ["l2"], ["m2"]), S("g2", "gather", ["m2", "z2"], ["m1"]),
                             S("g1", "gather", ["m1", "z1"], ["out"])],
                  {"in": [{"tag": [0], "val": [[1, 2], [3]]}]}, ["out"], {"scatter-gather", "nested-scatter"}))
    out.append(_d("nestedx", [S("s1", "scatter", ["in"], ["l1", "z1"]), S("s2", "scatter", ["l1"], ["l2", "z2"]),
                              S("ex", "exec", ["l2"], ["m2"]), S("g2", "gather", ["m2", "z2"], ["m1"]),
                              S("g1", "gather", ["m1", "z1"], ["out"])],
                  {"in": [{"tag": [0], "val": [[1, 2], [], [3]]}]}, ["out"], {"scatter-gather", "nested-scatter", "jobs", "empty-scatter"}))
    out.append(_d("sx0g", [S("sc", "scatter", ["in"], ["el", "sz"]), S("ex", "exec", ["el"], ["ex"]),
                           S("ga", "gather", ["ex", "sz"], ["out"])],
                  {"in": [L([])]}, ["out"], {"scatter-gather", "jobs", "empty-scatter", "deploy-lag"}))
    # a job step with two inputs, one of them produced by another job step: the inputs of one tag arrive in different rounds
    # when the upstream jobs finish out of order
    out.append(_d("sfx2", [S("sc", "scatter", ["in"], ["el", "sz"]), S("f", "fwd", ["el"], ["a"]), S("q", "exec", ["el"], ["b"]),
                           S("r", "exec", ["a", "b"], ["c"]), S("ga", "gather", ["c", "sz"], ["out"])],
                  {"in": [L([1, 5])]}, ["out"], {"scatter-gather", "jobs", "multi-input", "misaligned-rounds"}))
    # bindings with several targets: one DeployStep / connector port per target, every ScheduleStep reads them all
    out.append(dict(_d("xx2t", [S("e1", "exec", ["in"], ["p1"]), S("e2", "exec", ["p1"], ["out"])], {"in": [V(1)]}, ["out"],
                       {"jobs", "pipeline", "multi-target"}), targets=2))
    out.append(_d("deadend", [S("sc", "scatter", ["in"], ["el", "sz"]), S("f1", "fwd", ["el"], ["e2"]),
                              S("ga", "gather", ["e2", "sz"], ["out"]), S("dead", "fwd", ["sz"], ["nowhere"])],
                  {"in": [L([1, 2])]}, ["out"], {"scatter-gather", "dead-end"}))
    return out


def with_failures(desc):
    """All single-failure variants of a description (one failing job of one exec step)."""
    from .dflow_tla import expected
    res = []
    streams = expected(desc)["streams"]
    for s in desc["steps"]:
        if s["kind"] != "exec":
            continue
        tags = set(streams.get(s["ins"][0], {}))
        for p in s["ins"][1:]:
            tags &= set(streams.get(p, {}))
        for t in sorted(tags):
            d = copy.deepcopy(desc)
            d["fail"] = [[s["name"], list(t)]]
            d["name"] = "%s!%s@%s" % (desc["name"], s["name"], ".".join(map(str, t)))
            d["classes"] = sorted(set(desc["classes"]) | {"failure"})
            res.append(d)
    return res


def random_desc(rng, idx, max_stages=3, max_n=3):
    """A random well-formed pipeline of stages over a scatter (or a scalar)."""
    steps, classes = [], {"random"}
    n = rng.randint(0, max_n)
    scattered = rng.random() < 0.7
    cur = "in"
    sz = None
    k = 0
    if scattered:
        steps.append(S("sc", "scatter", ["in"], ["el", "sz"]))
        cur, sz = "el", "sz"
        classes.add("scatter-gather")
        inputs = {"in": [L([rng.randint(1, 5) for _ in range(n)])]}
        if n == 0:
            classes.add("empty-scatter")
    else:
        inputs = {"in": [V(rng.randint(1, 5))]}
    for _ in range(rng.randint(1, max_stages)):
        k += 1
        kind = rng.choice(["fwd", "exec", "cond", "diam"] if scattered else ["fwd", "exec", "diam"])
        nxt = "p%d" % k
        if kind == "diam":
            steps.append(S("a%d" % k, rng.choice(["fwd", "exec"]), [cur], ["q%d" % k]))
            steps.append(S("b%d" % k, "fwd", [cur], ["r%d" % k]))
            steps.append(S("j%d" % k, "fwd", ["q%d" % k, "r%d" % k], [nxt]))
            classes.update({"multi-input", "diamond"})
            if steps[-3]["kind"] == "exec":
                classes.update({"jobs", "misaligned-rounds"})
        else:
            steps.append(S("s%d" % k, kind, [cur], [nxt]))
            if kind == "exec":
                classes.add("jobs")
            if kind == "cond":
                classes.update({"conditional", "forced-gather"})
        cur = nxt
    if scattered:
        steps.append(S("ga", "gather", [cur, sz], ["out"]))
        outputs = ["out"]
    else:
        outputs = [cur]
    return _d("rnd%d" % idx, steps, inputs, outputs, classes)
