"""System-under-test rig for C26 (module Deployment): the REAL DefaultDeploymentManager and FutureConnector
driven step by step.

* `StepLoop`: a minimal asyncio event loop (FIFO ready queue, no selector, no timers) whose handles are run
  ONE AT A TIME by the driver (`step()`).  The ready queue is never reordered; the driver only decides when
  a new request is submitted (create_task) and when a parked connector call completes (gate opened),
  relative to the handles already queued -- exactly the environment nondeterminism of the specification.
* fake connector classes (`FakeEager`, `FakeWrapper(ConnectorWrapper)`), registered in `connector_classes`
  under the types "vh-eager" / "vh-wrapper" (and, for the implicit __LOCAL__ deployment, "local") for the
  lifetime of a `World`; deploy/undeploy park on `vh.aio.Gates`, count their calls and keep a lifecycle state.
* recording dicts replacing the manager's four maps (public attribute names), so that identities of
  events / dependency sets / connector objects are numbered in creation order like the specification does.
* `World.project()`: the abstract state in the shape of `model_projection(S)` (compared field by field).
"""
from __future__ import annotations

import asyncio
import collections
import logging
import types

from vh.aio import Gates

EAGER_T, WRAPPER_T, LOCAL_T = "vh-eager", "vh-wrapper", "local"

CURRENT = None          # the World being driven (fake connectors are constructed by StreamFlow, not by us)


class StepLoop(asyncio.AbstractEventLoop):
    def __init__(self):
        self.ready = collections.deque()
        self.errors = []
        self._closed = False
        self.task_factory = None

    # --- what asyncio.Future / Task / Event / gather need
    def call_soon(self, callback, *args, context=None):
        h = asyncio.Handle(callback, args, self, context)
        self.ready.append(h)
        return h

    call_soon_threadsafe = call_soon

    def create_future(self):
        return asyncio.Future(loop=self)

    def create_task(self, coro, *, name=None, context=None):
        t = asyncio.Task(coro, loop=self, name=name, context=context)
        if self.task_factory is not None:
            self.task_factory(t)
        return t

    def get_debug(self):
        return False

    def is_running(self):
        return True

    def is_closed(self):
        return self._closed

    def time(self):
        return 0.0

    def call_exception_handler(self, context):
        self.errors.append(context)

    def default_exception_handler(self, context):
        self.errors.append(context)

    def call_later(self, delay, callback, *args, context=None):      # no timers in this rig
        raise NotImplementedError("timers are not available on StepLoop")

    call_at = call_later

    # --- driver side
    def step(self):
        """Run exactly one queued handle (a task step or a future callback)."""
        h = self.ready.popleft()
        if h.cancelled():
            return
        asyncio._set_running_loop(self)
        try:
            h._run()
        finally:
            asyncio._set_running_loop(None)

    def close(self):
        self._closed = True


def _make_classes():
    from streamflow.core.deployment import Connector
    from streamflow.deployment.wrapper import ConnectorWrapper

    class _FakeMixin:
        def _vh_init(self):
            w = CURRENT
            self.vh_world = w
            self.vh_state = "new"
            self.vh_dc = 0
            self.vh_uc = 0
            self.vh_id = w.register_conn(self)

        async def deploy(self, external: bool) -> None:
            w = self.vh_world
            self.vh_dc += 1
            self.vh_state = "deploying"
            if self.deployment_name not in w.scn["instant"]:
                await w.park("deploy", self)
            if self.deployment_name in w.scn["fails"]:
                self.vh_state = "failed"
                raise FakeDeployError("injected failure of %s" % self.deployment_name)
            self.vh_state = "deployed"

        async def undeploy(self, external: bool) -> None:
            w = self.vh_world
            self.vh_uc += 1
            self.vh_state = "undeploying"
            if self.deployment_name not in w.scn["instant"]:
                await w.park("undeploy", self)
            self.vh_state = "undeployed"

        async def get_available_locations(self, service=None):
            return {}

        @classmethod
        def get_schema(cls) -> str:
            return "{}"

    class FakeEager(_FakeMixin, Connector):
        vh_kind = "eager"

        def __init__(self, deployment_name, config_dir, transferBufferSize=64, **kwargs):
            Connector.__init__(self, deployment_name, config_dir, transferBufferSize)
            self._vh_init()

        async def copy_local_to_remote(self, *a, **k): ...
        async def copy_remote_to_local(self, *a, **k): ...
        async def copy_remote_to_remote(self, *a, **k): ...
        async def run(self, *a, **k): ...
        async def get_shell(self, *a, **k): ...
        async def get_stream_reader(self, *a, **k): ...
        async def get_stream_writer(self, *a, **k): ...

    class FakeWrapper(_FakeMixin, ConnectorWrapper):
        vh_kind = "wrapper"

        def __init__(self, deployment_name, config_dir, connector, service=None, transferBufferSize=64, **kwargs):
            ConnectorWrapper.__init__(self, deployment_name, config_dir, connector, service, transferBufferSize)
            self._vh_init()

    return FakeEager, FakeWrapper


class FakeDeployError(Exception):
    pass


class _RecDict(dict):
    """A dict that tells the world about insertions (identities are numbered in creation order)."""

    def __init__(self, world, which):
        super().__init__()
        self._w, self._which = world, which

    def __setitem__(self, k, v):
        self._w.on_insert(self._which, k, v)
        super().__setitem__(k, v)


class World:
    """One real DefaultDeploymentManager on a StepLoop, configured from a scenario:
       scn = {"deps": {name: {"kind": "eager"|"wrapper", "wraps": name|None, "lazy": bool}},
              "fails": [names], "instant": [names]}"""

    def __init__(self, scn):
        global CURRENT
        from streamflow.deployment.connector import connector_classes
        from streamflow.deployment.manager import DefaultDeploymentManager
        from streamflow.log_handler import logger
        logger.setLevel(logging.CRITICAL)
        self.scn = {"deps": scn["deps"], "fails": set(scn.get("fails", ())), "instant": set(scn.get("instant", ()))}
        self.loop = StepLoop()
        self.loop.task_factory = self._on_task
        self.gates = Gates()
        self.conns, self.events, self.sets = [], [], []          # identity tables (index + 1 = model id)
        self.task_id, self.tasks, self.nchild = {}, {}, {}       # asyncio.Task -> id, id -> Task
        self.io, self.gate_of = {}, {}                           # task id -> "pending"/"done"; task id -> gate name
        self.waitq = []                                          # [(task id, event id)] in waiting order
        self.evlog = []                                          # (op, event id, task id)
        self.rk, self.rd, self.exc = {}, {}, {}
        self.used = {}                                           # request id -> connector object obtained by `use`
        self._saved = dict(connector_classes)
        self._registry = connector_classes
        CURRENT = self
        eager, wrapper = _make_classes()
        connector_classes[EAGER_T], connector_classes[WRAPPER_T], connector_classes[LOCAL_T] = eager, wrapper, eager
        declared = {}
        for n, d in self.scn["deps"].items():
            declared[n] = {"type": WRAPPER_T if d["kind"] == "wrapper" else EAGER_T, "config": {}, "external": False,
                           "lazy": bool(d.get("lazy")), "scheduling_policy": None, "workdir": None,
                           "wraps": d.get("wraps")}
        ctx = types.SimpleNamespace(config={"path": "/nonexistent/vh/streamflow.yml", "deployments": declared})
        self.m = DefaultDeploymentManager(ctx)
        for which in ("config_map", "events_map", "deployments_map", "dependency_graph"):
            setattr(self.m, which, _RecDict(self, which))

    def close(self):
        global CURRENT
        for t in list(self.tasks.values()):
            if not t.done():
                t.cancel()
        n = 0
        while self.loop.ready and n < 10000:
            n += 1
            try:
                self.loop.step()
            except BaseException:      # noqa
                pass
        for t in self.tasks.values():
            if t.done() and not t.cancelled():
                t.exception()
        self._registry.clear()
        self._registry.update(self._saved)
        self.loop.close()
        if CURRENT is self:
            CURRENT = None

    # ------------------------------------------------------------------ identities
    def _cur(self):
        return self.task_id.get(asyncio.current_task(self.loop), 0)

    def _on_task(self, task):
        if task in self.task_id:
            return
        try:
            parent = self.task_id.get(asyncio.current_task(self.loop), 0)
        except RuntimeError:
            parent = 0
        if parent:
            k = self.nchild[parent] = self.nchild.get(parent, 0) + 1
            tid = parent * 10 + k
            self.task_id[task] = tid
            self.tasks[tid] = task

    def register_conn(self, obj):
        self.conns.append(obj)
        return len(self.conns)

    def conn_id(self, obj):
        if obj is None:
            return 0
        for i, c in enumerate(self.conns):
            if c is obj:
                return i + 1
        return -1

    def event_id(self, ev):
        for i, e in enumerate(self.events):
            if e is ev:
                return i + 1
        return -1

    def _trace_event(self, ev):
        """Instrument one asyncio.Event in place (instance attributes; identity is preserved)."""
        if any(e is ev for e in self.events):
            return
        self.events.append(ev)
        eid = len(self.events)
        w = self
        w.evlog.append(("new", eid, w._cur()))
        o_set, o_clear, o_wait = ev.set, ev.clear, ev.wait

        def t_set():
            if not ev.is_set():
                w.waitq[:] = [x for x in w.waitq if x[1] != eid]
            w.evlog.append(("set", eid, w._cur()))
            return o_set()

        def t_clear():
            w.evlog.append(("clear", eid, w._cur()))
            return o_clear()

        async def t_wait():
            me = w._cur()
            w.evlog.append(("wait", eid, me, ev.is_set()))
            if not ev.is_set():
                w.waitq.append((me, eid))
            return await o_wait()

        ev.set, ev.clear, ev.wait = t_set, t_clear, t_wait

    def on_insert(self, which, k, v):
        from streamflow.deployment.future import FutureConnector
        if which == "events_map" and isinstance(v, asyncio.Event):
            self._trace_event(v)
        elif which == "dependency_graph":
            if not any(s is v for s in self.sets):
                self.sets.append(v)
        elif which == "deployments_map":
            if isinstance(v, FutureConnector) and self.conn_id(v) == -1:
                self.register_conn(v)
                v.vh_state, v.vh_uc = "new", 0
                self._trace_event(v.deploy_event)
                o_undeploy = v.undeploy

                async def t_undeploy(external, _v=v, _o=o_undeploy):
                    _v.vh_uc += 1
                    _v.vh_state = "undeploying"
                    r = await _o(external)
                    _v.vh_state = "undeployed"
                    return r
                v.undeploy = t_undeploy

    async def park(self, op, conn):
        me = self._cur()
        name = "%s:%d" % (op, conn.vh_id)
        self.io[me] = "pending"
        self.gate_of[me] = name
        try:
            await self.gates.wait(name)
        finally:
            self.io.pop(me, None)
            self.gate_of.pop(me, None)

    # ------------------------------------------------------------------ environment actions
    def start(self, r, kind, dep):
        from streamflow.core.deployment import DeploymentConfig, LocalTarget, WrapsConfig
        m = self.m
        self.rk[r], self.rd[r] = kind, (dep if kind != "uall" else "-")
        if kind == "deploy":
            if dep == "__LOCAL__":
                cfg = LocalTarget().deployment
            else:
                d = self.scn["deps"][dep]
                cfg = DeploymentConfig(name=dep, type=WRAPPER_T if d["kind"] == "wrapper" else EAGER_T, config={},
                                       external=False, lazy=bool(d.get("lazy")),
                                       wraps=WrapsConfig(deployment=d["wraps"]) if d.get("wraps") else None)
            coro = m.deploy(cfg)
        elif kind == "undeploy":
            coro = m.undeploy(dep)
        elif kind == "uall":
            coro = m.undeploy_all()
        elif kind == "use":
            coro = self._use(dep)
        else:
            raise ValueError(kind)
        t = asyncio.Task(coro, loop=self.loop)
        self.task_id[t] = r
        self.tasks[r] = t

    async def _use(self, dep):
        c = self.m.get_connector(dep)
        self.used[self._cur()] = c
        if c is None:
            return "none"
        await c.get_available_locations()
        return "ok"

    def io_done(self, t):
        name = self.gate_of.get(t)
        if name is None or self.io.get(t) != "pending" or not self.gates.open(name):
            return False
        self.io[t] = "done"
        return True

    def step(self):
        if not self.loop.ready:
            return False
        self.loop.step()
        return True

    # ------------------------------------------------------------------ projection
    def result_of(self, tid):
        t = self.tasks[tid]
        if not t.done():
            return "run", "-"
        if t.cancelled():
            return "done", "cancelled"
        e = t.exception()
        if e is not None:
            self.exc[tid] = e
            return "done", "err"
        return "done", ("none" if t.result() == "none" else "ok")

    def project(self):
        from streamflow.deployment.future import FutureConnector
        m = self.m
        conn = []
        for c in self.conns:
            if isinstance(c, FutureConnector):
                conn.append({"name": c.deployment_name, "kind": "future", "state": c.vh_state, "dc": 0, "uc": c.vh_uc,
                             "inner": self.conn_id(c.parameters.get("connector")), "deploying": bool(c.deploying),
                             "dev": self.event_id(c.deploy_event), "real": self.conn_id(c._connector)})
            else:
                conn.append({"name": c.deployment_name, "kind": c.vh_kind, "state": c.vh_state, "dc": c.vh_dc,
                             "uc": c.vh_uc, "inner": self.conn_id(getattr(c, "connector", None)), "deploying": False,
                             "dev": 0, "real": 0})
        tasks = {}
        for tid in sorted(self.tasks):
            pc, res = self.result_of(tid)
            tasks[str(tid)] = {"pc": pc, "result": res, "io": self.io.get(tid, "-")}

        def set_id(s):
            for i, x in enumerate(self.sets):
                if x is s:
                    return i + 1
            return -1
        return {
            "cfg": sorted(m.config_map),
            "ev": {k: self.event_id(v) for k, v in m.events_map.items()},
            "evset": [i + 1 for i, e in enumerate(self.events) if e.is_set()],
            "dorder": list(m.deployments_map), "dmap": {k: self.conn_id(v) for k, v in m.deployments_map.items()},
            "gorder": list(m.dependency_graph), "gobj": {k: set_id(v) for k, v in m.dependency_graph.items()},
            "sets": [sorted(s) for s in self.sets],
            "conn": conn, "tasks": tasks, "nready": len(self.loop.ready),
            "waitq": [[a, b] for a, b in self.waitq],
        }


def model_projection(S):
    """The same shape computed from a state record of Deployment.tla (as written by ToJson)."""
    def fn(x):                      # ToJson writes functions over 1..n as arrays, an empty function as []
        if isinstance(x, list):
            return {str(i + 1): v for i, v in enumerate(x)}
        return x
    pc, result, io, stack = fn(S["pc"]), fn(S["result"]), fn(S["io"]), fn(S["stack"])
    tasks = {}
    for t in sorted(pc, key=int):
        if pc[t] != "idle":
            tasks[str(t)] = {"pc": pc[t], "result": result[t], "io": io[t]}
    waitq = []
    for t in S["waitq"]:
        waitq.append([t, stack[str(t)][-1]["myev"]])
    return {
        "cfg": sorted(S["cfg"]),
        "ev": {k: v for k, v in S["ev"].items() if v},
        "evset": sorted(S["evset"]),
        "dorder": list(S["dorder"]), "dmap": {k: v for k, v in S["dmap"].items() if v},
        "gorder": list(S["gorder"]), "gobj": {k: v for k, v in S["gobj"].items() if v},
        "sets": [sorted(s) for s in S["sets"]],
        "conn": [{k: c[k] for k in ("name", "kind", "state", "dc", "uc", "inner", "deploying", "dev", "real")} for c in S["conn"]],
        "tasks": tasks, "nready": len(S["ready"]), "waitq": waitq,
    }


FIELDS = ("tasks", "conn", "cfg", "dorder", "dmap", "gorder", "gobj", "sets", "ev", "evset", "waitq", "nready")


def diff(real, model):
    """First differing field (None when the projections agree)."""
    for k in FIELDS:
        if real[k] != model[k]:
            return k
    return None
