"""System-under-test helpers of C06 (module Loop): real loop steps fed token by token, generated CWL
loop documents run in-process through streamflow.cwl.runner, Port.put recorder.

Nothing here decides a verdict: functions return observations (including exceptions raised by the
code under test, as strings) and the driver compares them with the model.
"""
from __future__ import annotations

import asyncio
import contextlib
import io
import json
import os
import sys
import tempfile

from .. import aio

# ------------------------------------------------------------------------------------------------
# deterministic quiescence: the only real I/O of the component replays is the aiosqlite thread


class DbQuiesce:
    """Counts database calls in flight; `settle()` returns when no call is in flight and the loop's
    ready queue stayed empty for a few consecutive iterations (nothing is decided by wall-clock)."""

    def __init__(self, database):
        self.inflight = 0
        self.calls = 0
        for name in dir(database):
            if name.startswith(("add_", "update_", "get_")):
                f = getattr(database, name)
                if callable(f):
                    setattr(database, name, self._mk(f))

    def _mk(self, f):
        q = self

        async def w(*a, **k):
            q.inflight += 1
            q.calls += 1
            try:
                return await f(*a, **k)
            finally:
                q.inflight -= 1
        return w

    async def settle(self, rounds: int = 4, watchdog: float = 60.0):
        loop = asyncio.get_running_loop()
        t0 = loop.time()
        idle = 0
        while idle < rounds:
            await asyncio.sleep(0)
            if self.inflight == 0 and len(getattr(loop, "_ready", ())) == 0:
                idle += 1
            else:
                idle = 0
                if self.inflight:
                    await asyncio.sleep(0.0003)
                if loop.time() - t0 > watchdog:
                    raise TimeoutError("component did not become quiescent in %ss" % watchdog)


def tagstr(tag):
    return ".".join(str(c) for c in tag)


def proj_token(t):
    """Project a real token to the model's alphabet."""
    from streamflow.workflow.token import IterationTerminationToken, ListToken, TerminationToken
    if isinstance(t, TerminationToken):
        return ["term", t.value.name]
    if isinstance(t, IterationTerminationToken):
        return ["iterm", t.tag]
    if isinstance(t, ListToken):
        return ["tok", t.tag, [proj_value(x) for x in t.value]]
    return ["tok", t.tag, proj_value(t.value)]


def proj_value(v):
    from streamflow.core.workflow import Token
    from streamflow.workflow.token import ListToken
    if isinstance(v, ListToken):
        return [proj_value(x) for x in v.value]
    if isinstance(v, Token):
        return proj_value(v.value)
    return v


class ComponentEnv:
    """One real StreamFlowContext (in-memory SQLite) + one workflow shared by many component replays."""

    def __init__(self):
        self.ctx = None
        self.wf = None
        self.q = None
        self.k = 0

    async def open(self):
        from ..sut import context as sc
        from streamflow.cwl.workflow import CWLWorkflow
        self.ctx = sc.build()
        self.q = DbQuiesce(self.ctx.database)
        self.wf = CWLWorkflow(context=self.ctx, name="loopcomp", config={}, cwl_version="v1.2")
        await self.wf.save(self.ctx.database)
        return self

    async def close(self):
        from ..sut import context as sc
        await sc.close(self.ctx)

    async def _make_token(self, a, port):
        from streamflow.core.workflow import Token
        from streamflow.workflow.token import IterationTerminationToken, TerminationToken
        if a[0] == "tok":
            t = Token(a[2], tag=a[1])
            await t.save(self.ctx.database, port_id=port.persistent_id)
            return t
        if a[0] == "iterm":
            return IterationTerminationToken(a[1])
        return TerminationToken()

    async def _drive(self, step, pin, pout, arrivals):
        """Put the arrivals one by one, run to quiescence after each, return the output port's
        content after each arrival (+ whether the step has terminated, + exception of run())."""
        db = self.ctx.database
        await pin.save(db)
        await pout.save(db)
        await step.save(db)
        task = asyncio.create_task(step.run())
        await self.q.settle()
        obs = []
        for a in arrivals:
            tok = await self._make_token(a, pin)
            await self.q.settle()
            pin.put(tok)
            err = None
            try:
                await self.q.settle()
            except TimeoutError as e:
                err = "harness-timeout:%s" % e
            exc = None
            if task.done():
                e = task.exception() if not task.cancelled() else asyncio.CancelledError()
                exc = None if e is None else "%s: %s" % (type(e).__name__, e)
            chk = getattr(step, "iteration_termination_checklist", None)     # LoopCombinatorStep only
            try:
                chk = None if chk is None else sorted({str(t) for v in chk.values() for t in v})
            except Exception:          # not the mapping port -> set of tags any more: not observable
                chk = None
            obs.append({"out": [proj_token(t) for t in pout.token_list], "terminated": bool(step.terminated),
                        "done": task.done(), "exc": exc, "err": err, "chk": chk})
        if not task.done():
            task.cancel()
            with contextlib.suppress(BaseException):
                await task
        # the shared workflow must not accumulate steps
        self.wf.steps.pop(step.name, None)
        self.wf.ports.pop(pin.name, None)
        self.wf.ports.pop(pout.name, None)
        return obs

    async def replay_lo(self, method: str, arrivals: list):
        """arrivals: [("tok", tag, value) | ("iterm", tag) | ("term",)] into a real CWLLoopOutput*Step."""
        from streamflow.cwl.step import CWLLoopOutputAllStep, CWLLoopOutputLastStep
        self.k += 1
        pin, pout = self.wf.create_port(), self.wf.create_port()
        step = self.wf.create_step(cls=CWLLoopOutputAllStep if method == "all" else CWLLoopOutputLastStep,
                                   name="/lp%d/o-loop-output" % self.k)
        step.add_input_port("o", pin)
        step.add_output_port("o", pout)
        return await self._drive(step, pin, pout, arrivals)

    async def replay_lc(self, arrivals: list):
        """arrivals on the (single) input port of a real LoopCombinatorStep + LoopCombinator."""
        from streamflow.workflow.combinator import LoopCombinator
        from streamflow.workflow.step import LoopCombinatorStep
        self.k += 1
        pin, pout = self.wf.create_port(), self.wf.create_port()
        comb = LoopCombinator(name="/lp%d-loop-combinator" % self.k, workflow=self.wf)
        comb.add_item("i1")
        step = self.wf.create_step(cls=LoopCombinatorStep, name="/lp%d-loop-combinator" % self.k, combinator=comb)
        step.add_input_port("i1", pin)
        step.add_output_port("i1", pout)
        return await self._drive(step, pin, pout, arrivals)


# ------------------------------------------------------------------------------------------------
# B2: generated CWL loop documents

LIM = 40          # loopWhen: inputs.i1 < LIM ; instance j starts at LIM - N[j]


def val(x: str, start: int, k: int):
    """Value of output x produced by iteration k of an instance whose loop variable starts at `start`."""
    return start + k + 1 if x == "o1" else (start + k) * 100 + 7


def make_document(counts: list, scatter: bool, method: str, two_outputs: bool = True):
    """A cwltool-extension loop document: i1 is fed back from o1 (o1 = i1 + 1), o2 = i1*100+7 is computed by
    an independent step of the body and is not fed back.  With `scatter` the loop step sits inside a
    scattered sub-workflow: one loop instance per element, counts[j] iterations for element j."""
    outs = ["o1", "o2"] if two_outputs else ["o1"]
    t_one = {"type": "array", "items": "int"} if method == "all" else ["null", "int"]
    body_steps = {
        "a": {"in": {"i1": "i1"}, "out": ["o1"],
              "run": {"class": "ExpressionTool", "inputs": {"i1": "int"}, "outputs": {"o1": "int"},
                      "expression": "${return {'o1': inputs.i1 + 1};}"}}}
    if two_outputs:
        body_steps["b"] = {"in": {"i1": "i1"}, "out": ["o2"],
                           "run": {"class": "ExpressionTool", "inputs": {"i1": "int"}, "outputs": {"o2": "int"},
                                   "expression": "${return {'o2': inputs.i1 * 100 + 7};}"}}
    body = {"class": "Workflow", "inputs": {"i1": "int"},
            "outputs": {x: {"type": "int", "outputSource": ("a/" if x == "o1" else "b/") + x} for x in outs},
            "steps": body_steps}
    loop_step = {"in": {"i1": "i1"}, "out": outs, "run": body,
                 "requirements": {"cwltool:Loop": {"loopWhen": "$(inputs.i1 < %d)" % LIM, "loop": {"i1": "o1"},
                                                   "outputMethod": method}}}
    reqs = {"InlineJavascriptRequirement": {}, "ScatterFeatureRequirement": {}, "SubworkflowFeatureRequirement": {}}
    if scatter:
        inner = {"class": "Workflow", "inputs": {"i1": "int"},
                 "outputs": {x: {"type": t_one, "outputSource": "lp/" + x} for x in outs},
                 "steps": {"lp": loop_step}}
        doc = {"cwlVersion": "v1.2", "class": "Workflow", "$namespaces": {"cwltool": "http://commonwl.org/cwltool#"},
               "requirements": reqs, "inputs": {"i1": "int[]"},
               "outputs": {x: {"type": {"type": "array", "items": t_one}, "outputSource": "sc/" + x} for x in outs},
               "steps": {"sc": {"scatter": "i1", "in": {"i1": "i1"}, "out": outs, "run": inner}}}
        job = {"i1": [LIM - n for n in counts]}
    else:
        doc = {"cwlVersion": "v1.2", "class": "Workflow", "$namespaces": {"cwltool": "http://commonwl.org/cwltool#"},
               "requirements": reqs, "inputs": {"i1": "int"},
               "outputs": {x: {"type": t_one, "outputSource": "lp/" + x} for x in outs},
               "steps": {"lp": loop_step}}
        job = {"i1": LIM - counts[0]}
    return doc, job


class ProgressDelays:
    """Completion of the jobs of the body step that computes the side output (o2) is held until the loop has
    advanced by d further iterations (d seeded in 0..3; a job may take any time, so every resulting order is one
    a real run can produce), so that values reach the loop output step out of iteration order independently of
    the machine's load.  Nothing upstream of these jobs waits for them; a real-time bound releases them anyway
    (tail of the loop, or a mutated tree in which the loop stops advancing)."""

    CHOICES = (0, 0, 1, 2, 3)

    def __init__(self, seed, recorder, bound: float = 0.4):
        import random
        self.rng = random.Random(seed)
        self.rec = recorder
        self.bound = bound

    def _mk(self, f):
        d = self

        async def w(self_cmd, job, *a, **k):
            r = await f(self_cmd, job, *a, **k)
            name = getattr(job, "name", "")
            if "/b/" in name:
                target = d.rec.progress + d.rng.choice(d.CHOICES)
                loop = asyncio.get_running_loop()
                deadline = loop.time() + d.bound
                while d.rec.progress < target and loop.time() < deadline:
                    await asyncio.sleep(0.002)
            return r
        w.__wrapped__ = f
        return w


class Recorder:
    """Run-time wrappers: Port.put events (recorded before the token is appended, i.e. at the put),
    the executed workflow, seeded completion delays on database methods and job commands."""

    def __init__(self, seed, K=3):
        self.events = []
        self.progress = 0          # tokens put by the LoopCombinatorStep so far (iterations started)
        self.workflows = []
        self.seed = seed
        self.K = K
        self._undo = []

    def _producer(self):
        from streamflow.core.workflow import Step
        f = sys._getframe(2)
        n = 0
        while f is not None and n < 12:
            s = f.f_locals.get("self")
            if isinstance(s, Step):
                return s.name
            f = f.f_back
            n += 1
        return None

    def install(self):
        import streamflow.core.workflow as cw
        import streamflow.persistence.sqlite as sq
        from streamflow.workflow.executor import StreamFlowExecutor
        rec = self
        orig_put = cw.Port.put

        def put(self, token):
            by = rec._producer()
            rec.events.append({"port": self.name, "by": by, "tok": proj_token(token)})
            if by is not None and by.endswith("-loop-combinator"):
                rec.progress += 1
            return orig_put(self, token)
        cw.Port.put = put
        self._undo.append(lambda: setattr(cw.Port, "put", orig_put))
        orig_run = StreamFlowExecutor.run

        async def run(self):
            rec.workflows.append(self.workflow)
            return await orig_run(self)
        StreamFlowExecutor.run = run
        self._undo.append(lambda: setattr(StreamFlowExecutor, "run", orig_run))
        # genuinely nondeterministic completions: database thread, job command
        delays = aio.SeededDelays(self.seed, self.K)
        cdelays = ProgressDelays("%s/cmd" % (self.seed,), self)     # o2 jobs finish out of iteration order
        for name in ("add_token", "add_provenance", "update_step", "add_execution", "update_execution"):
            f = getattr(sq.SqliteDatabase, name)
            setattr(sq.SqliteDatabase, name, delays._mk(f))
            self._undo.append(lambda name=name, f=f: setattr(sq.SqliteDatabase, name, f))
        try:
            import streamflow.cwl.command as cc
            for clsname in ("CWLExpressionCommand", "CWLCommand"):
                cls = getattr(cc, clsname, None)
                if cls is not None and "execute" in cls.__dict__:
                    f = cls.execute
                    setattr(cls, "execute", cdelays._mk(f))
                    self._undo.append(lambda cls=cls, f=f: setattr(cls, "execute", f))
        except Exception:          # a mutated tree may not even import: the run itself will show it
            pass

    def uninstall(self):
        for u in reversed(self._undo):
            u()
        self._undo = []


def run_document(workdir: str, doc: dict, job: dict, seed, K: int = 3, watchdog: float = 240.0):
    """Run one generated document through streamflow.cwl.runner.main, exactly as tests/test_cwl_loop.py
    does (in-process), in private directories.  Returns {"rc", "outputs", "stdout", "events", "roles"}."""
    os.makedirs(workdir, exist_ok=True)
    wf_path = os.path.join(workdir, "wf.cwl")
    job_path = os.path.join(workdir, "job.json")
    sf_path = os.path.join(workdir, "streamflow.yml")
    with open(wf_path, "w") as f:
        json.dump(doc, f, indent=1)
    with open(job_path, "w") as f:
        json.dump(job, f)
    with open(sf_path, "w") as f:
        json.dump({"version": "v1.0", "workflows": {"w": {"type": "cwl", "config": {"file": "wf.cwl", "settings": "job.json"}}},
                   "database": {"type": "default", "config": {"connection": os.path.join(workdir, "sf.db")}}}, f)
    old_tmp = tempfile.tempdir
    tempfile.tempdir = os.path.join(workdir, "tmp")
    os.makedirs(tempfile.tempdir, exist_ok=True)
    rec = Recorder(seed, K)
    out = io.StringIO()
    res = {"rc": None, "outputs": None, "stdout": "", "events": [], "roles": None, "exc": None}
    import signal

    fired = []

    def on_alarm(signum, frame):
        fired.append(1)
        raise TimeoutError("watchdog %ss" % watchdog)
    old_handler = signal.signal(signal.SIGALRM, on_alarm)
    signal.alarm(int(watchdog))
    try:
        from streamflow.cwl.runner import main
        rec.install()
        with contextlib.redirect_stdout(out):
            res["rc"] = main(["--streamflow-file", sf_path, "--outdir", os.path.join(workdir, "out"), "--quiet",
                              wf_path, job_path])
    except TimeoutError as e:
        res["exc"] = "hang: %s" % e
    except BaseException as e:   # noqa: exceptions of the code under test are observations
        if isinstance(e, KeyboardInterrupt):
            raise
        res["exc"] = "%s: %s" % (type(e).__name__, e)
    finally:
        signal.alarm(0)
        signal.signal(signal.SIGALRM, old_handler)
        rec.uninstall()
        tempfile.tempdir = old_tmp
    if fired:          # runner.main() swallows exceptions and returns 1: keep the fact that the watchdog fired
        res["exc"] = "hang: watchdog %ss" % watchdog
    res["stdout"] = out.getvalue()
    try:
        res["outputs"] = json.loads(res["stdout"]) if res["stdout"].strip() else None
    except Exception:
        res["outputs"] = None
    res["events"] = rec.events
    if rec.workflows:
        try:
            res["roles"] = port_roles(rec.workflows[0])
        except Exception as e:
            res["roles"] = {"error": "%s: %s" % (type(e).__name__, e)}
    return res


def port_roles(wf):
    """Map port names of the translated workflow to the model's ports: p3, p4, p5, p8:<x>, p6:<x>."""
    from streamflow.cwl.step import CWLLoopConditionalStep
    from streamflow.workflow.step import LoopCombinatorStep, LoopOutputStep
    roles = {}
    steps = {}
    for name, s in wf.steps.items():
        if isinstance(s, LoopCombinatorStep):
            roles[s.input_ports["i1"]] = "p3"
            roles[s.output_ports["i1"]] = "p4"
            steps["lc"] = name
        elif isinstance(s, CWLLoopConditionalStep):
            roles[s.output_ports["i1"]] = "p5"
            steps["cd"] = name
        elif isinstance(s, LoopOutputStep):
            x = next(iter(s.input_ports))
            roles[s.input_ports[x]] = "p8:" + x
            roles[s.output_ports[x]] = "p6:" + x
            steps["lo:" + x] = name
        elif name.endswith("-loop-terminator"):
            steps["tm"] = name
        elif name.endswith("i1-back-propagation-transformer"):
            steps["bp"] = name
        elif name.endswith("i1-input-forward-transformer"):
            steps["in"] = name
    return {"ports": roles, "steps": steps}
