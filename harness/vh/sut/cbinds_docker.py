"""Fake `docker` CLI for the container-bind checks (X03).  Standard library only: it is started as
`python -S -E cbinds_docker.py <docker args>` by the tiny `docker` shell script that
`vh.sut.cbinds.World` puts first on PATH (the script serves `docker exec` itself, without python).

A "container" is a real private file-system view built with Linux mount namespaces (we are root in
the sandbox, like `vh.sut.fs_remote` which uses chroot):

  * container root  = <home>/roots/<id>            (plain directory; `/usr` of the machine is bind-mounted
                                                     read-only inside, `/bin`, `/lib`... are the usual symlinks)
  * bind mount      = `mount --bind <host dir> <root>/<destination>` inside a private mount namespace
  * named volume    = a private directory <home>/vol/<name> bound at the destination
  * tmpfs mount     = a private directory <home>/tmpfs/<id>_<n> bound at the destination
  * the container's "init" is `tail --pid=<harness pid> -f /dev/null` chroot-ed into the root inside that
    namespace: `docker exec` is `nsenter -t <init> -m -r -w ...`, `docker stop` kills it (so an `exec` on a
    stopped container fails like the real one) and a crashed harness leaves nothing behind.

Hence host paths are invisible inside the container and container paths are invisible on the host,
except through the mounts - exactly the property the connector's bind-mount shortcuts rely on.

What the container reports about itself is configuration (`<home>/daemon.json`): `id -u`, the cgroup
files, /proc/meminfo, and the `df -aT` table (fake `/fakebin/df`, generated from the mount table with the
file-system types docker shows: overlay for /, the backing device for binds and volumes, tmpfs).

Sub-commands understood (exactly those `DockerConnector` issues): version, pull, run (here), image inspect,
inspect, exec, stop (in the shell script, see `vh.sut.cbinds.DOCKER_SH`).  Mount options are parsed the way docker does:
`--volume src:dst[:mode]`, `--mount type=..,source=..,target=..[,readonly]`, `--tmpfs dst`; paths are
cleaned (`filepath.Clean`), a `--mount type=bind` whose source does not exist is an error, a `--volume` bind
source is created, duplicate destinations are an error.
"""
import csv
import hashlib
import io
import json
import os
import posixpath
import signal
import subprocess
import sys
import time

BOOL_FLAGS = {"detach", "d", "interactive", "i", "init", "rm", "privileged", "publish-all", "read-only",
              "no-healthcheck", "oom-kill-disable", "tty", "t", "quiet", "q"}
UNSHARE = "/usr/bin/unshare"
NSENTER = "/usr/bin/nsenter"


class DockerError(Exception):
    def __init__(self, msg, rc=125):
        super().__init__(msg)
        self.rc = rc


def home():
    return os.environ["FAKE_DOCKER_HOME"]


def load_daemon(h):
    with open(os.path.join(h, "daemon.json")) as f:
        return json.load(f)


def save_daemon(h, d):
    tmp = os.path.join(h, "daemon.json.tmp%d" % os.getpid())
    with open(tmp, "w") as f:
        json.dump(d, f)
    os.replace(tmp, os.path.join(h, "daemon.json"))


def result(h, *fields):
    """Second log record of a python-served command: its outcome."""
    with open(os.path.join(h, "log"), "a") as f:
        f.write("\x1f".join(["#result"] + [str(x) for x in fields]) + "\x1f\x1e\n")


def clean(p):
    p = posixpath.normpath(p)
    return "/" + p.lstrip("/") if p.startswith("//") else p


# ------------------------------------------------------------------------------------------------
# mount option parsing (docker's rules)
# ------------------------------------------------------------------------------------------------

def parse_volume_opt(spec):
    parts = spec.split(":")
    if len(parts) == 1:
        if not parts[0].startswith("/"):
            raise DockerError("invalid volume specification: '%s'" % spec)
        return {"Type": "volume", "Name": "anon_" + hashlib.sha1(spec.encode()).hexdigest()[:12],
                "Destination": clean(parts[0]), "RW": True, "Mode": ""}
    if len(parts) == 2:
        src, dst, mode = parts[0], parts[1], ""
    elif len(parts) == 3:
        src, dst, mode = parts
    else:
        raise DockerError("invalid volume specification: '%s'" % spec)
    if not src or not dst or not dst.startswith("/"):
        raise DockerError("invalid volume specification: '%s'" % spec)
    modes = [m for m in mode.split(",") if m]
    for m in modes:
        if m not in ("ro", "rw", "z", "Z", "shared", "slave", "private", "rshared", "rslave", "rprivate",
                     "nocopy", "consistent", "cached", "delegated"):
            raise DockerError("invalid mode: %s" % mode)
    rw = "ro" not in modes
    if src.startswith("/"):
        return {"Type": "bind", "Source": clean(src), "Destination": clean(dst), "RW": rw, "Mode": mode,
                "create_source": True}
    return {"Type": "volume", "Name": src, "Destination": clean(dst), "RW": rw, "Mode": mode}


def parse_mount_opt(spec):
    fields = next(csv.reader(io.StringIO(spec)))
    typ, src, dst, ro = "volume", None, None, False
    for f in fields:
        key, sep, val = f.partition("=")
        key = key.lower()
        if key == "type":
            typ = val.lower()
        elif key in ("source", "src"):
            src = val
        elif key in ("target", "dst", "destination"):
            dst = val
        elif key in ("readonly", "ro"):
            ro = (not sep) or val.lower() in ("true", "1")
        elif key in ("bind-propagation", "consistency", "volume-driver", "volume-label", "volume-nocopy",
                     "volume-opt", "tmpfs-size", "tmpfs-mode", "bind-nonrecursive", "bind-recursive"):
            pass
        else:
            raise DockerError("invalid argument \"%s\" for \"--mount\" flag: unexpected key '%s' in '%s'" % (spec, key, f))
    if typ not in ("bind", "volume", "tmpfs"):
        raise DockerError("invalid argument \"%s\" for \"--mount\" flag: type is invalid: %s" % (spec, typ))
    if not dst:
        raise DockerError("invalid argument \"%s\" for \"--mount\" flag: target is required" % spec)
    if not dst.startswith("/"):
        raise DockerError("invalid mount config for type \"%s\": invalid mount path: '%s' mount path must be absolute" % (typ, dst))
    if typ == "bind":
        if not src:
            raise DockerError("invalid mount config for type \"bind\": field Source must not be empty")
        if not src.startswith("/"):
            raise DockerError("invalid mount config for type \"bind\": invalid mount path: '%s' mount path must be absolute" % src)
        return {"Type": "bind", "Source": clean(src), "Destination": clean(dst), "RW": not ro, "Mode": "",
                "create_source": False}
    if typ == "tmpfs":
        if src:
            raise DockerError("invalid mount config for type \"tmpfs\": field Source must not be specified")
        return {"Type": "tmpfs", "Destination": clean(dst), "RW": not ro, "Mode": ""}
    return {"Type": "volume", "Name": src or ("anon_" + hashlib.sha1(spec.encode()).hexdigest()[:12]),
            "Destination": clean(dst), "RW": not ro, "Mode": "z"}


def parse_run(argv):
    """-> (options: {name: [values]}, image, command)."""
    opts = {}
    i = 0
    while i < len(argv):
        a = argv[i]
        if not a.startswith("-") or a == "-":
            break
        name = a.lstrip("-")
        if "=" in name:
            name, _, val = name.partition("=")
            opts.setdefault(name, []).append(val)
            i += 1
        elif name in BOOL_FLAGS:
            opts.setdefault(name, []).append(True)
            i += 1
        else:
            if i + 1 >= len(argv):
                raise DockerError("flag needs an argument: %s" % a)
            opts.setdefault(name, []).append(argv[i + 1])
            i += 2
    if i >= len(argv):
        raise DockerError("\"docker run\" requires at least 1 argument.", 1)
    return opts, argv[i], argv[i + 1:]


# ------------------------------------------------------------------------------------------------
# containers
# ------------------------------------------------------------------------------------------------

def df_table(mounts, conf):
    avail = conf.get("avail_kb", {})

    def row(dev, typ, mp):
        a = int(avail.get(mp, avail.get("default", 1048576)))
        total = a * 2
        return (dev, typ, total, total - a, a, "50%", mp)
    rows = [row("overlay", "overlay", "/"), ("proc", "proc", 0, 0, 0, "-", "/proc"),
            row("tmpfs", "tmpfs", "/dev"), ("devpts", "devpts", 0, 0, 0, "-", "/dev/pts"),
            ("sysfs", "sysfs", 0, 0, 0, "-", "/sys"), ("cgroup", "cgroup2", 0, 0, 0, "-", "/sys/fs/cgroup"),
            ("mqueue", "mqueue", 0, 0, 0, "-", "/dev/mqueue"), row("shm", "tmpfs", "/dev/shm")]
    for mp in ("/etc/resolv.conf", "/etc/hostname", "/etc/hosts"):
        rows.append(row("/dev/vda1", "ext4", mp))
    for m in mounts:
        if m["Type"] == "tmpfs":
            rows.append(row("tmpfs", "tmpfs", m["Destination"]))
        elif m["Type"] == "volume":
            rows.append(row("/dev/vda1", "ext4", m["Destination"]))
        else:
            # a long device name: older `df` wraps it onto its own line (the connector's awk handles that)
            dev = "/dev/mapper/vg0-a_rather_long_logical_volume_name" if conf.get("wrap_df") else "/dev/vdb1"
            rows.append(row(dev, "xfs", m["Destination"]))
    out = ["Filesystem     Type     1K-blocks     Used Available Use% Mounted on"]
    for dev, typ, total, used, a, pct, mp in rows:
        if len(dev) > 20:
            out.append(dev)
            out.append("%-14s %-8s %9s %8s %9s %4s %s" % ("", typ, total, used, a, pct, mp))
        else:
            out.append("%-14s %-8s %9s %8s %9s %4s %s" % (dev, typ, total, used, a, pct, mp))
    return "\n".join(out) + "\n"


def build_root(h, cid, mounts, conf):
    root = os.path.join(h, "roots", cid)
    for d in ("usr", "dev", "proc", "tmp", "etc", "fakebin", "sys/fs/cgroup"):
        os.makedirs(os.path.join(root, d), exist_ok=True)
    for link in ("bin", "lib", "lib64", "sbin"):
        if os.path.islink("/" + link) and not os.path.lexists(os.path.join(root, link)):
            os.symlink(os.readlink("/" + link), os.path.join(root, link))
    open(os.path.join(root, "dev", "null"), "w").close()
    # /usr/bin/awk etc. are links into /etc/alternatives on Debian-like systems
    alt = "/etc/alternatives"
    if os.path.isdir(alt):
        os.makedirs(root + alt, exist_ok=True)
        for name in os.listdir(alt):
            try:
                tgt = os.readlink(os.path.join(alt, name))
            except OSError:
                continue
            if tgt.startswith("/usr/") and not os.path.lexists(os.path.join(root + alt, name)):
                os.symlink(tgt, os.path.join(root + alt, name))
    with open(os.path.join(root, ".cbinds_id"), "w") as f:
        f.write(cid + "\n")
    with open(os.path.join(root, "proc", "meminfo"), "w") as f:
        f.write("MemTotal:       %d kB\nMemFree:        1024 kB\nMemAvailable:   2048 kB\n" % int(conf.get("meminfo_kb", 4194304)))
    cg = conf.get("cgroup", {})
    base = os.path.join(root, "sys", "fs", "cgroup")
    quota, period = cg.get("quota", "max"), cg.get("period", 100000)
    cpuset, memory = cg.get("cpuset", "0-3"), cg.get("memory", "max")
    if int(cg.get("version", 2)) == 1:
        for d in ("cpu", "cpuset", "memory"):
            os.makedirs(os.path.join(base, d), exist_ok=True)
        files = {"cpu/cpu.cfs_quota_us": -1 if quota == "max" else quota, "cpu/cpu.cfs_period_us": period,
                 "cpuset/cpuset.effective_cpus": cpuset,
                 "memory/memory.limit_in_bytes": 9223372036854771712 if memory == "max" else memory}
    else:
        files = {"cpu.max": "%s %s" % (quota, period), "cpuset.cpus.effective": cpuset, "memory.max": memory}
    for name, val in files.items():
        with open(os.path.join(base, name), "w") as f:
            f.write("%s\n" % val)
    with open(os.path.join(root, ".df_table"), "w") as f:
        f.write(df_table(mounts, conf))
    with open(os.path.join(root, "fakebin", "df"), "w") as f:
        f.write("#!/bin/sh\nexec /usr/bin/cat /.df_table\n")
    with open(os.path.join(root, "fakebin", "id"), "w") as f:
        f.write("#!/bin/sh\nif [ \"$1\" = -u ]; then echo %d; else echo \"uid=%d gid=%d\"; fi\n" % ((int(conf.get("uid", 0)),) * 3))
    for name in ("df", "id"):
        os.chmod(os.path.join(root, "fakebin", name), 0o755)
    return root


def start_init(h, cid, root, mounts, watch_pid):
    lines = ["set -e", "mount --bind -o ro /usr '%s/usr'" % root, "mount --bind /dev/null '%s/dev/null'" % root]
    n = 0
    for m in sorted(mounts, key=lambda m: m["Destination"].count("/")):
        if m["Type"] == "bind":
            src = m["Source"]
        elif m["Type"] == "volume":
            src = os.path.join(h, "vol", m["Name"])
            os.makedirs(src, exist_ok=True)
        else:
            n += 1
            src = os.path.join(h, "tmpfs", "%s_%d" % (cid[:12], n))
            os.makedirs(src, exist_ok=True)
        tgt = root + m["Destination"]
        lines.append("mkdir -p '%s'" % tgt)
        lines.append("mount --bind '%s' '%s'" % (src, tgt))
        if not m.get("RW", True):
            lines.append("mount -o remount,bind,ro '%s'" % tgt)
    # ready is signalled from INSIDE the chroot: `nsenter -r` takes the root of this very process
    ready = os.path.join(root, ".ready")
    lines.append("exec chroot '%s' /bin/sh -c 'echo ok > /.ready; exec /usr/bin/tail --pid=%d -f /dev/null'" % (root, int(watch_pid)))
    script = os.path.join(h, "state", cid, "init.sh")
    with open(script, "w") as f:
        f.write("\n".join(lines) + "\n")
    log = open(os.path.join(h, "state", cid, "init.log"), "w")
    p = subprocess.Popen([UNSHARE, "-m", "--propagation", "private", "/bin/sh", script], stdin=subprocess.DEVNULL,
                         stdout=log, stderr=log, start_new_session=True,
                         env={"PATH": "/usr/sbin:/usr/bin:/sbin:/bin"})
    t0 = time.time()
    while not os.path.exists(ready):
        if p.poll() is not None:
            raise DockerError("failed to create shim task: %s" % open(os.path.join(h, "state", cid, "init.log")).read(), 125)
        if time.time() - t0 > 120:
            p.kill()
            raise DockerError("container init did not start", 125)
        time.sleep(0.005)
    return p.pid


MISSING = []        # bind sources that did not exist when the last container was created


def create_container(h, image, mount_specs, daemon=None, conf_override=None):
    """mount_specs: list of ("volume"|"mount"|"tmpfs", spec string).  Returns the container id."""
    daemon = daemon or load_daemon(h)
    conf = dict(daemon.get("container", {}))
    conf.update(conf_override or {})
    mounts = []
    for kind, spec in mount_specs:
        if kind == "volume":
            mounts.append(parse_volume_opt(spec))
        elif kind == "mount":
            mounts.append(parse_mount_opt(spec))
        else:
            mounts.append({"Type": "tmpfs", "Destination": clean(spec.split(":")[0]), "RW": True, "Mode": "", "hostconfig": True})
    seen = set()
    for m in mounts:
        if m["Destination"] in seen:
            raise DockerError("Duplicate mount point: %s" % m["Destination"])
        seen.add(m["Destination"])
        if m["Destination"] == "/":
            raise DockerError("invalid specification: destination can't be '/'")
    MISSING[:] = [m["Source"] for m in mounts if m["Type"] == "bind" and not os.path.isdir(m["Source"])]
    for m in mounts:
        if m["Type"] == "bind":
            if m.pop("create_source", False):
                os.makedirs(m["Source"], exist_ok=True)
            elif not os.path.exists(m["Source"]):
                raise DockerError("invalid mount config for type \"bind\": bind source path does not exist: %s" % m["Source"])
    n = int(daemon.get("counter", 0)) + 1
    daemon["counter"] = n
    cid = hashlib.sha256(("%s/%d" % (h, n)).encode()).hexdigest()
    os.makedirs(os.path.join(h, "state", cid), exist_ok=True)
    root = build_root(h, cid, mounts, conf)
    pid = start_init(h, cid, root, mounts, daemon.get("watch_pid", os.getppid()))
    info = {"Id": cid, "Image": image, "root": root, "pid": pid, "Mounts": mounts, "conf": conf}
    d = os.path.join(h, "state", cid)
    with open(os.path.join(d, "info.json"), "w") as f:
        json.dump(info, f)
    with open(os.path.join(d, "pid"), "w") as f:
        f.write("%d\n" % pid)
    with open(os.path.join(d, "inspect.json"), "w") as f:
        f.write(json.dumps(inspect_json(info, True)) + "\n")
    open(os.path.join(d, "running"), "w").close()
    save_daemon(h, daemon)
    return cid


def images(h):
    try:
        with open(os.path.join(h, "images")) as f:
            return [x for x in f.read().split("\n") if x]
    except FileNotFoundError:
        return []


def add_image(h, img):
    with open(os.path.join(h, "images"), "a") as f:
        f.write(img + "\n")


def injected(h, cmd):
    try:
        with open(os.path.join(h, "fail", cmd)) as f:
            return int(f.read().strip() or 0)
    except (FileNotFoundError, ValueError):
        return 0


def find_container(h, ref):
    d = os.path.join(h, "state")
    if not ref or not os.path.isdir(d):
        return None
    for name in os.listdir(d):
        if name == ref or (len(ref) >= 12 and name.startswith(ref)):
            p = os.path.join(d, name, "info.json")
            if os.path.exists(p):
                with open(p) as f:
                    return json.load(f)
    return None


def stop_container(h, info):
    d = os.path.join(h, "state", info["Id"])
    try:
        os.unlink(os.path.join(d, "running"))
    except FileNotFoundError:
        pass
    try:
        os.kill(int(info["pid"]), signal.SIGKILL)
    except (ProcessLookupError, PermissionError):
        pass


def inspect_json(info, running):
    mounts = []
    for m in info["Mounts"]:
        if m.get("hostconfig"):
            continue        # `--tmpfs` mounts are listed under HostConfig.Tmpfs, not under Mounts
        if m["Type"] == "bind":
            mounts.append({"Type": "bind", "Source": m["Source"], "Destination": m["Destination"],
                           "Mode": m.get("Mode", ""), "RW": m.get("RW", True), "Propagation": "rprivate"})
        elif m["Type"] == "volume":
            mounts.append({"Type": "volume", "Name": m["Name"],
                           "Source": "/var/lib/docker/volumes/%s/_data" % m["Name"], "Destination": m["Destination"],
                           "Driver": "local", "Mode": m.get("Mode", "z"), "RW": m.get("RW", True), "Propagation": ""})
        else:
            mounts.append({"Type": "tmpfs", "Source": "", "Destination": m["Destination"], "Mode": "",
                           "RW": m.get("RW", True), "Propagation": ""})
    ip = info["conf"].get("ip", "172.17.0.2")
    nets = {"bridge": {"IPAddress": ip, "Gateway": "172.17.0.1"}} if ip is not None else {"none": {"IPAddress": ""}}
    return {"Id": info["Id"], "Name": "/cbinds_%s" % info["Id"][:8], "Image": "sha256:" + "0" * 64,
            "State": {"Status": "running" if running else "exited", "Running": running},
            "Config": {"Image": info["Image"]}, "Mounts": mounts,
            "HostConfig": {"Tmpfs": {m["Destination"]: "" for m in info["Mounts"] if m.get("hostconfig")}},
            "NetworkSettings": {"Networks": nets}}


# ------------------------------------------------------------------------------------------------
# CLI
# ------------------------------------------------------------------------------------------------

def main(argv):
    """The sub-commands that need more than the shell script: version, pull, run."""
    h = home()
    if not argv:
        print("Usage:  docker [OPTIONS] COMMAND", file=sys.stderr)
        return 1
    cmd, rest = argv[0], argv[1:]
    daemon = load_daemon(h)
    try:
        if cmd == "version":
            print("24.0.7")
            return 0
        if cmd == "pull":
            img = rest[-1]
            if img in daemon.get("pullable", []) and not injected(h, "pull"):
                if img not in images(h):
                    add_image(h, img)
                result(h, "pull", 0, img)
                print(img)
                return 0
            result(h, "pull", 1, img)
            print("Error response from daemon: pull access denied for %s, repository does not exist" % img, file=sys.stderr)
            return 1
        if cmd == "run":
            opts, image, command = parse_run(rest)
            rc = injected(h, "run")
            if rc:
                result(h, "run", rc, "")
                print("docker: Error response from daemon: injected failure.", file=sys.stderr)
                return rc
            if image not in images(h):
                # the real CLI would pull; the connector is supposed to have pulled already
                if image in daemon.get("pullable", []):
                    add_image(h, image)
                    result(h, "implicit_pull", 0, image)
                else:
                    raise DockerError("Unable to find image '%s' locally" % image)
            if not opts.get("detach") and not opts.get("d"):
                raise DockerError("fake docker only supports detached containers")
            specs = [("volume", s) for s in opts.get("volume", []) + opts.get("v", [])]
            specs += [("mount", s) for s in opts.get("mount", [])]
            specs += [("tmpfs", s) for s in opts.get("tmpfs", [])]
            override = {}
            if opts.get("user"):
                u = str(opts["user"][-1]).split(":")[0]
                if u.isdigit():
                    override["uid"] = int(u)
            cid = create_container(h, image, specs, daemon, override)
            d = os.path.join(h, "state", cid)
            with open(os.path.join(d, "run_opts.json"), "w") as f:
                json.dump({"opts": opts, "image": image, "command": command}, f)
            if opts.get("rm"):
                open(os.path.join(d, "autoremove"), "w").close()
            result(h, "run", 0, cid, len(MISSING))
            print(cid)
            return 0
        print("docker: '%s' is not a docker command (fake docker of the verification harness)." % cmd, file=sys.stderr)
        result(h, "unknown", 1, cmd)
        return 1
    except DockerError as e:
        result(h, cmd, e.rc, "")
        print("docker: Error response from daemon: %s." % e, file=sys.stderr)
        return e.rc


if __name__ == "__main__":
    sys.exit(main(sys.argv[1:]))
