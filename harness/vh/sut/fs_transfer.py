"""Binding of the transfer contract (RemoteFSTransfer.tla, C22) to DefaultDataManager.transfer_data:
instantiate a case (names, contents, locations), build the source tree with os.*, run the real
transfer between the local deployment and shell-based remote locations (vh.sut.fs_remote), walk
the destination and compare with the contract, check the data-manager registration."""
from __future__ import annotations

import asyncio
import os
import random
import shutil
import stat

from . import fs_remote as FR

NAME_CLASSES = {
    "plain": lambda s: s,
    "space": lambda s: s[:1] + " " + s[1:],
    "quote": lambda s: s[:1] + "'" + s[1:],
    "unicode": lambda s: s[:1] + "é✓" + s[1:],
    "dash": lambda s: "-" + s,
}
BASE_NAMES = {"SRCNAME": "data", "DSTNAME": "copy", "f1": "f1.txt", "f2": "f2.bin", "x": "run.sh", "e": "empty",
              "sub": "sub", "g": "g.dat", "empty": "vacant", "lnk": "lnk", "dlnk": "dlnk", "alnk": "alnk"}
CLAUSES = ["error", "tree", "content", "execbit", "symlink", "registration"]


def contents(ccls: str, seed) -> dict:
    r = random.Random("content/%s/%s" % (seed, ccls))
    if ccls == "text":
        return {0: b"", 1: b"hello world\n", 2: b"second file, no newline"}
    if ccls == "binary":           # larger than the 64 KiB transfer buffer, every byte value, NULs
        return {0: b"", 1: bytes(r.getrandbits(8) for _ in range(70001)), 2: bytes(range(256)) * 2 + b"\x00\x00"}
    if ccls == "mib":
        return {0: b"", 1: r.randbytes(1 << 20), 2: b"\n\n"}
    raise KeyError(ccls)


class Inst:
    """One instantiated case: concrete names and contents."""

    def __init__(self, ncls: str, ccls: str, seed):
        self.ncls, self.ccls = ncls, ccls
        f = NAME_CLASSES[ncls]
        self.n = {k: f(v) for k, v in BASE_NAMES.items()}
        self.c = contents(ccls, seed)

    def rel(self, p) -> str:
        return "/".join(self.n[x] for x in p)


def build_source(real_src: str, source, inst: Inst, src_path: str | None = None):
    """source: entries of the model's source tree ([] = the root itself).  Links are relative."""
    ents = sorted(source, key=lambda e: (len(e["p"]), e["p"]))
    for e in ents:
        p = os.path.join(real_src, inst.rel(e["p"])) if e["p"] else real_src
        if e["k"] == "d":
            os.makedirs(p, exist_ok=True)
        elif e["k"] == "f":
            with open(p, "wb") as f:
                f.write(inst.c[e["c"]])
            os.chmod(p, 0o755 if e["x"] else 0o644)
        else:
            up = "../" * (len(e["p"]) - 1)
            os.symlink((src_path + "/" if e.get("abs") else up) + inst.rel(e["tgt"]), p)


def deref_snapshot(root, top: str, limit: int = 2000) -> dict:
    """The tree below `top` as seen INSIDE the location rooted at `root`, links followed.
    {rel: {"kind": f|d|dangling, "content", "x"}}; also returns the links met: (rel, resolved path)."""
    out, links = {}, []

    def visit(loc_path, rel, depth):
        if len(out) > limit or depth > 12:
            out[rel] = {"kind": "toodeep"}
            return
        rp = FR.real(root, loc_path)
        res = FR.resolve_in(root, loc_path)
        if os.path.islink(rp):
            links.append((rel, res))
        if res is None:
            out[rel] = {"kind": "dangling" if os.path.lexists(rp) else "missing"}
            return
        r = FR.real(root, res)
        st = os.stat(r) if not os.path.islink(r) else os.lstat(r)
        if stat.S_ISDIR(st.st_mode):
            out[rel] = {"kind": "d"}
            for n in sorted(os.listdir(r)):
                visit(res.rstrip("/") + "/" + n, (rel + "/" + n) if rel else n, depth + 1)
        elif stat.S_ISREG(st.st_mode):
            with open(r, "rb") as f:
                out[rel] = {"kind": "f", "content": f.read(), "x": bool(st.st_mode & 0o111)}
        else:
            out[rel] = {"kind": "?"}
    visit(top, "", 0)
    return out, links


def expected_tree(tree, inst: Inst) -> dict:
    out = {}
    for e in tree:
        rel = inst.rel(e["p"])
        out[rel] = {"kind": "d"} if e["k"] == "d" else {"kind": "f", "content": inst.c[e["c"]], "x": bool(e["x"])}
    return out


def compare(exp: dict, got: dict):
    """-> (clause, message) | None"""
    if got.get("", {}).get("kind") in ("missing", "dangling"):
        return ("tree", "destination root is %s" % got[""]["kind"])
    ek = {k: v["kind"] for k, v in exp.items()}
    gk = {k: v["kind"] for k, v in got.items()}
    if ek != gk:
        miss = sorted(set(ek) - set(gk))
        extra = sorted(set(gk) - set(ek))
        diffk = sorted(k for k in set(ek) & set(gk) if ek[k] != gk[k])
        return ("tree", "structure differs: missing %s, unexpected %s, other kind %s" % (miss[:6], extra[:6], [(k, ek[k], gk[k]) for k in diffk[:6]]))
    for k in sorted(exp):
        if exp[k]["kind"] == "f" and exp[k]["content"] != got[k]["content"]:
            return ("content", "content of %r differs: %d bytes expected, %d found (first difference at %s)" % (
                k, len(exp[k]["content"]), len(got[k]["content"]),
                next((i for i, (a, b) in enumerate(zip(exp[k]["content"], got[k]["content"])) if a != b), "end")))
    for k in sorted(exp):
        if exp[k]["kind"] == "f" and exp[k]["x"] != got[k]["x"]:
            return ("execbit", "executable bit of %r: expected %s, found %s" % (k, exp[k]["x"], got[k]["x"]))
    return None


class Bench:
    """One StreamFlow context with the local deployment and two shell-remote deployments
    (A: locations a1 a2 a3, B: locations b1 b2)."""

    def __init__(self, scratch: str, template: str | None = None):
        self.scratch = os.path.realpath(scratch)
        os.makedirs(self.scratch, exist_ok=True)
        self.W = os.path.join(self.scratch, "w")
        self.template = template
        self.k = 0

    async def start(self):
        import logging
        from streamflow.log_handler import logger
        logger.setLevel(logging.CRITICAL)
        from . import context as C
        os.umask(0o022)
        self.ctx = C.build(path=self.scratch)
        self.toolbox = FR.Toolbox(os.path.join(self.scratch, "tb"), self.template)
        self.lconn, self.lloc = await FR.deploy_local(self.ctx)
        self.gen = 0
        await self._deploy()
        os.makedirs(self.W, exist_ok=True)
        return self

    async def _deploy(self):
        self.gen += 1
        self.depA, self.depB = "depA%d" % self.gen, "depB%d" % self.gen
        self.connA, la, ra = await FR.deploy(self.ctx, self.toolbox, self.depA, ["a1", "a2", "a3"])
        self.connB, lb, rb = await FR.deploy(self.ctx, self.toolbox, self.depB, ["b1", "b2"])
        self.locs = {"L": self.lloc, **la, **lb}
        self.roots = {"L": None, **ra, **rb}
        for r in list(ra.values()) + list(rb.values()):
            os.makedirs(r + self.W, exist_ok=True)

    async def reset(self):
        for d in (self.depA, self.depB):
            try:
                await asyncio.wait_for(self.ctx.deployment_manager.undeploy(d), 20)
            except Exception:
                pass
        await self._deploy()

    async def stop(self):
        from . import context as C
        try:
            await asyncio.wait_for(C.close(self.ctx), 30)
        except Exception:
            pass

    def endpoints(self, pair: str, n: int):
        if pair == "L>L":
            return "L", ["L"]
        if pair == "L>R":
            return "L", ["a1", "a2"][:n]
        if pair == "R>L":
            return "a1", ["L"]
        if pair == "R>R:same-location":
            return "a1", ["a1", "a2"][:n]
        if pair == "R>R:same-connector":
            return "a1", ["a2", "a3"][:n]
        if pair == "R>R:other-connector":
            return "a1", ["b1", "b2"][:n]
        raise KeyError(pair)


def signature(case, dev: str, clause: str) -> str:
    return "transfer:%s:%s:%s:%s:%s:n%d:%s:%s" % (case["pair"], case["src"], case["dst"], case["bn"],
                                                   "rw" if case["writable"] else "ro", case["n"], dev, clause)


async def run_case(b: Bench, item, inst: Inst, dev: str, report, watchdog: float = 60.0):
    """One instantiated case through the real transfer_data.  Returns True when the contract holds."""
    from streamflow.core.data import DataType
    case = item["case"]
    b.k += 1
    base = "%s/c%d" % (b.W, b.k)
    src_name, dst_name = inst.n["SRCNAME"], inst.n["SRCNAME"] if case["bn"] == "same" else inst.n["DSTNAME"]
    src_path = "%s/in/%s" % (base, src_name)
    dst_path = "%s/out/%s" % (base, dst_name)
    s, ds = b.endpoints(case["pair"], case["n"])
    sroot = b.roots[s]
    os.makedirs(FR.real(sroot, base + "/in"))
    build_source(FR.real(sroot, src_path), item["source"], inst, src_path)
    for d in ds:
        r = b.roots[d]
        if case["dst"] == "absent":
            os.makedirs(FR.real(r, base + "/out"), exist_ok=True)
        elif case["dst"] == "dir":
            os.makedirs(FR.real(r, dst_path), exist_ok=True)
        else:
            os.makedirs(FR.real(r, base), exist_ok=True)
    dm = b.ctx.data_manager
    dm.register_path(location=b.locs[s], path=src_path, relpath=src_path, data_type=DataType.PRIMARY)
    conns = [b.connA, b.connB]
    for c in conns:
        del c.commands[:]
    err = None
    try:
        await asyncio.wait_for(dm.transfer_data(src_location=b.locs[s], src_path=src_path,
                                                dst_locations=[b.locs[d] for d in ds], dst_path=dst_path,
                                                writable=case["writable"]), watchdog)
    except FR.ShellWouldBlock as e:
        err = ("hang", "a remote command with an unterminated quote: %s" % e)
    except (asyncio.TimeoutError, TimeoutError):
        err = ("timeout", "transfer_data did not return within %ss" % watchdog)
        await b.reset()
    except Exception as e:  # noqa - whatever transfer_data raises is an observation
        err = ("error", "%s: %s" % (type(e).__name__, str(e)[:400]))
    verdict = None
    root_rel = dst_path if case["dst"] != "dir" else dst_path + "/" + src_name
    exp = expected_tree(item["tree"], inst)
    if err is not None:
        verdict = (err[0], err[1], None)
    else:
        for d in ds:
            got, links = deref_snapshot(b.roots[d], root_rel)
            diff = compare(exp, got)
            # a writable copy must not alias anything outside itself (links that stay inside the copy
            # resolve to identical content and are tolerated)
            outside = [(l, t) for l, t in links if t is None or not (t == root_rel or t.startswith(root_rel + "/"))]
            if diff is None and case["writable"] and outside:
                diff = ("symlink", "writable destination has symbolic links leaving the copy: %s" % outside[:5])
            if diff is None:
                regs = dm.get_data_locations(path=root_rel, deployment=b.locs[d].deployment, location_name=b.locs[d].name)
                good = [x for x in regs if x.path == root_rel and x.available.is_set()
                        and x.data_type in (DataType.PRIMARY, DataType.SYMBOLIC_LINK)]
                if not good:
                    diff = ("registration", "no available data location for %s on %s (found: %s)" % (
                        root_rel, d, [(x.path, str(x.data_type), x.available.is_set()) for x in regs]))
            if diff is not None:
                verdict = (diff[0], diff[1], d)
                break
    cmds = [c for conn in conns for c in conn.commands][-12:]
    # tidy: the case directory is unique, remove it everywhere (keeps scratch small)
    for r in set(b.roots.values()):
        shutil.rmtree(FR.real(r, base), ignore_errors=True)
    if verdict is None:
        return True
    clause, msg, where = verdict
    detail = {"case": case, "source": item["source"], "tree": item["tree"], "root": item["root"],
              "name_class": inst.ncls, "content_class": inst.ccls, "src": [s, src_path], "dst": [ds, dst_path],
              "clause": clause, "message": msg, "location": where, "remote_commands": cmds}
    report(signature(case, dev, clause), detail,
           "%s %s -> %s (dst %s, basename %s, %s, %d location(s), %s names, %s content): %s: %s" % (
               case["pair"], case["src"], root_rel.split("/out/")[-1], case["dst"], case["bn"],
               "writable" if case["writable"] else "read-only", case["n"], inst.ncls, inst.ccls, clause, msg))
    return False


HIST_ENDPOINTS = {"L>R": ("L", "a1"), "R>L": ("a1", "L"), "R>R:same-connector": ("a1", "a2"),
                  "R>R:other-connector": ("a1", "b1")}


def hist_shape(events) -> str:
    return ".".join(("T%s" % ("rw" if e["w"] else "ro")) if e["ev"] == "T" else "L%d" % e["i"] for e in events)


async def run_history(b: Bench, item, inst: Inst, report, watchdog: float = 60.0):
    """One history of RemoteFSTransferHistory on the real data manager: the same registered source is
    transferred to fresh paths L1, L2, L3 of ONE destination location; `L i` removes Li there and calls
    invalidate_location.  After every transfer: the new destination meets the contract of a single
    transfer, and every older copy the data manager still reports as available dereferences to the
    source tree.  Returns True when all of it holds."""
    from streamflow.core.data import DataType
    hc, events = item["hcase"], item["hist"]
    b.k += 1
    base = "%s/h%d" % (b.W, b.k)
    s, d = HIST_ENDPOINTS[hc["pair"]]
    sroot, droot = b.roots[s], b.roots[d]
    name = inst.n["SRCNAME"]
    src_path = "%s/in/%s" % (base, name)
    os.makedirs(FR.real(sroot, base + "/in"))
    os.makedirs(FR.real(droot, base), exist_ok=True)
    build_source(FR.real(sroot, src_path), item["source"], inst, src_path)
    dm = b.ctx.data_manager
    dm.register_path(location=b.locs[s], path=src_path, relpath=src_path, data_type=DataType.PRIMARY)
    exp = expected_tree(item["tree"], inst)
    L = lambda i: "%s/out%d/%s" % (base, i, name)
    conns = [b.connA, b.connB]
    for c in conns:
        del c.commands[:]
    lost = set()
    verdict = None

    def registered(path):
        regs = dm.get_data_locations(path=path, deployment=b.locs[d].deployment, location_name=b.locs[d].name)
        return [x for x in regs if x.path == path and x.data_type in (DataType.PRIMARY, DataType.SYMBOLIC_LINK)]

    for n, e in enumerate(events):
        if e["ev"] == "L":
            p = FR.real(droot, L(e["i"]))
            if os.path.islink(p) or not os.path.isdir(p):
                if os.path.lexists(p):
                    os.unlink(p)
            else:
                shutil.rmtree(p)
            try:
                dm.invalidate_location(b.locs[d], L(e["i"]))
            except Exception as ex:  # noqa
                verdict = ("error", "invalidate_location(%s) raised %s: %s" % (L(e["i"]), type(ex).__name__, ex), n)
                break
            lost.add(e["i"])
            continue
        i, w = e["i"], e["w"]
        err = None
        try:
            await asyncio.wait_for(dm.transfer_data(src_location=b.locs[s], src_path=src_path,
                                                    dst_locations=[b.locs[d]], dst_path=L(i), writable=w), watchdog)
        except FR.ShellWouldBlock as ex:
            err = ("hang", "a remote command with an unterminated quote: %s" % ex)
        except (asyncio.TimeoutError, TimeoutError):
            err = ("timeout", "transfer_data did not return within %ss" % watchdog)
            await b.reset()
        except Exception as ex:  # noqa - an observation
            err = ("error", "%s: %s" % (type(ex).__name__, str(ex)[:400]))
        if err is not None:
            verdict = (err[0], "step %d (transfer to L%d): %s" % (n + 1, i, err[1]), n)
            break
        got, links = deref_snapshot(droot, L(i))
        diff = None
        if got.get("", {}).get("kind") == "dangling":
            tgt = os.readlink(FR.real(droot, L(i))) if os.path.islink(FR.real(droot, L(i))) else "?"
            diff = ("dangling-link", "L%d is a dangling symbolic link to %s%s" % (
                i, tgt, " and is registered as available" if registered(L(i)) else ""))
        if diff is None:
            diff = compare(exp, got)
        outside = [(l, t) for l, t in links if t is None or not (t == L(i) or t.startswith(L(i) + "/"))]
        if diff is None and w and outside:
            diff = ("symlink", "writable destination has symbolic links leaving the copy: %s" % outside[:5])
        if diff is None:
            good = [x for x in registered(L(i)) if x.available.is_set()]
            if not good:
                diff = ("registration", "no available data location for L%d" % i)
        if diff is None:     # older copies: whatever is still reported as available must be good
            for j in range(1, i):
                if registered(L(j)):
                    g2, _ = deref_snapshot(droot, L(j))
                    d2 = compare(exp, g2)
                    if d2 is not None:
                        diff = ("stale-available-copy", "L%d is still registered as available but: %s" % (j, d2[1]))
                        break
        if diff is not None:
            verdict = (diff[0], "step %d (%s transfer to L%d): %s" % (n + 1, "writable" if w else "read-only", i, diff[1]), n)
            break
    cmds = [c for conn in conns for c in conn.commands][-12:]
    for r in set(b.roots.values()):
        shutil.rmtree(FR.real(r, base), ignore_errors=True)
    if verdict is None:
        return True
    clause, msg, n = verdict
    label = "retransfer-after-invalidate" if lost else "retransfer" if any(e["ev"] == "T" for e in events[:n]) else "first-transfer"
    shape = hist_shape(events[:n + 1])
    detail = {"hcase": hc, "hist": events, "failed_at": n, "source": item["source"], "tree": item["tree"],
              "name_class": inst.ncls, "content_class": inst.ccls, "clause": clause, "message": msg,
              "remote_commands": cmds}
    report("transfer-history:%s:%s:%s:%s:%s" % (label, hc["pair"], hc["src"], shape, clause), detail,
           "history %s of %s %s: %s" % (hist_shape(events), hc["pair"], hc["src"], msg))
    return False


def pick_deviation(seed, key: str, thorough: bool):
    r = random.Random("%s/%s" % (seed, key))
    if r.random() < 0.6:
        return r.choice(["space", "quote", "unicode", "dash"]), "text"
    return "plain", ("mib" if thorough and r.random() < 0.3 else "binary")


async def run_items(b: Bench, items, seed, thorough, report, count, count_hist):
    import json
    for it in items:
        if "hcase" in it:
            await run_history(b, it, Inst("plain", "text", seed), report)
            count_hist(it)
            continue
        key = json.dumps(it["case"], sort_keys=True)
        ok = await run_case(b, it, Inst("plain", "text", seed), "plain", report)
        count(it["case"], "plain", "text")
        if ok:
            ncls, ccls = pick_deviation(seed, key, thorough)
            dev = "name=%s" % ncls if ncls != "plain" else "content=%s" % ccls
            await run_case(b, it, Inst(ncls, ccls, seed), dev, report)
            count(it["case"], ncls, ccls)


def worker(args):
    scratch, template, items, seed, thorough = args
    from vh import aio
    out = {"violations": [], "cases": 0, "keys": set(), "by": {}, "error": None}

    def report(sig, detail, what):
        out["violations"].append((sig, detail, what))

    def count(case, ncls, ccls):
        out["cases"] += 1
        out["keys"].add("%s:%s:%s:%s:%s:%s:%s:%s" % (case["pair"], case["src"], case["dst"], case["bn"],
                                                     case["writable"], case["n"], ncls, ccls))
        for k in ("pair:" + case["pair"], "src:" + case["src"], "dst:" + case["dst"], "name:" + ncls,
                  "content:" + ccls, "writable:%s" % case["writable"], "n:%d" % case["n"]):
            out["by"][k] = out["by"].get(k, 0) + 1

    def count_hist(it):
        n = sum(1 for e in it["hist"] if e["ev"] == "T")
        out["cases"] += n
        out["keys"].add("history:%s:%s:%s" % (it["hcase"]["pair"], it["hcase"]["src"], hist_shape(it["hist"])))
        for k in ("histories", "history-transfers:%d" % n, "history-pair:" + it["hcase"]["pair"],
                  "history-with-invalidation:%s" % any(e["ev"] == "L" for e in it["hist"])):
            out["by"][k] = out["by"].get(k, 0) + (n if k.startswith("history-transfers") else 1)

    async def main():
        b = await Bench(scratch, template).start()
        try:
            await run_items(b, items, seed, thorough, report, count, count_hist)
        finally:
            await b.stop()
    _, exc = aio.run(main(), timeout=None)
    if exc is not None:
        import traceback
        out["error"] = "".join(traceback.format_exception(type(exc), exc, exc.__traceback__))[-3000:]
    return out
