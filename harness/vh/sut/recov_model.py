"""Glue between specs/Recovery (TLC) and vh.sut.recov (real engine) shared by the C16-C19 drivers."""
from __future__ import annotations

import json
import os
import random
import shutil

PH = {"s": "schedule", "t": "transfer", "e": "execute"}
HP = {v: k for k, v in PH.items()}


# ---------------------------------------------------------------------------------------------------
# shapes: model name -> real shape (vh.sut.recov) + job-name mapping + placement
# ---------------------------------------------------------------------------------------------------

def real_shape(name: str):
    from vh.sut import recov
    if name.startswith("pipe"):
        n = int(name[4])
        sh = recov.pipeline(n)
        jobs = {x: "/%s/0" % x for x in "abcde"[:n]}
        placement, deployments = {}, ("L1",)
        if name.endswith("x"):
            placement = {x: ("L2" if (i + 1) % 2 == 0 else "L1") for i, x in enumerate("abcde"[:n])}
            deployments = ("L1", "L2")
        return sh, jobs, placement, deployments
    if name.startswith("scat"):
        n = int(name[4])
        pre = not name.endswith("n")
        sh = recov.scatter(n, pre=pre, post=True)
        jobs = {"c": "/c/0"}
        if pre:
            jobs["a"] = "/a/0"
        for i in range(n):
            jobs["b%d" % i] = "/b/0.%d" % i
        return sh, jobs, {}, ("L1",)
    raise ValueError(name)


def cfg_text(shape, *, limit=30, dummy=False, maxpairs=1, maxtimes=1, kinds=("soft", "fail_stop"), phases=("s", "t", "e"),
             gen=False, maxgen=12, invariants=True, view=False, liveness=False):
    s = ["CONSTANTS",
         "  Jobs <- MCJobs  Parents <- MCParents  Loc <- MCLoc  Sink <- MCSink",
         "  Limit = %d  Dummy = %s  MaxGen = %d" % (limit, "TRUE" if dummy else "FALSE", maxgen),
         "  Shape = \"%s\"  MaxPairs = %d  MaxTimes = %d" % (shape, maxpairs, maxtimes),
         "  Kinds = {%s}  PhasesUsed = {%s}" % (", ".join('"%s"' % k for k in kinds), ", ".join('"%s"' % p for p in phases))]
    if liveness:
        s += ["SPECIFICATION MCSpec", "PROPERTY Terminates"]
    else:
        s += ["INIT MCInit", "NEXT %s" % ("GenNext" if gen else "Next")]
    if view and not gen and not liveness:
        s.append("VIEW View")
    if invariants:
        s += ["INVARIANT %s" % i for i in ("TypeOK", "VersionBound", "ExecBound", "DummyFirstFailure", "OutputThere", "OnlyNeeded", "GenBound")]
    return "\n".join(s) + "\n"


def plan_key(plan_rec) -> str:
    """Canonical key of a plan as emitted by TLC ({"a|e": [2, "soft"]} or [] for the empty plan)."""
    if not plan_rec:
        return "{}"
    return json.dumps({k: [int(v[0]), v[1]] for k, v in sorted(plan_rec.items())}, sort_keys=True)


def predictions(ctx, shape, **kw):
    """Run the generation config: {plan_key: [terminal records]} (one record per observable schedule)."""
    timeout = kw.pop("timeout", 1500)
    text = cfg_text(shape, gen=True, invariants=False, **kw)
    r = ctx.tlc("Recovery", "MC_Recovery", "Gen.cfg", files={"Gen.cfg": text}, workers=1, count=False, timeout=timeout)
    ctx.require(r.ok, "Recovery generation run failed (%s): %s" % (shape, r.stdout[-1500:]))
    out = {}
    for rec in r.printed_json():
        if isinstance(rec, dict) and "outcome" in rec:
            out.setdefault(plan_key(rec["plan"]), []).append(rec)
    ctx.require(out, "Recovery generation run emitted nothing (%s)" % shape)
    return out


def real_plan(plan_rec, jobs):
    """TLC plan record -> plan for vh.sut.recov.run_plan."""
    plan = {}
    for k, v in (plan_rec or {}).items():
        x, ph = k.split("|")
        plan[(jobs[x], PH[ph])] = [v[1], int(v[0])]
    return plan


def observed(obs, jobs):
    """Project a real observation on the model's vocabulary."""
    inv = {v: k for k, v in jobs.items()}
    att = {x: {p: 0 for p in PH} for x in jobs}
    for k, n in obs["attempts"].items():
        j, ph = k.split("|")
        if j in inv:
            att[inv[j]][HP[ph]] = n
    rows = {inv[j]: n for j, n in (obs.get("exec_rows") or {}).items() if j in inv}
    ver = {x: 1 for x in jobs}
    for j, v in (obs.get("versions") or {}).items():
        if j in inv:
            ver[inv[j]] = v
    hist = [inv.get(j, j) for j in obs["hist"]] if obs.get("hist") is not None else None
    return {"attempts": att, "rows": rows, "version": ver, "hist": hist,
            "outcome": {"return": "done", "raise": "raised"}.get(obs["outcome"], obs["outcome"])}


def match(recs, o, *, use_hist=True):
    """Pick the model record explaining the observation: same schedule if the run was serialized, else the
    (unique) prediction.  Returns (record or None, reason)."""
    if use_hist and o["hist"] is not None:
        c = [r for r in recs if r["hist"] == o["hist"]]
        if not c:
            return None, "schedule %s is not a behaviour of the model (model schedules: %s)" % (o["hist"], [r["hist"] for r in recs][:6])
        return c[0], ""
    sig = {json.dumps([r["outcome"], r["attempts"], r["version"]], sort_keys=True) for r in recs}
    if len(sig) != 1:
        return None, "model prediction is schedule dependent (%d variants) but the run was not serialized" % len(sig)
    return recs[0], ""


def diff(rec, o, *, versions=True):
    """Field-by-field comparison of a real run with the model's terminal state."""
    out = []
    if rec["outcome"] != o["outcome"]:
        out.append(("outcome", rec["outcome"], o["outcome"]))
    for x in sorted(rec["attempts"]):
        for ph in ("s", "t", "e"):
            if rec["attempts"][x][ph] != o["attempts"][x][ph]:
                out.append(("attempts:%s:%s" % (x, ph), rec["attempts"][x][ph], o["attempts"][x][ph]))
        if o["rows"].get(x, 0) != o["attempts"][x]["e"]:
            out.append(("execution_rows:%s" % x, o["attempts"][x]["e"], o["rows"].get(x, 0)))
    if versions and rec["outcome"] == "done":
        for x in sorted(rec["version"]):
            if rec["version"][x] != o["version"][x]:
                out.append(("version:%s" % x, rec["version"][x], o["version"][x]))
    return out


def run_real(ctx, shape, plan_rec, *, limit=30, dummy=False, serial_seed=None, delay_seed=None, timeout=90.0, tag=""):
    """One real execution of `plan_rec` on `shape`.  Returns (obs, exc): exc is a TimeoutError on watchdog."""
    from vh import aio
    from vh.sut import recov
    sh, jobs, placement, deployments = real_shape(shape)
    root = os.path.join(ctx.scratch("runs"), "r%d" % ctx.counters.get("real_runs", 0))
    ctx.count("real_runs")
    delays = aio.SeededDelays(delay_seed, K=3) if delay_seed is not None else None
    serial = random.Random(serial_seed) if serial_seed is not None else None
    try:
        obs, exc = aio.run(recov.run_plan(sh, real_plan(plan_rec, jobs), root, manager="dummy" if dummy else "rollback",
                                          max_retries=limit, delays=delays, placement=placement, deployments=deployments,
                                          serial=serial), timeout=timeout)
    finally:
        shutil.rmtree(root, ignore_errors=True)
    return obs, exc, jobs
