"""Glue between specs/Recovery (TLC) and vh.sut.recov (real engine) shared by the C16-C19 drivers."""
from __future__ import annotations

import json
import os
import random
import shutil

PH = {"s": "schedule", "t": "transfer", "e": "execute"}
HP = {v: k for k, v in PH.items()}


# ---------------------------------------------------------------------------------------------------
# shapes: model name -> real shape (vh.sut.recov) + job-name mapping + placement
# ---------------------------------------------------------------------------------------------------

# fork/join DAGs with one topological order (MC_Recovery.tla, DagSkip): the chain a -> b -> ... plus these skip edges
DAG_SKIP = {"dag4": {"c": "a", "d": "b"}, "dag5": {"c": "a", "e": "b"}, "dag6": {"c": "a", "f": "b"}}


def dag_parents(name: str):
    ids = "abcdef"[:int(name[3])]
    return {x: ([ids[i - 1]] if i else []) + ([DAG_SKIP[name][x]] if x in DAG_SKIP[name] else []) for i, x in enumerate(ids)}


def real_shape(name: str):
    from vh.sut import recov
    if name.startswith("dag"):
        par = dag_parents(name)
        return recov.dag(par, name=name), {x: "/%s/0" % x for x in par}, {}, ("L1",)
    if name.startswith("pipe"):
        n = int(name[4])
        sh = recov.pipeline(n)
        jobs = {x: "/%s/0" % x for x in "abcde"[:n]}
        placement, deployments = {}, ("L1",)
        if name.endswith("x"):
            placement = {x: ("L2" if (i + 1) % 2 == 0 else "L1") for i, x in enumerate("abcde"[:n])}
            deployments = ("L1", "L2")
        return sh, jobs, placement, deployments
    if name.startswith("scat"):
        n = int(name[4])
        pre = not name.endswith("n")
        sh = recov.scatter(n, pre=pre, post=True)
        jobs = {"c": "/c/0"}
        if pre:
            jobs["a"] = "/a/0"
        for i in range(n):
            jobs["b%d" % i] = "/b/0.%d" % i
        return sh, jobs, {}, ("L1",)
    raise ValueError(name)


def cfg_text(shape, *, limit=30, dummy=False, limits=None, managers=None, maxpairs=1, maxtimes=1, kinds=("soft", "fail_stop"), phases=("s", "t", "e"),
             gen=False, maxgen=12, invariants=True, view=False, liveness=False, maxlose=0, failjobs=()):
    s = ["CONSTANTS",
         "  Jobs <- MCJobs  Parents <- MCParents  Loc <- MCLoc  Sink <- MCSink",
         "  Limit = %d  Dummy = %s  MaxGen = %d" % (max(limits or [limit]), "TRUE" if dummy else "FALSE", maxgen),
         "  Shape = \"%s\"  MaxPairs = %d  MaxTimes = %d  MaxLose = %d  FailJobs = {%s}" % (
             shape, maxpairs, maxtimes, maxlose, ", ".join('"%s"' % x for x in failjobs)),
         "  Kinds = {%s}  PhasesUsed = {%s}" % (", ".join('"%s"' % k for k in kinds), ", ".join('"%s"' % p for p in phases)),
         "  Limits = {%s}  Managers = {%s}" % (", ".join(str(x) for x in (limits or [limit])),
                                               ", ".join("TRUE" if m else "FALSE" for m in (managers if managers is not None else [dummy])))]
    if liveness:
        s += ["SPECIFICATION %s" % ("GenSpec" if gen else "MCSpec"), "PROPERTY Terminates"]
    else:
        s += ["INIT MCInit", "NEXT %s" % ("GenNext" if gen else "Next")]
    if view and not gen and not liveness:
        s.append("VIEW View")
    if invariants:
        s += ["INVARIANT %s" % i for i in ("TypeOK", "VersionBound", "ExecBound", "DummyFirstFailure", "ExhaustedRaises", "OutputThere", "OnlyNeeded", "GenBound")]
    return "\n".join(s) + "\n"


def plan_key(plan_rec) -> str:
    """Canonical key of a plan as emitted by TLC ({"a|e": [2, "soft"]} or [] for the empty plan)."""
    if not plan_rec:
        return "{}"
    return json.dumps({k: [int(v[0]), v[1]] + ([sorted(v[2])] if len(v) > 2 else []) for k, v in sorted(plan_rec.items())}, sort_keys=True)


def predictions(ctx, shape, **kw):
    """Run the generation config: {plan_key: [terminal records]} (one record per observable schedule)."""
    timeout = kw.pop("timeout", 1500)
    text = cfg_text(shape, gen=True, invariants=False, **kw)
    r = ctx.tlc("Recovery", "MC_Recovery", "Gen.cfg", files={"Gen.cfg": text}, workers=1, count=False, timeout=timeout)
    ctx.require(r.ok, "Recovery generation run failed (%s): %s" % (shape, r.stdout[-1500:]))
    out = {}
    for rec in r.printed_json():
        if isinstance(rec, dict) and "outcome" in rec:
            out.setdefault(plan_key(rec["plan"]) + "@%s%s" % (rec["limit"], "D" if rec["dummy"] else ""), []).append(rec)
    ctx.require(out, "Recovery generation run emitted nothing (%s)" % shape)
    return out


def real_plan(plan_rec, jobs):
    """TLC plan record -> plan for vh.sut.recov.run_plan."""
    plan = {}
    for k, v in (plan_rec or {}).items():
        x, ph = k.split("|")
        plan[(jobs[x], PH[ph])] = [v[1], int(v[0])] + ([[jobs[y] for y in sorted(v[2])]] if len(v) > 2 else [])
    return plan


def observed(obs, jobs, nports=None):
    """Project a real observation on the model's vocabulary.  `nports`: model job -> number of inputs (> 1 only in the DAG
    shapes): a job with n inputs has n transfer steps; a run of the job starts all of them, the recovery of ONE failed
    transfer step re-runs only that one: started = n * rounds + failures.  The model's "t" phase is one attempt in both cases."""
    inv = {v: k for k, v in jobs.items()}
    att = {x: {p: 0 for p in PH} for x in jobs}
    for k, n in obs["attempts"].items():
        j, ph = k.split("|")
        if j in inv:
            att[inv[j]][HP[ph]] = n
    for x, n in (nports or {}).items():
        if n > 1:
            j = jobs[x]
            ft = (obs.get("injected") or {}).get("%s|transfer" % j, 0) + (obs.get("natural") or {}).get("%s|transfer" % j, 0)
            full, rest = divmod(att[x]["t"] - ft, n)
            att[x]["t"] = full + ft + rest      # rest != 0: not explained by whole rounds + one re-run per failure (shows as a mismatch)
    rows = {inv[j]: n for j, n in (obs.get("exec_rows") or {}).items() if j in inv}
    ver = {x: 1 for x in jobs}
    for j, v in (obs.get("versions") or {}).items():
        if j in inv:
            ver[inv[j]] = v
    hist = [inv.get(j, j) for j in obs["hist"]] if obs.get("hist") is not None else None
    return {"attempts": att, "rows": rows, "version": ver, "hist": hist,
            "outcome": {"return": "done", "raise": "raised"}.get(obs["outcome"], obs["outcome"])}


def match(recs, o, *, use_hist=True):
    """Pick the model record explaining the observation: same schedule if the run was serialized, else the
    (unique) prediction.  Returns (record or None, reason)."""
    if use_hist and o["hist"] is not None:
        c = [r for r in recs if r["hist"] == o["hist"]]
        if c:
            return c[0], ""
        if o["outcome"] == "raised":
            # a raising run: the engine goes on starting ready jobs for a moment after the failure that aborts it
            c = [r for r in recs if r["outcome"] == "raised" and o["hist"][:len(r["hist"])] == r["hist"]]
            if c:
                return max(c, key=lambda r: len(r["hist"])), "prefix"
        return None, "schedule %s is not a behaviour of the model (model schedules: %s)" % (o["hist"], [r["hist"] for r in recs][:4])
    sig = {json.dumps([r["outcome"], r["attempts"], r["version"]], sort_keys=True) for r in recs}
    if len(sig) != 1:
        return None, "model prediction is schedule dependent (%d variants) but the run was not serialized" % len(sig)
    return recs[0], ""


def diff(rec, o, *, versions=True):
    """Field-by-field comparison of a real run with the model's terminal state."""
    out = []
    if rec["outcome"] != o["outcome"]:
        out.append(("outcome", rec["outcome"], o["outcome"]))
    late = set(o["hist"][len(rec["hist"]):]) if (o.get("hist") is not None and rec["outcome"] == "raised") else set()
    for x in sorted(rec["attempts"]):
        for ph in ("s", "t", "e"):
            m, r = rec["attempts"][x][ph], o["attempts"][x][ph]
            if (r < m) if x in late else (r != m):
                out.append(("attempts:%s:%s" % (x, ph), m, r))
        if o["rows"].get(x, 0) != o["attempts"][x]["e"]:
            out.append(("execution_rows:%s" % x, o["attempts"][x]["e"], o["rows"].get(x, 0)))
    if versions and rec["outcome"] == "done":
        for x in sorted(rec["version"]):
            if rec["version"][x] != o["version"][x]:
                out.append(("version:%s" % x, rec["version"][x], o["version"][x]))
    return out


def run_real(ctx, shape, plan_rec, *, limit=30, dummy=False, serial_seed=None, delay_seed=None, timeout=600.0, stall=12.0, tag=""):
    """One real execution of `plan_rec` on `shape`.  Returns (obs, exc): exc is a TimeoutError on watchdog."""
    from vh import aio
    from vh.sut import recov
    sh, jobs, placement, deployments = real_shape(shape)
    root = os.path.join(ctx.scratch("runs"), "r%d" % ctx.counters.get("real_runs", 0))
    ctx.count("real_runs")
    delays = aio.SeededDelays(delay_seed, K=3) if delay_seed is not None else None
    serial = random.Random(serial_seed) if serial_seed is not None else None
    try:
        obs, exc = aio.run(recov.run_plan(sh, real_plan(plan_rec, jobs), root, manager="dummy" if dummy else "rollback",
                                          max_retries=limit, delays=delays, placement=placement, deployments=deployments,
                                          serial=serial, stall=stall), timeout=timeout)
    finally:
        shutil.rmtree(root, ignore_errors=True)
    return obs, exc, jobs


# ---------------------------------------------------------------------------------------------------
# one bound case = one plan executed on the real engine and compared with the model
# ---------------------------------------------------------------------------------------------------

def role(shape, x):
    if shape.startswith("pipe") or shape.startswith("dag"):
        n = int(shape[4] if shape.startswith("pipe") else shape[3])
        return "src" if x == "a" else ("sink" if x == "abcdef"[n - 1] else "mid")
    return {"a": "src", "c": "sink"}.get(x, "elem")


def plan_sig(shape, plan_rec, limit):
    """Class of a failure plan: per failing job its role and the (phase:kind:count-vs-limit) items.  Used in
    violation signatures, so that a known finding names a class of plans and nothing broader."""
    per = {}
    for k, v in sorted((plan_rec or {}).items()):
        x, ph = k.split("|")
        rel = "<" if int(v[0]) < limit else ">="
        per.setdefault(x, []).append("%s:%s%s" % (ph, v[1], rel))
    order = {"s": 0, "t": 1, "e": 2}
    items = sorted("%s(%s)" % (role(shape, x), "+".join(sorted(fs, key=lambda f: order[f[0]]))) for x, fs in per.items())
    fam = ("pipe" + ("x" if shape.endswith("x") else "")) if shape.startswith("pipe") else "dag" if shape.startswith("dag") else "scat"
    return "%s:%s" % (fam, ",".join(items) or "none")


def run_case(ctx, shape, recs, *, serial=True, seed=0, timeout=600.0):
    from .. import tlc as _t
    rec0 = recs[0]
    limit, dummy = int(rec0["limit"]), bool(rec0["dummy"])
    plan_rec = rec0["plan"] or {}
    stale = sorted({x for r in recs for x in (r.get("stale") or [])})
    # jobs of which a recovery met a lost instance AND a newer available one, with the order in which the walk meets them
    sup = sorted({"%s:%s" % (role(shape, x), c) for r in recs for x, c in (r.get("superseded") or [])})
    case = {"shape": shape, "plan": plan_rec, "limit": limit, "dummy": dummy, "serial": serial, "seed": seed,
            "sig": plan_sig(shape, plan_rec, limit) + (":stale-jobtoken(%s)" % ",".join(sorted({role(shape, x) for x in stale})) if stale else "")
                   + (":superseded(%s)" % ",".join(sup) if sup else ""),
            "stale": stale, "superseded": sup, "model_outcomes": sorted({r["outcome"] for r in recs})}
    obs, exc, jobs = run_real(ctx, shape, plan_rec, limit=limit, dummy=dummy, serial_seed=(seed if serial else None),
                              delay_seed=seed, timeout=timeout)
    if exc is None and obs["outcome"] == "hang":
        # a hang is reported only if it is reproducible: same plan, same seeds, longer idle window
        ctx.count("hangs_detected_first_attempt")
        obs2, exc2, jobs = run_real(ctx, shape, plan_rec, limit=limit, dummy=dummy, serial_seed=(seed if serial else None),
                                    delay_seed=seed, timeout=timeout, stall=20.0)
        if exc2 is None and obs2["outcome"] != "hang":
            ctx.count("extra:hang_not_reproduced(second attempt terminated)")
        obs, exc = obs2, exc2
    if isinstance(exc, TimeoutError):
        raise _t.MachineryError("real run exceeded the outer time limit without being detected as hung (%s %s)" % (shape, plan_rec))
    if exc is None and obs["outcome"] == "hang":
        case["hang"] = True
        case["events_tail"] = obs["events"][-8:]
        return case
    if exc is not None:
        raise _t.MachineryError("real run crashed in the harness: %r (%s %s)" % (exc, shape, plan_rec))
    if obs["harness_errors"]:
        raise _t.MachineryError("harness error inside a real run: %s" % obs["harness_errors"][:3])
    o = observed(obs, jobs, nports={x: len(v) for x, v in dag_parents(shape).items()} if shape.startswith("dag") else None)
    rec, why = match(recs, o)
    case.update({"hang": False, "o": o, "rec": rec, "why": why, "outputs": obs["outputs"], "left": obs["left"],
                 "natural": obs["natural"], "error": obs["error"], "injected": obs["injected"]})
    return case


def model_runs(ctx, specs, *, check=True, live=False):
    """specs: list of (shape, kwargs for cfg_text).  One TLC run per spec: checks the module's invariants on the
    complete state graph of all plans AND emits the terminal states.  Returns {shape: {key: [records]}}."""
    out = {}
    for shape, kw in specs:
        kw = dict(kw)
        timeout = kw.pop("timeout", 2400)
        lv = kw.pop("live", live)
        text = cfg_text(shape, gen=True, invariants=check, liveness=lv, **kw)
        r = ctx.tlc("Recovery", "MC_Recovery", "Gen_%s.cfg" % shape, files={"Gen_%s.cfg" % shape: text}, workers=1,
                    coverage=True, timeout=timeout)
        if lv:
            ctx.count("liveness_checked:%s" % shape)
        ctx.require(r.ok, "Recovery model violates %s on %s (specification error, not a verdict on the code):\n%s" % (
            r.violated, shape, r.stdout[-2500:]))
        ctx.require_coverage(r, ["RunPhase", "GenFinalize"])
        d = out.setdefault(shape, {})
        n = 0
        seen = set()
        for rec in r.printed_json():
            if isinstance(rec, dict) and "outcome" in rec:
                js = json.dumps(rec, sort_keys=True)
                if js in seen:
                    continue
                seen.add(js)
                d.setdefault(plan_key(rec["plan"]) + "@%s%s" % (rec["limit"], "D" if rec["dummy"] else ""), []).append(rec)
                n += 1
        ctx.require(n > 0, "Recovery generation run emitted nothing (%s)" % shape)
        ctx.count("model_plans:%s" % shape, len(d))
        ctx.count("model_terminal_states:%s" % shape, n)
    return out


def liveness(ctx, specs):
    for shape, kw in specs:
        kw = dict(kw)
        timeout = kw.pop("timeout", 2400)
        text = cfg_text(shape, liveness=True, invariants=False, **kw)
        r = ctx.tlc("Recovery", "MC_Recovery", "Live_%s.cfg" % shape, files={"Live_%s.cfg" % shape: text}, timeout=timeout)
        ctx.require(r.ok, "Recovery model: liveness `Terminates` fails on %s (specification error):\n%s" % (shape, r.stdout[-2500:]))
        ctx.count("liveness_states:%s" % shape, r.distinct)


def expected_outputs(ctx, shape, cache={}):
    """Outputs of the failure-free run of the same workflow on the real engine (content of files, never paths)."""
    if shape not in cache:
        from .. import tlc as _t
        obs, exc, jobs = run_real(ctx, shape, {}, limit=30, serial_seed=None, delay_seed=None, timeout=90)
        if exc is not None or obs["outcome"] != "return":
            raise _t.MachineryError("failure-free run of %s did not complete: %r %s" % (shape, exc, obs and obs.get("error")))
        cache[shape] = obs["outputs"]
    return cache[shape]


# ---------------------------------------------------------------------------------------------------
# plan selection shared by C16 and C18 (max_retries far above every count: the hypothesis of C16 holds by
# construction and the statement's retry limit never interferes - DESIGN.md, interpretation note)
# ---------------------------------------------------------------------------------------------------
BIG_LIMIT = 30


def c16_specs(ctx):
    if ctx.quick:
        return [("pipe3", dict(limit=BIG_LIMIT, maxpairs=2, maxtimes=2), 44),
                ("pipe4x", dict(limit=BIG_LIMIT, maxpairs=1, maxtimes=2), 22),
                ("scat2", dict(limit=BIG_LIMIT, maxpairs=2, maxtimes=1), 36),
                ("scat3", dict(limit=BIG_LIMIT, maxpairs=1, maxtimes=2), 26)]
    return [("pipe1", dict(limit=BIG_LIMIT, maxpairs=3, maxtimes=3), 120),
            ("pipe2", dict(limit=BIG_LIMIT, maxpairs=3, maxtimes=3), 260),
            ("pipe3", dict(limit=BIG_LIMIT, maxpairs=2, maxtimes=2), 613),
            ("pipe4x", dict(limit=BIG_LIMIT, maxpairs=2, maxtimes=2), 320),
            ("pipe5", dict(limit=BIG_LIMIT, maxpairs=2, maxtimes=1), 260),
            ("scat1", dict(limit=BIG_LIMIT, maxpairs=2, maxtimes=2), 150),
            ("scat2", dict(limit=BIG_LIMIT, maxpairs=2, maxtimes=2), 420),
            ("scat2n", dict(limit=BIG_LIMIT, maxpairs=2, maxtimes=1), 120),
            ("scat3", dict(limit=BIG_LIMIT, maxpairs=2, maxtimes=1), 330),
            ("scat4", dict(limit=BIG_LIMIT, maxpairs=1, maxtimes=2), 73)]


def c16_cases(ctx, preds, specs):
    """(shape, key, serial): every soft-only plan of a scatter shape runs FREE (real concurrency, seeded completion
    delays), every plan with a fail-stop on a scatter shape runs under the sequential discipline; pipelines run free."""
    rng = ctx.rng("plans")
    out = []
    for shape, _kw, n in specs:
        keys = sorted(preds[shape])
        rng.shuffle(keys)
        if shape.endswith("x"):
            # two locations: the plans in which a consumer that staged a REPLICA of its input on its own location fails
            # fail-stop in the execute phase (some but not all copies of the producer's output are lost) always run
            def partial_loss(k):
                plan = preds[shape][k][0]["plan"] or {}
                return any(kk.endswith("|e") and v[1] == "fail_stop" and not kk.startswith("a|") for kk, v in plan.items())
            keys.sort(key=lambda k: not partial_loss(k))
            ctx.count("plans_losing_some_but_not_all_replicas:%s" % shape, sum(partial_loss(k) for k in keys[:n]))
        keys = sorted(keys[:n])
        for k in keys:
            plan = preds[shape][k][0]["plan"] or {}
            failstop = any(v[1] == "fail_stop" for v in plan.values())
            out.append((shape, k, shape.startswith("scat") and failstop))
    return out


# ---------------------------------------------------------------------------------------------------
# fork/join DAGs with PARTIAL data loss (C18): two fail-stop failures in sequence, each losing the outputs of a chosen
# set of provenance ancestors of the failing job (kind "fail_sel") - the histories in which a recovery meets an old, lost
# instance of a job AND a newer, available one on the same port
# ---------------------------------------------------------------------------------------------------

def dag_specs(ctx):
    """(shape, cfg kwargs, picks): picks = how many plans of each class run on the real engine: `late`/`early` = a lost and an
    available instance of one job are met (in the one order the implementation handles / any other order), `rest` = no such
    pair and no stale JobToken, `stale` = the listed stale-JobToken class."""
    kw = dict(limit=BIG_LIMIT, maxpairs=2, maxtimes=1, kinds=("fail_sel",), phases=("e",))
    if ctx.quick:
        return [("dag4", dict(kw, maxlose=3), dict(late=4, early=1, rest=9, stale=1)),
                ("dag6", dict(kw, maxlose=4, failjobs=("c", "d", "f")), dict(late=8, early=1, rest=13, stale=1))]
    return [("dag4", dict(kw, maxlose=3, kinds=("fail_sel", "soft")), dict(late=50, early=10, rest=80, stale=10)),
            ("dag5", dict(kw, maxlose=4), dict(late=50, early=10, rest=80, stale=10)),
            ("dag6", dict(kw, maxlose=5), dict(late=50, early=20, rest=200, stale=20))]


def dag_class(recs):
    if any(r.get("natural2") for r in recs):
        return "natural2"       # two transfer steps of one job fail at once and recover concurrently: not this sequential model
    sup = {c for r in recs for _, c in (r.get("superseded") or [])}
    if sup:
        return "early" if "early" in sup else "late"
    return "stale" if any(r.get("stale") for r in recs) else "rest"


def dag_cases(ctx, preds, specs):
    """(shape, key, class) of the plans to run: every class sampled with the seed, `late` first (they always run)."""
    rng = ctx.rng("dag-plans")
    out = []
    for shape, _kw, picks in specs:
        by = {}
        for k in sorted(preds[shape]):
            by.setdefault(dag_class(preds[shape][k]), []).append(k)
        for c, ks in sorted(by.items()):
            ctx.count("model_plans:%s:%s" % (shape, c), len(ks))
        for c in ("late", "early", "rest", "stale"):
            ks = list(by.get(c, []))
            rng.shuffle(ks)
            out += [(shape, k, c) for k in sorted(ks[:picks.get(c, 0)])]
    return out


# ---------------------------------------------------------------------------------------------------
# overlapping recoveries inside the ROLLBACK window (C18): module RecoveryConc with RollbackWindow <- WindowOn.  Two or three
# consumers of one producer fail (the first failure destroys the producer's output); a recovery synchronizes while the producer,
# rolled back by another recovery, has not been scheduled again yet (status ROLLBACK): it must attach, not roll back again
# ---------------------------------------------------------------------------------------------------

def window_behaviours(ctx, n=2, ph="ee", w=1, simul=False):
    cfg = ('CONSTANTS Cons <- MCCons Prod <- MCProd Needs <- MCNeeds Phase <- MCPhase Wiper <- MCWiper LockOrd <- MCLockOrd '
           'RollbackWindow <- WindowOn Shape = "fan" N = %d P1 = "%s" P2 = "%s" P3 = "%s" W = %d Simul = %s\n' % (
               n, (ph + "e")[0], (ph + "e")[1], (ph + "ee")[2], w, "TRUE" if simul else "FALSE"))
    inv = "".join("INVARIANT %s\n" % i for i in ("TypeOK", "LockSafe", "SharedWhenAttached", "OneOwner", "AttachToOwner"))
    r = ctx.tlc("Recovery", "MC_RecoveryConc", "W.cfg", files={"W.cfg": cfg + "INIT Init\nNEXT Next\nVIEW View\n" + inv}, deadlock=True,
                coverage=True, timeout=1800)
    ctx.require(r.ok, "RecoveryConc with the ROLLBACK window: as-is invariants fail (%s %s): specification error\n%s" % (r.error, r.violated, r.stdout[-1500:]))
    ctx.require_coverage(r, ["FailBuild", "Sync", "SchedA", "StartA", "FinishA"])
    g = ctx.tlc("Recovery", "MC_RecoveryConc", "WG.cfg", files={"WG.cfg": cfg + "INIT GenInit\nNEXT GenNext\n"}, workers=1, timeout=1800)
    ctx.require(g.ok, "RecoveryConc (ROLLBACK window) generation failed: %s" % g.stdout[-1500:])
    out, seen = [], set()
    for b in g.printed_json():
        if isinstance(b, dict) and "trace" in b:
            b["trace"] = [tuple(e) for e in b["trace"] if e[0] != "end"]
            b["ph"] = ph[:n]
            b["needs"] = {c: sorted(ps) for c, ps in b["needs"].items()}
            k = json.dumps([b["trace"], b["dec"]], sort_keys=True)
            if k not in seen:
                seen.add(k)
                out.append(b)
    ctx.require(out, "RecoveryConc (ROLLBACK window) emitted no behaviour")
    return out


def window_syncs(b):
    """For every consumer the status the producers it needs had when it synchronized (replayed from the trace)."""
    status, out = {}, {}
    for e in b["trace"]:
        if e[0] == "sync":
            out[e[1]] = {p: status.get(p, "completed") for p in b["needs"][e[1]]}
            for p in b["needs"][e[1]]:
                if b["dec"][e[1]][p] == "rollback":
                    status[p] = "rollback"
        elif e[0] in ("schedA", "startA", "finishA"):
            status[e[2]] = {"schedA": "fireable", "startA": "running", "finishA": "completed"}[e[0]]
    return out


def window_script(b):
    """Gate script that imposes the behaviour: failing consumers are held before their failure, every recovery between BuildGraph and
    AcquireLocks, every (re-)scheduled job before Scheduler.schedule (ROLLBACK), before its stage-in (FIREABLE) and before its
    command completes (RUNNING)."""
    cons = sorted(b["needs"])
    prods = sorted({p for ps in b["needs"].values() for p in ps})
    job = {x: "/%s/0" % x for x in cons + prods}
    P, S, X = (lambda j: "presched:" + j), (lambda j: "sched:" + j), (lambda j: "exec:" + j)
    script = [g for p in prods for g in (P(job[p]), S(job[p]), X(job[p]))] + [g for c in cons for g in (P(job[c]), S(job[c]))]
    for e in b["trace"]:
        if e[0] == "fail":
            script.append(X(job[e[1]]))
        elif e[0] == "sync":
            script.append("built:" + job[e[1]])
            script += ["park:" + P(job[p]) for p in sorted(b["needs"][e[1]]) if b["dec"][e[1]][p] == "rollback"]
        elif e[0] == "schedA":
            script += [P(job[e[2]]), "park:" + S(job[e[2]])]
        elif e[0] == "startA":
            script.append(S(job[e[2]]))
        elif e[0] == "finishA":
            script.append(X(job[e[2]]))
    plan = {(job[c], "execute"): ["fail_stop" if c == b["wiper"] else "soft", 1] for c in cons}
    return script, plan, job, cons, prods


def run_window(ctx, b, stall=6.0):
    """One gated real run along behaviour b.  Returns the observation projected on the model's vocabulary."""
    import asyncio
    from vh import aio
    from vh.sut import recov
    from .. import tlc as _t
    script, plan, job, cons, prods = window_script(b)
    root = os.path.join(ctx.scratch("runs"), "w%d" % ctx.counters.get("real_runs", 0))
    ctx.count("real_runs")
    gates = aio.Gates()

    async def driver(st, task):
        st.drv = asyncio.ensure_future(recov.script_driver(st, task, script, step_timeout=20.0))
    try:
        obs, exc = aio.run(recov.run_plan(recov.fanjoin(b["n"]), plan, root, gates=gates, gate_jobs=set(job.values()), driver=driver,
                                          gate_points=("exec", "sched", "presched"),
                                          hooks=recov.conc_hooks(park_built={job[c] for c in cons}), stall=stall, max_retries=12), timeout=600)
    finally:
        shutil.rmtree(root, ignore_errors=True)
    if exc is not None:
        raise _t.MachineryError("gated run crashed in the harness: %r" % exc)
    if obs["harness_errors"]:
        raise _t.MachineryError("harness error inside a gated run: %s" % obs["harness_errors"][:3])
    inv = {v: k for k, v in job.items()}
    dec, sts = {}, {}
    for e in obs["events"]:
        c = inv.get(e.get("job"))
        if e["ev"] == "sync" and c in cons and c not in dec:
            dec[c] = {p: {"attach": "attach", "rollback": "rollback", None: "alone"}[e["decisions"].get(job[p])] for p in b["needs"][c]}
        if e["ev"] == "built" and c in cons and c not in sts:
            sts[c] = {inv.get(j, j): s for j, s in e["statuses"].items()}
    return {"outcome": obs["outcome"], "error": obs["error"], "script": script, "script_failed": obs.get("script_failed"),
            "decisions": dec, "statuses_at_build": sts, "outputs": obs["outputs"],
            "execs": {p: obs["attempts"].get("%s|execute" % job[p], 0) for p in prods},
            "versions": {inv.get(j, j): v for j, v in (obs.get("versions") or {}).items()},
            "events": [{k: v for k, v in e.items() if k != "n"} for e in obs["events"]
                       if e["ev"] in ("fail", "natfail", "built", "sync", "sync_end", "rec_begin", "rec_end", "open", "driver_stop")][:60]}


# ---------------------------------------------------------------------------------------------------
# pipeline -> loop shapes (C16): bound to the code by the outputs-equal-failure-free oracle only
# ---------------------------------------------------------------------------------------------------

def loop_plan_sig(plan):
    per = {}
    for k, v in sorted(plan.items()):
        job, ph = k.split("|")
        name, tag = job.strip("/").split("/")
        role = name.rstrip("0123456789") if name.startswith("pre") else "%s@%s" % (name, "0" if tag.endswith(".0") else ">0")
        per.setdefault((role, job), []).append("%s:%s<" % (ph[0], v[0]))
    order = {"s": 0, "t": 1, "e": 2}
    items = sorted("%s(%s)" % (r, "+".join(sorted(fs, key=lambda f: order[f[0]]))) for (r, _), fs in per.items())
    return "loop:" + (",".join(items) or "none")


def run_loop(ctx, n, pre, plan, seed, *, stall=12.0, timeout=600.0):
    """plan: {"<job name>|<phase>": [kind, times]}.  Free running under seeded completion delays."""
    from vh import aio
    from vh.sut import recov
    from .. import tlc as _t
    root = os.path.join(ctx.scratch("runs"), "l%d" % ctx.counters.get("real_runs", 0))
    ctx.count("real_runs")
    rp = {(k.split("|")[0], k.split("|")[1]): [v[0], int(v[1])] for k, v in plan.items()}
    try:
        obs, exc = aio.run(recov.run_plan(recov.loop(n, pre), rp, root, delays=aio.SeededDelays(seed, K=3), stall=stall,
                                          max_retries=BIG_LIMIT), timeout=timeout)
    finally:
        shutil.rmtree(root, ignore_errors=True)
    if exc is not None:
        raise _t.MachineryError("loop run crashed in the harness: %r (%s)" % (exc, plan))
    if obs["harness_errors"]:
        raise _t.MachineryError("harness error inside a loop run: %s" % obs["harness_errors"][:3])
    return obs


def loop_case(ctx, n, pre, plan, seed):
    obs = run_loop(ctx, n, pre, plan, seed)
    if obs["outcome"] == "hang":
        ctx.count("hangs_detected_first_attempt")
        obs = run_loop(ctx, n, pre, plan, seed, stall=20.0)
        if obs["outcome"] != "hang":
            ctx.count("extra:hang_not_reproduced(second attempt terminated)")
    return obs


def loop_expected(ctx, n, pre, cache={}):
    if (n, pre) not in cache:
        from .. import tlc as _t
        obs = run_loop(ctx, n, pre, {}, 0)
        if obs["outcome"] != "return":
            raise _t.MachineryError("failure-free loop run did not complete: %s" % obs.get("error"))
        exp = "x0"
        for i in range(pre):
            exp = "pre%d(%s)" % (i + 1, exp)
        for _ in range(n):
            exp = "body(%s)" % exp
        if obs["outputs"] != {"loop": [["0", exp]], "loop:terminated": 1}:
            raise _t.MachineryError("failure-free loop run has unexpected outputs: %s" % obs["outputs"])
        cache[(n, pre)] = obs["outputs"]
    return cache[(n, pre)]


def loop_plans(ctx):
    """(n, pre, plan): fail-stop of a body job at iteration 0 and >0 in every phase, of the counter job, of the upstream job;
    soft controls."""
    P = {"s": "schedule", "t": "transfer", "e": "execute"}
    out = []
    if ctx.quick:
        for it in (0, 1, 2):
            for ph in "ste":
                out.append((3, 1, {"/body/0.%d|%s" % (it, P[ph]): ["fail_stop", 1]}))
        out += [(3, 1, {"/body/0.1|%s" % P[ph]: ["soft", 1]}) for ph in "ste"]
        out += [(3, 1, {"/inc/0.0|execute": ["fail_stop", 1]}), (3, 1, {"/inc/0.1|schedule": ["fail_stop", 1]}),
                (3, 1, {"/pre1/0|execute": ["fail_stop", 1]}), (2, 2, {"/body/0.1|execute": ["fail_stop", 2]})]
        return out
    rng = ctx.rng("loop-plans")
    for n, pre in ((3, 1), (2, 2)):
        jobs = ["/pre%d/0" % (i + 1) for i in range(pre)] + ["/%s/0.%d" % (x, i) for x in ("body", "inc") for i in range(n)]
        # not a fail-stop of the counter job of the LAST iteration: it runs beside the body job that writes the workflow
        # output; a wipe after that file was written destroys an output nobody consumes any more - no recovery is due
        # (observed: {inc@last schedule soft, inc@last execute fail-stop} returns with the output file missing)
        singles = [(j, ph, kind, t) for j in jobs for ph in "ste" for kind in ("soft", "fail_stop") for t in (1, 2)
                   if not (kind == "fail_stop" and j == "/inc/0.%d" % (n - 1))]
        out += [(n, pre, {"%s|%s" % (j, P[ph]): [kind, t]}) for j, ph, kind, t in singles]
        pairs = [(a, b2) for a in singles for b2 in singles if (a[0], a[1]) < (b2[0], b2[1]) and a[3] == 1 and b2[3] == 1]
        rng.shuffle(pairs)
        for a, b2 in pairs[:80]:
            out.append((n, pre, {"%s|%s" % (a[0], P[a[1]]): [a[2], 1], "%s|%s" % (b2[0], P[b2[1]]): [b2[2], 1]}))
    return out
