"""Real BindingConfig / MatchingBindingFilter / Target / DefaultScheduler objects for a TargetChoice configuration (C13).

A configuration (see specs/TargetChoice/TargetChoice.tla) is
  {"targets": [{"dep","svc"}], "filters": [[{"dep","svc","preds":[[port,match]]}]],
   "jobs": [{"inputs": [[port,value]], "req": n}], "hosts": [{"dep","svc","cores"}]}
"svc" = "none" stands for no service.

Trusted base: the fake deployment manager / connector below (a connector exposes, per service, one
AvailableLocation whose hardware (cores) or slots is the configured capacity), the hardware
requirement (eval -> Hardware(cores=req)).  Everything else is the code under test.
"""
from __future__ import annotations

import asyncio
import itertools

_uniq = itertools.count()


class FakeConnector:
    """What DefaultScheduler needs from a connector: a name and the available locations of a service."""

    def __init__(self, deployment_name, hosts, mode, yields):
        self.deployment_name = deployment_name
        self._hosts = hosts          # svc ("none" | name) -> cores
        self._mode = mode            # "hardware" | "slots"
        self._yields = yields        # callable -> number of extra loop iterations before the answer
        self.calls = []

    async def get_available_locations(self, service=None):
        from streamflow.core.scheduling import AvailableLocation, Hardware
        self.calls.append(service)
        for _ in range(self._yields()):
            await asyncio.sleep(0)          # connector I/O: a genuine suspension point
        svc = "none" if service is None else service
        if svc not in self._hosts:
            return {}
        name = "%s-%s" % (self.deployment_name, svc)
        cores = self._hosts[svc]
        if self._mode == "slots":
            loc = AvailableLocation(name=name, deployment=self.deployment_name, hostname=name, service=service,
                                    slots=cores)
        else:
            loc = AvailableLocation(name=name, deployment=self.deployment_name, hostname=name, service=service,
                                    hardware=Hardware(cores=float(cores), memory=1024.0))
        return {name: loc}


class FakeDeploymentManager:
    def __init__(self, connectors):
        self.connectors = connectors

    def get_connector(self, deployment_name):
        return self.connectors.get(deployment_name)


class FakeContext:
    def __init__(self, connectors):
        self.deployment_manager = FakeDeploymentManager(connectors)
        self.scheduler = None


def make_requirement(req):
    from streamflow.core.scheduling import Hardware, HardwareRequirement

    class CoresRequirement(HardwareRequirement):
        @classmethod
        async def _load(cls, row, loading_context):
            raise NotImplementedError

        async def _save_additional_params(self, database):
            return {}

        def eval(self, job):
            return Hardware(cores=float(req))
    return CoresRequirement()


def rule_config(rule):
    tgt = rule["dep"] if rule["svc"] == "none" else {"deployment": rule["dep"], "service": rule["svc"]}
    return {"target": tgt, "job": [{"port": p, "match": m} for p, m in rule["preds"]]}


def input_value(v, ints):
    """The alphabet value "1" is handed over as the integer 1 when `ints` (str(value) must be compared)."""
    return int(v) if ints and v.isdigit() else v


class World:
    """Fresh real objects for one configuration."""

    def __init__(self, cfg, mode="hardware", ints=False, yields=lambda: 0):
        from streamflow.core.config import BindingConfig
        from streamflow.core.deployment import DeploymentConfig, FilterConfig, Target
        from streamflow.core.workflow import Job, Token
        from streamflow.scheduling.scheduler import DefaultScheduler
        self.cfg = cfg
        u = next(_uniq)
        deps = sorted({t["dep"] for t in cfg["targets"]} | {h["dep"] for h in cfg["hosts"]})
        # one DeploymentConfig object per target (as get_binding_config builds them)
        self.targets = [Target(deployment=DeploymentConfig(name=t["dep"], type="fake", config={}),
                               service=None if t["svc"] == "none" else t["svc"], workdir="/tmp/hw-c13")
                        for t in cfg["targets"]]
        self.index = {id(t): i + 1 for i, t in enumerate(self.targets)}
        self.filter_configs = [FilterConfig(name="f%d_%d" % (i, u), type="matching",
                                            config={"filters": [rule_config(r) for r in f]})
                               for i, f in enumerate(cfg["filters"])]
        self.binding = BindingConfig(targets=list(self.targets), filters=list(self.filter_configs))
        self.jobs = [Job(name="/step/%d" % i, workflow_id=0,
                         inputs={p: Token(input_value(v, ints)) for p, v in j["inputs"]},
                         input_directory=None, output_directory=None, tmp_directory=None)
                     for i, j in enumerate(cfg["jobs"])]
        self.requirements = [make_requirement(j["req"]) for j in cfg["jobs"]]
        hosts = {}
        for h in cfg["hosts"]:
            hosts.setdefault(h["dep"], {})[h["svc"]] = h["cores"]
        self.connectors = {d: FakeConnector(d, hosts.get(d, {}), mode, yields) for d in deps}
        self.context = FakeContext(self.connectors)
        self.scheduler = DefaultScheduler(self.context)
        self.context.scheduler = self.scheduler

    def positions(self, targets):
        """Targets -> their positions in the declared list (0 for an object that is not one of them)."""
        return [self.index.get(id(t), 0) for t in targets]

    def new_filters(self):
        from streamflow.deployment.filter import binding_filter_classes
        return [binding_filter_classes[fc.type](fc.name, **fc.config) for fc in self.filter_configs]
