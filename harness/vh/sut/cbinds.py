"""World of the container-bind checks (X03): a scratch directory with a fake docker daemon/CLI
(`cbinds_docker.py`), host directories, and the real `DockerConnector` wrapping the real `LocalConnector`.

Layout of a world W (all under the check's scratch):
  W/bin/docker        the CLI found first on PATH (sh script; `exec` is served by `nsenter`, the rest by python)
  W/daemon.json       images, container template (uid, cgroup files, meminfo, df sizes), injected failures
  W/log               one record per CLI invocation (argv) + outcome records of python-served commands
  W/h/...             host-only paths      (abstract path <<"h", ...>>)
  W/s/...             paths that exist under the same name on both sides (identity binds)  (<<"s", ...>>)
  W/c/...             container-only paths (abstract path <<"c", ...>>): the real files live in
                      W/roots/<id>/W/c/... ; on the host W/c is an empty decoy directory, so that a connector which
                      wrongly uses a container path on the host side writes into scratch (and is seen).
An abstract path is a list of components; the first one names the region.
"""
from __future__ import annotations

import asyncio
import json
import os
import posixpath
import shutil
import signal
import subprocess
import sys
import time

from . import cbinds_docker as FD

DOCKER_SH = r"""#!/bin/sh
# fake docker CLI of the verification harness (X03); python is only started for run/pull/version
H="$FAKE_DOCKER_HOME"
{ printf '%s\037' "$@"; printf '\036\n'; } >> "$H/log"
result() { printf '#result\037%s\037%s\037%s\037\036\n' "$1" "$2" "$3" >> "$H/log"; }
injected() { if [ -f "$H/fail/$1" ]; then read rc < "$H/fail/$1"; else rc=0; fi; }
for last in "$@"; do :; done
case "$1" in
exec)
  shift
  while :; do
    case "$1" in
      -i|--interactive|-t|--tty|-it|-d|--detach|--privileged) shift ;;
      -e|--env|-u|--user|-w|--workdir|--env-file|--detach-keys) shift; shift ;;
      -*) shift ;;
      *) break ;;
    esac
  done
  cid="$1"; shift
  d="$H/state/$cid"
  if [ -z "$cid" ] || [ ! -f "$d/running" ]; then
    echo "Error response from daemon: No such container: $cid" >&2
    exit 1
  fi
  read pid < "$d/pid"
  exec /usr/bin/nsenter -t "$pid" -m -r -w /usr/bin/env -i PATH=/fakebin:/usr/local/bin:/usr/bin:/bin HOME=/ "$@"
  ;;
inspect)
  injected inspect
  if [ "$rc" != 0 ]; then result inspect "$rc" "$last"; echo "Error response from daemon: injected failure" >&2; exit "$rc"; fi
  if [ -f "$H/state/$last/inspect.json" ]; then
    result inspect 0 "$last"; exec /usr/bin/cat "$H/state/$last/inspect.json"
  fi
  result inspect 1 "$last"; echo "[]"; echo "Error: No such object: $last" >&2; exit 1
  ;;
stop)
  injected stop
  if [ "$rc" != 0 ]; then result stop "$rc" "$last"; echo "Error response from daemon: injected failure" >&2; exit "$rc"; fi
  d="$H/state/$last"
  if [ -f "$d/running" ]; then
    read pid < "$d/pid"
    rm -f "$d/running"
    kill -9 "$pid" 2>/dev/null
    if [ -f "$d/autoremove" ]; then rm -f "$d/inspect.json"; fi
    result stop 0 "$last"; echo "$last"; exit 0
  fi
  result stop 1 "$last"; echo "Error response from daemon: No such container: $last" >&2; exit 1
  ;;
image)
  if [ "$2" = inspect ]; then
    if /usr/bin/grep -qxF -- "$last" "$H/images" 2>/dev/null; then
      result image_inspect 0 "$last"; echo "[{\"RepoTags\": [\"$last\"]}]"; exit 0
    fi
    result image_inspect 1 "$last"; echo "[]"; echo "Error response from daemon: No such image: $last" >&2; exit 1
  fi
  ;;
esac
exec '@PYTHON@' -S -E '@SCRIPT@' "$@"
"""


class World:
    def __init__(self, base: str, name: str = "w"):
        self.W = os.path.join(os.path.realpath(base), name)
        for d in ("bin", "h", "s", "c", "state", "roots", "vol", "tmpfs"):
            os.makedirs(os.path.join(self.W, d), exist_ok=True)
        script = os.path.join(self.W, "bin", "docker")
        with open(script, "w") as f:
            f.write(DOCKER_SH.replace("@PYTHON@", sys.executable).replace("@SCRIPT@", os.path.abspath(FD.__file__)))
        os.chmod(script, 0o755)
        open(os.path.join(self.W, "log"), "w").close()
        os.makedirs(os.path.join(self.W, "fail"), exist_ok=True)
        with open(os.path.join(self.W, "images"), "w") as f:
            f.write("img:1\n")
        self.daemon = {"pullable": ["img:2"], "watch_pid": os.getpid(), "counter": 0,
                       "container": {"uid": os.getuid(), "ip": "172.17.0.2", "meminfo_kb": 4194304,
                                     "cgroup": {"version": 2, "quota": "max", "period": 100000, "cpuset": "0-3",
                                                "memory": "max"},
                                     "avail_kb": {"default": 1048576}},
                       }
        self.save()
        self._log_pos = 0
        self._saved_env = None
        self._observers = {}
        self.events = []

    # ---- environment ------------------------------------------------------------------------
    def save(self):
        FD.save_daemon(self.W, self.daemon)

    def reload(self):
        self.daemon = FD.load_daemon(self.W)
        return self.daemon

    def fail(self, cmd: str, rc: int):
        """Inject a failure: the next `docker <cmd>` calls exit with rc (0 removes the injection)."""
        p = os.path.join(self.W, "fail", cmd)
        if rc:
            with open(p, "w") as f:
                f.write("%d\n" % rc)
        elif os.path.exists(p):
            os.unlink(p)

    def images(self):
        return FD.images(self.W)

    def install(self):
        if self._saved_env is None:
            self._saved_env = (os.environ.get("PATH"), os.environ.get("FAKE_DOCKER_HOME"))
        os.environ["PATH"] = os.path.join(self.W, "bin") + os.pathsep + (self._saved_env[0] or "/usr/bin:/bin")
        os.environ["FAKE_DOCKER_HOME"] = self.W

    def uninstall(self):
        if self._saved_env is not None:
            for k, v in zip(("PATH", "FAKE_DOCKER_HOME"), self._saved_env):
                if v is None:
                    os.environ.pop(k, None)
                else:
                    os.environ[k] = v
            self._saved_env = None

    def close(self):
        for o in list(self._observers.values()):
            o.close()
        self._observers.clear()
        d = os.path.join(self.W, "state")
        for cid in os.listdir(d):
            try:
                with open(os.path.join(d, cid, "pid")) as f:
                    os.kill(int(f.read().strip()), signal.SIGKILL)
            except (OSError, ValueError):
                pass
        self.uninstall()

    # ---- paths ------------------------------------------------------------------------------
    def real(self, p) -> str:
        return self.W + "".join("/" + c for c in p)

    def abstract(self, s: str):
        """Real path string -> abstract components, or None when outside the world."""
        s = posixpath.normpath(s)
        if s == self.W:
            return []
        if not s.startswith(self.W + "/"):
            return None
        return s[len(self.W) + 1:].split("/")

    # ---- docker log -------------------------------------------------------------------------
    def drain(self):
        """New CLI records since the last call: [{"argv": [...]}, {"result": [...]}, ...]."""
        with open(os.path.join(self.W, "log"), "rb") as f:
            f.seek(self._log_pos)
            data = f.read()
        end = data.rfind(b"\x1e\n")
        if end < 0:
            return []
        self._log_pos += end + 2
        out = []
        for rec in data[:end].split(b"\x1e\n"):
            fields = rec.decode("utf-8", "replace").split("\x1f")
            if fields and fields[-1] == "":
                fields = fields[:-1]
            if fields[:1] == ["#result"]:
                out.append({"result": fields[1:]})
            else:
                out.append({"argv": fields})
        return out

    def mark(self, **ev):
        """Append a harness event after draining the CLI log (keeps the global order)."""
        for r in self.drain():
            self.events.append(dict(r, e="cli"))
        if ev:
            self.events.append(ev)

    # ---- containers -------------------------------------------------------------------------
    def create_external(self, mount_specs, conf=None, image="img:1"):
        """A container that exists before the connector is deployed (`external: true`)."""
        self.reload()
        cid = FD.create_container(self.W, image, mount_specs, self.daemon, conf)
        self.reload()
        return cid

    def info(self, cid):
        return FD.find_container(self.W, cid)

    def running(self):
        d = os.path.join(self.W, "state")
        out = set()
        for cid in os.listdir(d):
            if os.path.exists(os.path.join(d, cid, "running")):
                try:
                    with open(os.path.join(d, cid, "pid")) as f:
                        os.kill(int(f.read().strip()), 0)
                    out.add(cid)
                except (OSError, ValueError):
                    pass
        return out

    def root(self, cid):
        return os.path.join(self.W, "roots", cid)

    def observer(self, cid):
        o = self._observers.get(cid)
        if o is None or o.p.poll() is not None:
            info = self.info(cid)
            o = Observer(int(info["pid"]))
            self._observers[cid] = o
        return o

    # ---- file trees -------------------------------------------------------------------------
    def write_host(self, p, content):
        path = self.real(p)
        if content == "DIR":
            os.makedirs(path, exist_ok=True)
        else:
            os.makedirs(os.path.dirname(path), exist_ok=True)
            with open(path, "w") as f:
                f.write(content + "\n")

    def write_ctr(self, cid, p, content):
        """Through the container's own view (so that files under mounts land where the mount points)."""
        path = self.real(p)
        if content == "DIR":
            self.observer(cid).run("mkdir -p '%s'" % path)
        else:
            self.observer(cid).run("mkdir -p '%s' && printf '%%s\\n' '%s' > '%s'" % (posixpath.dirname(path), content, path))

    def host_view(self):
        """{abstract path tuple: content | "DIR" | "BROKEN"} of W/h, W/s and the decoy W/c, following links."""
        out = {}
        import stat as S

        def walk(path, chain):
            try:
                st = os.stat(path)
            except OSError:
                out[tuple(self.abstract(path))] = "BROKEN"
                return
            if S.S_ISDIR(st.st_mode):
                key = (st.st_dev, st.st_ino)
                out[tuple(self.abstract(path))] = "DIR"
                if key in chain or len(chain) > 40:      # a link back to an ancestor
                    return
                for n in sorted(os.listdir(path)):
                    walk(os.path.join(path, n), chain | {key})
            elif S.S_ISREG(st.st_mode):
                with open(path, "rb") as f:
                    out[tuple(self.abstract(path))] = f.read(200).decode("utf-8", "replace").strip()
            else:
                out[tuple(self.abstract(path))] = "SPECIAL"
        for region in ("h", "s", "c"):
            walk(os.path.join(self.W, region), frozenset())
        return out

    def ctr_view(self, cid):
        roots = " ".join("'%s/%s'" % (self.W, r) for r in ("c", "s", "h"))
        txt = self.observer(cid).run(
            "find -L %s -printf '%%y\\t%%p\\n' 2>/dev/null; echo ---; "
            "find -L %s -type f -exec grep -H '' {} + 2>/dev/null" % (roots, roots))
        head, _, tail = txt.partition("---\n")
        out = {}
        for line in head.splitlines():
            y, _, p = line.partition("\t")
            a = self.abstract(p)
            if a is None:
                continue
            out[tuple(a)] = "DIR" if y == "d" else "" if y == "f" else "BROKEN" if y in ("l", "N", "L", "?") else "SPECIAL"
        for line in tail.splitlines():
            p, _, c = line.partition(":")
            a = self.abstract(p)
            if a is not None and out.get(tuple(a)) == "":
                out[tuple(a)] = c.strip()
        return out


class Observer:
    """The harness's own shell inside a container's view (never goes through the connector)."""

    def __init__(self, pid: int):
        self.p = subprocess.Popen([FD.NSENTER, "-t", str(pid), "-m", "-r", "-w", "/usr/bin/env", "-i",
                                   "PATH=/usr/bin:/bin", "/bin/sh"], stdin=subprocess.PIPE, stdout=subprocess.PIPE,
                                  stderr=subprocess.DEVNULL)
        self.n = 0

    def run(self, script: str) -> str:
        self.n += 1
        mark = "__OBS_%d_%d__" % (os.getpid(), self.n)
        self.p.stdin.write(("{ %s\n} 2>/dev/null; echo; echo %s\n" % (script, mark)).encode())
        self.p.stdin.flush()
        buf = []
        while True:
            line = self.p.stdout.readline()
            if not line:
                raise RuntimeError("observer shell died")
            s = line.decode("utf-8", "replace")
            if s.strip() == mark:
                break
            buf.append(s)
        txt = "".join(buf)
        return txt[:-1] if txt.endswith("\n") else txt

    def close(self):
        try:
            self.p.stdin.close()
            self.p.wait(timeout=10)
        except Exception:
            try:
                self.p.kill()
            except Exception:
                pass


# ------------------------------------------------------------------------------------------------
# the real connector
# ------------------------------------------------------------------------------------------------

def make_connector(world: World, **docker_kwargs):
    """Real DockerConnector wrapping a real LocalConnector."""
    from streamflow.deployment.connector.container import DockerConnector
    from streamflow.deployment.connector.local import LocalConnector
    inner = LocalConnector("cb-local", world.W)
    kw = dict(deployment_name="cb-docker", config_dir=world.W, connector=inner, service=None, image="img:1")
    kw.update(docker_kwargs)
    return DockerConnector(**kw), inner


def bare_connector(instances: dict):
    """A DockerConnector that was never deployed, with hand-made instances (function-level checks of
    _get_container_path/_get_host_path/_get_effective_locations, which only read `_instances` and whether the
    wrapped location is local)."""
    from streamflow.core.scheduling import AvailableLocation
    from streamflow.deployment.connector.container import DockerConnector

    class _Inner:
        deployment_name = "cb-local"
    conn = DockerConnector.__new__(DockerConnector)
    conn.deployment_name = "cb-docker"
    conn.config_dir = "/"
    conn.transferBufferSize = 2 ** 16
    conn.connector = _Inner()
    conn.service = None
    conn._inner_location = AvailableLocation(name="__LOCAL__", deployment="cb-local", hostname="localhost", local=True)
    conn._instances = dict(instances)
    conn.containerId = None
    return conn


def make_instance(volumes, current_user=True):
    """volumes: list of (mount_point, bind-or-None)."""
    from streamflow.core.scheduling import Storage
    from streamflow.deployment.connector.container import ContainerInstance
    return ContainerInstance(address="", cores=1.0, current_user=current_user, memory=1.0,
                             volumes={mp: Storage(mount_point=mp, size=1.0, bind=b) for mp, b in volumes})


class Hooks:
    """Run-time wrappers at public names: the container connector's `run`/stream getters, the inner connector's copy
    methods and `os.symlink`.  Each records an event in world.events (after draining the CLI log)."""

    def __init__(self, world: World, conn, inner):
        self.world, self.conn, self.inner = world, conn, inner
        self._orig = []
        self.active = False

    def fail(self, cmd: str, rc: int):
        """Inject a failure: the next `docker <cmd>` calls exit with rc (0 removes the injection)."""
        p = os.path.join(self.W, "fail", cmd)
        if rc:
            with open(p, "w") as f:
                f.write("%d\n" % rc)
        elif os.path.exists(p):
            os.unlink(p)

    def images(self):
        return FD.images(self.W)

    def install(self):
        w = self.world

        def wrap(obj, name, mk):
            orig = getattr(obj, name)
            self._orig.append((obj, name, obj.__dict__.get(name, None) if hasattr(obj, "__dict__") else None))
            setattr(obj, name, mk(orig))

        def mk_run(orig):
            async def run(location, command, *a, **k):
                w.mark(e="ctr_run", cmd=" ".join(command), job=k.get("job_name"), loc=getattr(location, "name", None))
                r = await orig(location, command, *a, **k)
                w.mark(e="ctr_run_ret", rc=(r[1] if isinstance(r, tuple) else None))
                return r
            return run

        def mk_stream(kind):
            def mk(orig):
                async def get(command, location):
                    w.mark(e="stream", dir=kind, cmd=" ".join(command), loc=getattr(location, "name", None))
                    return await orig(command=command, location=location)
                return get
            return mk

        def mk_copy(kind):
            def mk(orig):
                async def copy(*a, **k):
                    w.mark(e="inner_copy", kind=kind, src=k.get("src"), dst=k.get("dst"), ro=bool(k.get("read_only", False)))
                    return await orig(*a, **k)
                return copy
            return mk
        wrap(self.conn, "run", mk_run)
        wrap(self.conn, "get_stream_reader", mk_stream("r"))
        wrap(self.conn, "get_stream_writer", mk_stream("w"))
        for kind in ("copy_local_to_remote", "copy_remote_to_local", "copy_remote_to_remote"):
            wrap(self.inner, kind, mk_copy(kind))
        self._os_symlink = os.symlink

        def symlink(src, dst, *a, **k):
            if self.active:
                w.mark(e="host_symlink", src=os.fspath(src), dst=os.fspath(dst))
            return self._os_symlink(src, dst, *a, **k)
        os.symlink = symlink

    def remove(self):
        os.symlink = self._os_symlink
        for obj, name, old in self._orig:
            try:
                if old is None:
                    delattr(obj, name)
                else:
                    setattr(obj, name, old)
            except Exception:
                pass
        self._orig = []


async def close_shells(inner):
    """LocalConnector.undeploy is a no-op: close the persistent shells the container connector opened through it."""
    from streamflow.deployment.connector.base import BaseConnector
    try:
        await asyncio.wait_for(BaseConnector.undeploy(inner, False), 30)
    except Exception:
        for loc in getattr(inner, "_shells", {}).values():
            for sh in loc.values():
                try:
                    sh._proc.kill()
                except Exception:
                    pass


# ------------------------------------------------------------------------------------------------
# scenario rig: one world, one connector, operations with observations
# ------------------------------------------------------------------------------------------------

RUN_CMDS = [   # (command words, environment, workdir, expected stdout, expected return code)
    (["cat", "/.cbinds_id"], None, None, "@CID@", 0),
    (["echo", "$GREETING;", "pwd;", "exit", "3"], {"GREETING": "a b"}, "/tmp", "a b\n/tmp", 3),
    (["test", "-d", "@W@/h"], None, None, "", 1),        # host-only directories do not exist in the container
    (["printf", "'%s'", "\"it's\""], None, None, "it's", 0),
]


def mount_options(world: World, table):
    """Mount table (model records) -> DockerConnector keyword arguments + the same as fake-docker mount specs."""
    kw = {"volume": [], "mount": [], "tmpfs": []}
    specs = []
    n = 0
    for m in sorted(table, key=lambda m: (len(m["dst"]), m["dst"])):
        dst = world.real(m["dst"])
        if m["type"] == "bind":
            src = world.real(m["src"])
            if m.get("via", "volume") == "volume":
                s = "%s:%s%s" % (src, dst, ":ro" if m["ro"] else "")
                kw["volume"].append(s)
                specs.append(("volume", s))
            else:
                s = "type=bind,source=%s,target=%s%s" % (src, dst, ",readonly" if m["ro"] else "")
                kw["mount"].append(s)
                specs.append(("mount", s))
        elif m["type"] == "volume":
            n += 1
            s = "type=volume,source=vol%d,target=%s" % (n, dst)
            kw["mount"].append(s)
            specs.append(("mount", s))
        else:
            kw["tmpfs"].append(dst)
            specs.append(("tmpfs", dst))
    return {k: v for k, v in kw.items() if v}, specs


class Rig:
    """Scenario = (mount table, user flag, environment, initial files).  All calls into StreamFlow are made inside
    one event loop (`await rig.xxx()`); exceptions of the code under test are returned as observations."""

    def __init__(self, base: str, name: str, table, cuser: bool, env: dict, init_fs, timeout: float = 120.0):
        self.world = World(base, name)
        self.table, self.cuser, self.env, self.init_fs = table, cuser, env, init_fs
        self.timeout = timeout
        self.cid = None
        self.ext_cid = None
        self.conn = self.inner = self.hooks = None
        self.loc = None
        self.hv = self.cv = None
        w = self.world
        w.daemon["container"]["uid"] = os.getuid() if cuser else os.getuid() + 1000
        w.daemon["container"]["wrap_df"] = not cuser        # long device names on their own line (older df)
        w.daemon["pullable"] = ["img:1"] if env.get("pullable", True) else []
        w.save()
        if not env.get("image", True):
            open(os.path.join(w.W, "images"), "w").close()
        if env.get("runfails"):
            w.fail("run", 125)
        w.install()
        # host files
        for e in init_fs:
            if e["st"]["kind"] == "host":
                w.write_host(e["p"], e["c"])
        kw, specs = mount_options(w, table)
        if env.get("ext"):
            for m in table:
                if m["type"] == "bind":
                    os.makedirs(w.real(m["src"]), exist_ok=True)
            self.ext_cid = w.create_external(specs)
            self._fill_container(self.ext_cid)
            w.drain()
            if env.get("given"):
                kw["containerId"] = self.ext_cid
        self.conn, self.inner = make_connector(w, **kw)
        self.hooks = Hooks(w, self.conn, self.inner)
        self.hooks.install()

    def _fill_container(self, cid):
        w = self.world
        for e in sorted(self.init_fs, key=lambda e: len(e["p"])):
            k = e["st"]["kind"]
            if k == "ctr":
                w.write_ctr(cid, e["p"], e["c"])
            elif k == "vol":
                w.write_ctr(cid, list(e["st"]["id"]) + list(e["p"]), e["c"])

    async def _guard(self, coro):
        try:
            return await asyncio.wait_for(coro, self.timeout), None
        except asyncio.TimeoutError:
            return None, TimeoutError("watchdog %ss" % self.timeout)
        except Exception as e:  # observation
            return None, e

    def _window(self, start):
        self.world.mark()
        return self.world.events[start:]

    async def deploy(self):
        w = self.world
        w.mark()
        start = len(w.events)
        ext = bool(self.env.get("ext"))
        _, exc = await self._guard(self.conn.deploy(ext))
        evs = self._window(start)
        if exc is None:
            self.cid = self.conn.containerId
            if not ext and self.cid:
                self._fill_container(self.cid)
                w.drain()
        return {"exc": exc, "events": evs}

    async def locations(self):
        start = len(self.world.events)
        locs, exc = await self._guard(self.conn.get_available_locations())
        if exc is None and locs:
            self.loc = next(iter(locs.values())).location
        return {"exc": exc, "locs": locs, "events": self._window(start)}

    def location(self):
        if self.loc is None:
            from streamflow.core.deployment import ExecutionLocation
            inner = self.conn._inner_location.location
            self.loc = ExecutionLocation(name=self.cid, deployment=self.conn.deployment_name, stacked=True, wraps=inner)
        return self.loc

    async def run_cmd(self, mode: str, k: int):
        cmd, envv, wd, out, rc = RUN_CMDS[k % len(RUN_CMDS)]
        cmd = [c.replace("@W@", self.world.W) for c in cmd]
        start = len(self.world.events)
        res, exc = await self._guard(self.conn.run(self.location(), cmd, environment=envv, workdir=wd, capture_output=True,
                                                   job_name="job-1" if mode == "job" else None))
        return {"exc": exc, "res": res, "expected": (out.replace("@CID@", self.cid or ""), rc), "events": self._window(start)}

    def snapshot(self):
        self.hv = self.world.host_view()
        self.cv = self.world.ctr_view(self.cid) if self.cid in self.world.running() else {}
        return self.hv, self.cv

    async def copy(self, op: str, src, dst, ro: bool):
        """op in l2r/r2l/r2r; src, dst abstract paths.  Returns events, exception, and both views before/after."""
        w = self.world
        if self.hv is None:
            self.snapshot()
        hb, cb = self.hv, self.cv
        loc = self.location()
        start = len(w.events)
        self.hooks.active = True
        if op == "l2r":
            coro = self.conn.copy_local_to_remote(src=w.real(src), dst=w.real(dst), locations=[loc], read_only=ro)
        elif op == "r2l":
            coro = self.conn.copy_remote_to_local(src=w.real(src), dst=w.real(dst), location=loc, read_only=ro)
        else:
            coro = self.conn.copy_remote_to_remote(src=w.real(src), dst=w.real(dst), locations=[loc], source_location=loc,
                                                   read_only=ro)
        _, exc = await self._guard(coro)
        self.hooks.active = False
        evs = self._window(start)
        ha, ca = self.snapshot()
        return {"exc": exc, "events": evs, "host": (hb, ha), "ctr": (cb, ca)}

    def remove(self, host_paths, ctr_paths):
        """Undo a copy: delete the given paths (abstract) on the host / through the container's view."""
        w = self.world
        for p in host_paths:
            path = w.real(p)
            if len(p) < 2 or not path.startswith(w.W + "/"):
                continue
            try:
                if os.path.islink(path) or not os.path.isdir(path):
                    os.unlink(path)
                else:
                    shutil.rmtree(path)
            except FileNotFoundError:
                pass
        todo = [w.real(p) for p in ctr_paths if len(p) >= 2]
        if todo and self.cid in w.running():
            w.observer(self.cid).run("rm -rf -- " + " ".join("'%s'" % t for t in todo))

    def restore(self, base_h, base_c):
        """Bring both views back to the given snapshots by deleting what was added; True when that succeeded."""
        for _ in range(3):
            hv, cv = self.snapshot()
            extra_h = [p for p in hv if p not in base_h]
            extra_c = [p for p in cv if p not in base_c]
            if not extra_h and not extra_c:
                break
            self.remove(_roots(extra_h), _roots(extra_c))
        hv, cv = self.snapshot()
        return hv == base_h and cv == base_c

    async def undeploy(self):
        start = len(self.world.events)
        _, exc = await self._guard(self.conn.undeploy(bool(self.env.get("ext"))))
        return {"exc": exc, "events": self._window(start), "running": self.world.running()}

    async def close(self):
        try:
            if self.hooks:
                self.hooks.remove()
            if self.inner is not None:
                await close_shells(self.inner)
        finally:
            self.world.close()


def _roots(paths):
    ps = sorted(set(tuple(p) for p in paths), key=len)
    out = []
    for p in ps:
        if not any(p[:len(r)] == r for r in out):
            out.append(p)
    return out


def decision_of(world: World, events):
    """Classify what a copy did from the recorded events -> ({"k","a","b"} or None, number of streams, notes)."""
    import shlex

    def ab(s):
        a = world.abstract(s) if isinstance(s, str) else None
        return a if a is not None else ["?", str(s)]
    streams = [e for e in events if e.get("e") == "stream"]
    inner = [e for e in events if e.get("e") == "inner_copy"]
    links = [e for e in events if e.get("e") == "host_symlink"]
    runs = []
    for e in events:
        if e.get("e") == "ctr_run":
            try:
                words = shlex.split(e["cmd"])
            except ValueError:
                continue
            if words[:2] == ["/bin/cp", "-rf"] and len(words) == 4:
                runs.append({"k": "ctrcopy", "a": ab(words[2]), "b": ab(words[3])})
            elif words[:2] == ["ln", "-snf"] and len(words) == 4:
                runs.append({"k": "ctrlink", "a": ab(words[2]), "b": ab(words[3])})
    found = []
    for e in inner:
        found.append({"k": "hostcopy", "a": ab(e["src"]), "b": ab(e["dst"]), "ro": e["ro"], "via": e["kind"]})
    if not inner:
        for e in links:
            found.append({"k": "hostlink", "a": ab(e["src"]), "b": ab(e["dst"])})
    found += runs
    if streams:
        found.append({"k": "stream"})
    return found, len(streams)
