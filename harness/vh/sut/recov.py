"""Recovery scenarios on the REAL engine (C16-C19): harness-owned failure injectors, workflow shapes,
recorder and runner.

A *shape* is a small job DAG (pipeline, scatter/gather, diamond, fan-out).  `build()` turns it into a
real StreamFlow workflow (DeployStep, InputInjectorStep, per exec node: ScheduleStep + TransferStep(s)
+ ExecuteStep with an in-process `Command`; ScatterStep/GatherStep where the shape says so) bound to
one or more *volatile local* deployments (each a private directory under the run's scratch dir).
A *plan* says which (job, phase) fails how often and how (soft / fail_stop = wipe the whole volatile
directory of the job's deployment first, i.e. every file produced there so far becomes unavailable).
The ideas mirror tests/utils/workflow.py of the repository, but nothing is imported from tests.*:
the classes below are loadable by the engine's own persistence layer (recovery workflows are
re-instantiated from the database), and all bookkeeping lives in the module-global `RUN`
(one run at a time per process) so that re-loaded copies of a step share it.
"""
from __future__ import annotations

import asyncio
import json
import os
import posixpath
import shutil
from typing import Any

from streamflow.core.config import BindingConfig
from streamflow.core.data import DataType
from streamflow.core.deployment import DeploymentConfig, Target
from streamflow.core.exception import FailureHandlingException, WorkflowExecutionException
from streamflow.core.utils import get_entity_ids, get_job_tag, get_tag
from streamflow.core.workflow import Command, CommandOutput, Job, Status, Token, Workflow
from streamflow.data.remotepath import StreamFlowPath
from streamflow.deployment.utils import get_path_processor
from streamflow.workflow.step import (
    ConditionalStep,
    DefaultCommandOutputProcessor,
    DeployStep,
    ExecuteStep,
    GatherStep,
    InputInjectorStep,
    LoopOutputStep,
    ScatterStep,
    ScheduleStep,
    TransferStep,
)
from streamflow.workflow.token import FileToken, IterationTerminationToken, JobToken, ListToken, TerminationToken
from streamflow.workflow.utils import get_job_token

PHASES = ("schedule", "transfer", "execute")


# --------------------------------------------------------------------------------------------------
# run state
# --------------------------------------------------------------------------------------------------

class RunState:
    """Everything the injectors need to know about the current run."""

    def __init__(self, plan=None, delays=None, gates=None, gate_jobs=()):
        # plan: {(job_name, phase): [kind, times]} or, for kind "fail_sel" (fail-stop with PARTIAL data loss),
        # [kind, times, [names of the jobs whose output instances - every copy of them - are lost at each failure]]
        self.remaining = {k: [v[0], int(v[1])] for k, v in (plan or {}).items()}
        self.lose = {k: list(v[2]) for k, v in (plan or {}).items() if len(v) > 2}
        self.produced = {}          # job -> paths of the output files its successful executions wrote (all generations)
        self.attempts = {}          # (job, phase) -> number of attempts started
        self.completed = {}         # job -> successful executions of the command
        self.injected = {}          # (job, phase) -> injected failures
        self.natural = {}           # (job, phase) -> failures that were not injected
        self.events = []            # recorder
        self.delays = delays        # vh.aio.SeededDelays or None
        self.gates = gates          # vh.aio.Gates or None
        self.gate_jobs = set(gate_jobs)
        self.volatile = {}          # deployment name -> directory
        self.wipes = 0
        self.seq = 0
        self.harness_errors = []
        self.ser = None             # Serializer or None (free running)
        self.context = None
        self.gate_points = {"exec"}  # which injector points park on gates: exec (command completion), sched, xfer
        self.script_failed = None   # gate of a driver script that never parked (the run did not follow the script)
        self.exec_steps = set()     # names of exec steps (job prefixes) that take injected schedule failures
        self.first_port = {}        # exec step name -> input key whose transfer step takes injected failures

    def ev(self, name, **kw):
        self.seq += 1
        e = {"n": self.seq, "ev": name}
        e.update(kw)
        self.events.append(e)
        return e

    def should_fail(self, job, phase):
        r = self.remaining.get((job, phase))
        if r and r[1] > 0:
            r[1] -= 1
            self.injected[(job, phase)] = self.injected.get((job, phase), 0) + 1
            return r[0]
        return None


class Serializer:
    """The sequential semantics of specs/Recovery/Recovery.tla imposed on a real run: one job in flight at a time
    (a job takes the token at its first phase and gives it back when its command has completed and its output is
    delivered, or when a phase fails), and a recovery runs to completion before the workflow it interrupted goes
    on (workflows form a stack; only jobs of the innermost workflow may take the token).  Only the START of job
    phases is delayed - the engine could produce the same schedule by itself on a busy location.  Which eligible
    job goes next is a seeded choice; the order of acquisitions (`hist`) is the observable schedule."""

    def __init__(self, rng=None):
        self.rng = rng
        self.holder = None
        self.waiters = []            # (job, wf, future)
        self.hist = []
        self.frames = [{"wf": None}]
        self.known = set()
        self.pending = 0             # failures raised by the injectors that have not reached recover() yet
        self.holder_wf = None

    def _kick(self):
        if self.holder is not None or self.pending:
            return
        top = self.frames[-1]
        live = [w for w in self.waiters if not w[2].done()]
        el = [w for w in live if (w[1] == top["wf"] if top["wf"] is not None else w[1] not in self.known)]
        if not el:
            self.waiters = live
            return
        w = self.rng.choice(el) if self.rng else el[0]
        self.waiters = [x for x in live if x is not w]
        if top["wf"] is None:
            top["wf"] = w[1]
            self.known.add(w[1])
        self.holder = w[0]
        self.holder_wf = w[1]
        self.hist.append(w[0])
        w[2].set_result(None)

    async def enter(self, job, wf):
        if self.holder == job:
            return
        fut = asyncio.get_running_loop().create_future()
        self.waiters.append((job, wf, fut))
        self._kick()
        await fut

    def release(self, job):
        if self.holder == job:
            self.holder = None
            self._kick()

    def fail(self, job):
        if self.holder == job:
            self.holder = None
            self.pending += 1

    def recover_enter(self, job=None):
        if self.pending:
            self.pending -= 1
        fr = {"wf": None, "job": job}
        self.frames.append(fr)
        self._kick()
        return fr

    def recover_exit(self, fr):
        # (a recovery workflow delivers the failed step's output to its parent before its executor returns, so
        # the parent may already have failed again: remove this frame, wherever it is)
        self.frames = [f for f in self.frames if f is not fr]
        if self.holder is not None and fr["wf"] is not None and self.holder_wf == fr["wf"] and self.holder != fr.get("job"):
            # a job OTHER than the failed one started inside this recovery workflow and never finished (the workflow ended
            # under it; the failed job itself legitimately keeps the token for its next phase in the parent): the model has
            # no such behaviour; give the token back so that the run can end and mark the schedule
            self.hist.append("!abandoned:%s" % self.holder)
            self.holder = None
        self._kick()


RUN: RunState | None = None


async def _enter(job_name, workflow):
    if RUN.ser is not None:
        await RUN.ser.enter(job_name, id(workflow))


def _release(job_name):
    if RUN.ser is not None:
        RUN.ser.release(job_name)


def _failed(job_name):
    if RUN.ser is not None:
        RUN.ser.fail(job_name)


def _lose(context, jobs):
    """Fail-stop with PARTIAL data loss: every output instance produced so far by the jobs in `jobs` is lost - the
    file in the job's output directory and every copy the data manager relates to it (replicas on other deployments);
    everything else (other jobs' outputs, the inputs staged in job input directories) survives."""
    lost = []
    for j in jobs:
        for path in RUN.produced.get(j, ()):
            paths = {path} | {dl.path for dl in context.data_manager.get_data_locations(path)}
            for p in sorted(paths):
                if os.path.lexists(p):
                    os.unlink(p)
                    lost.append(p)
    RUN.wipes += 1
    return lost


def _wipe(deployment: str):
    """Fail-stop: the volatile storage of `deployment` loses everything (the directory itself stays)."""
    d = RUN.volatile[deployment]
    for name in os.listdir(d):
        p = os.path.join(d, name)
        if os.path.isdir(p) and not os.path.islink(p):
            shutil.rmtree(p, ignore_errors=True)
        else:
            try:
                os.unlink(p)
            except OSError:
                pass
    RUN.wipes += 1


async def _pause(job_name: str, point: str):
    """A genuinely nondeterministic point (completion of a job command / transfer): gate or seeded delay."""
    if RUN.gates is not None and point in RUN.gate_points and (not RUN.gate_jobs or job_name in RUN.gate_jobs):
        await RUN.gates.wait("%s:%s" % (point, job_name))
    elif RUN.delays is not None:
        await RUN.delays.after()


async def _inject(context, job: Job, phase: str):
    try:
        kind = RUN.should_fail(job.name, phase)
        if kind is None:
            return None
        dep = context.scheduler.get_allocation(job.name).target.deployment.name
        if kind == "fail_stop":
            _wipe(dep)
        elif kind == "fail_sel":
            lost = _lose(context, RUN.lose.get((job.name, phase), ()))
            RUN.ev("lost", job=job.name, jobs=list(RUN.lose.get((job.name, phase), ())), files=len(lost))
        RUN.ev("fail", job=job.name, phase=phase, kind=kind, dep=dep)
        _failed(job.name)
        return kind
    except Exception as e:  # a bug of the harness must never look like a job failure
        RUN.harness_errors.append("inject %s %s: %r" % (job.name, phase, e))
        raise


# --------------------------------------------------------------------------------------------------
# tokens, processors
# --------------------------------------------------------------------------------------------------

class RFileToken(FileToken):
    async def get_paths(self, context):
        return [self.value]


async def _register(context, job: Job, path: str):
    loc = next(iter(context.scheduler.get_locations(job.name)))
    relpath = (os.path.relpath(path, job.output_directory)
               if job.output_directory and path.startswith(job.output_directory) else os.path.basename(path))
    context.data_manager.register_path(location=loc, path=path, relpath=relpath, data_type=DataType.PRIMARY)


async def _file_token(context, job: Job, path: str, recoverable: bool):
    loc = next(iter(context.scheduler.get_locations(job.name)))
    if not await StreamFlowPath(path, context=context, location=loc).exists():
        raise WorkflowExecutionException("Job %s output does not exist: File %s" % (job.name, path))
    await _register(context, job, path)
    return RFileToken(tag=get_tag(job.inputs.values()), value=path, recoverable=recoverable)


class ROutputProcessor(DefaultCommandOutputProcessor):
    async def process(self, job, command_output, connector=None, recoverable=False):
        context = self.workflow.context
        value = (await command_output).value
        if isinstance(value, int):
            return Token(tag=get_tag(job.inputs.values()), value=value, recoverable=recoverable)
        if isinstance(value, list):
            return ListToken(tag=get_tag(job.inputs.values()),
                             value=[await _file_token(context, job, v, recoverable) for v in value])
        return await _file_token(context, job, value, recoverable)


class RInputInjectorStep(InputInjectorStep):
    async def process_input(self, job: Job, token_value: Any) -> Token:
        context = self.workflow.context
        if not isinstance(token_value, (str, list)):        # loop counters and limits
            return Token(tag=get_tag(job.inputs.values()), value=token_value, recoverable=True)
        if isinstance(token_value, list):
            return ListToken(tag=get_tag(job.inputs.values()),
                             value=[await _file_token(context, job, v, True) for v in token_value])
        return await _file_token(context, job, token_value, True)


# --------------------------------------------------------------------------------------------------
# injectors
# --------------------------------------------------------------------------------------------------

def _read(path):
    with open(path) as f:
        return f.read()


def _flat(v):
    if isinstance(v, list):
        return [x for y in v for x in _flat(y)]
    if isinstance(v, Token):
        return _flat(v.value)
    return [v]


def _paths(t):
    """Paths of the files a token carries (nothing for primitives)."""
    if isinstance(t, FileToken):
        return [t.value]
    if isinstance(t, ListToken):
        return [p for x in t.value for p in _paths(x)]
    return []


class RCommand(Command):
    """In-process job command: output content is a function of the step name and the input contents."""

    def __init__(self, step, out_type: str = "same"):
        super().__init__(step)
        self.out_type = out_type

    async def execute(self, job: Job) -> CommandOutput:
        context = self.step.workflow.context
        st = RUN
        k = (job.name, "execute")
        await _enter(job.name, self.step.workflow)
        st.attempts[k] = st.attempts.get(k, 0) + 1
        st.ev("exec_start", job=job.name, wf=self.step.workflow.persistent_id)
        job_token = get_job_token(job.name, self.step.get_input_port("__job__").token_list)
        exec_id = await context.database.add_execution(self.step.persistent_id, job_token.persistent_id, "recov")
        await _pause(job.name, "exec")
        kind = await _inject(context, job, "execute")
        if kind is not None:
            out = CommandOutput("Injected failure (%s)" % kind, Status.FAILED)
        else:
            try:
                name = self.step.name.strip("/")
                os.makedirs(job.output_directory, exist_ok=True)
                ins = {key: t.value for key, t in sorted(job.inputs.items()) if _paths(t) or self.out_type != "inc"}
                paths = {key: _paths(t) for key, t in sorted(job.inputs.items()) if _paths(t)}
                ins = {key: v for key, v in ins.items() if key in paths}
                for ps in paths.values():
                    for p in ps:
                        if not os.path.exists(p):
                            raise WorkflowExecutionException("Job %s input does not exist: File %s" % (job.name, p))
                is_list = any(isinstance(v, list) for v in ins.values())
                tag = get_job_tag(job.name)
                if self.out_type == "inc":
                    value = int(next(t.value for k2, t in job.inputs.items() if k2 == "counter")) + 1
                elif is_list and self.out_type != "file":
                    # element-wise over the (single) list input
                    (key, ps), = [(k2, v) for k2, v in paths.items() if isinstance(ins[k2], list)] or [(None, [])]
                    res = []
                    for i, p in enumerate(ps):
                        o = os.path.join(job.output_directory, "out-%s-%d" % (name, i))
                        with open(o, "w") as f:
                            f.write("%s[%d](%s)" % (name, i, _read(p)))
                        res.append(o)
                    value = res
                else:
                    o = os.path.join(job.output_directory, "out-%s-%s" % (name, tag))
                    with open(o, "w") as f:
                        f.write("%s(%s)" % (name, ";".join(",".join(_read(p) for p in ps) for ps in paths.values())))
                    value = o
                out = CommandOutput(value, Status.COMPLETED)
                st.produced.setdefault(job.name, []).extend(value if isinstance(value, list) else [value] if isinstance(value, str) else [])
                st.completed[job.name] = st.completed.get(job.name, 0) + 1
                st.ev("exec_done", job=job.name, wf=self.step.workflow.persistent_id)
            except (WorkflowExecutionException, OSError) as err:
                # what a real job does when its staged input has vanished: it fails (non-zero exit), which the
                # engine treats as an ordinary, recoverable job failure
                st.natural[k] = st.natural.get(k, 0) + 1
                st.ev("natfail", job=job.name, phase="execute", err=str(err)[:200])
                _failed(job.name)
                out = CommandOutput("input lost: %s" % err, Status.FAILED)
            except Exception as err:
                st.harness_errors.append("command %s: %r" % (job.name, err))
                raise
        await context.database.update_execution(exec_id, {"status": out.status})
        return out

    async def _save_additional_params(self, database):
        return (await super()._save_additional_params(database)) | {"out_type": self.out_type}

    @classmethod
    async def _load(cls, row, loading_context, step):
        return cls(step=step, out_type=row.get("out_type", "same"))


class RExecuteStep(ExecuteStep):
    async def _run_job(self, job, inputs, connectors):
        try:
            return await super()._run_job(job, inputs, connectors)
        finally:
            _release(job.name)      # the job's output has been delivered (or the job is definitely over)


class RScheduleStep(ScheduleStep):
    async def _schedule(self, job: Job) -> None:
        # gate point "presched" (only when a driver asks for it): the step holds its job BEFORE Scheduler.schedule, i.e. a
        # rolled-back job stays in status ROLLBACK until the gate opens (the window between _synchronize_workflows and the
        # re-scheduling of the job by the recovery workflow)
        if RUN.gates is not None and "presched" in RUN.gate_points:
            await _pause(job.name, "presched")
        await super()._schedule(job=job)

    async def _set_job_directories(self, connector, locations, job):
        st = RUN
        k = (job.name, "schedule")
        await _enter(job.name, self.workflow)
        st.attempts[k] = st.attempts.get(k, 0) + 1
        st.ev("sched_start", job=job.name, wf=self.workflow.persistent_id)
        await _pause(job.name, "sched")
        kind = await _inject(self.workflow.context, job, "schedule")
        if kind is not None:
            raise WorkflowExecutionException("Injected error into %s step (%s)" % (self.name, kind))
        try:
            await super()._set_job_directories(connector, locations, job)
        except Exception as err:
            st.natural[k] = st.natural.get(k, 0) + 1
            st.ev("natfail", job=job.name, phase="schedule", err=str(err)[:200])
            _failed(job.name)
            raise


class RTransferStep(TransferStep):
    async def _transfer_path(self, job: Job, path: str) -> str:
        context = self.workflow.context
        dst_connector = context.scheduler.get_connector(job.name)
        dst_locations = context.scheduler.get_locations(job.name)
        pp = get_path_processor(dst_locations[0])
        src = await context.data_manager.get_source_location(path=path, dst_deployment=dst_connector.deployment_name)
        if not src:
            raise WorkflowExecutionException("Job %s input does not exist: File %s" % (job.name, path))
        dst_path = pp.join(job.input_directory, src.relpath)
        try:
            await context.data_manager.transfer_data(src_location=src.location, src_path=src.path,
                                                     dst_locations=dst_locations, dst_path=dst_path, writable=True)
        except WorkflowExecutionException as err:
            raise WorkflowExecutionException("Job %s failed transfer: %s" % (job.name, err))
        if src.deployment != dst_connector.deployment_name:
            # a copy towards another deployment is a REPLICA of the same data: what DataManager.transfer_data(writable=False)
            # registers for every real (non symlink) remote copy; only local connectors exist offline (read-only local copies
            # are symlinks), so the relation is registered here
            for dl in context.data_manager.get_data_locations(path=dst_path, deployment=dst_connector.deployment_name,
                                                              data_type=DataType.PRIMARY):
                if dl.path == dst_path:
                    context.data_manager.register_relation(src, dl)
        return dst_path

    async def _tr(self, job, token):
        if isinstance(token, ListToken):
            return token.update(value=[await self._tr(job, t) for t in token.value])
        if isinstance(token, FileToken):
            t = token.update(await self._transfer_path(job, token.value))
            t.recoverable = False
            return t
        t = token.update(token.value)
        t.recoverable = False
        return t

    async def transfer(self, job: Job, token: Token) -> Token:
        st = RUN
        k = (job.name, "transfer")
        port = next(n for n in self.input_ports if n != "__job__")
        first = port == st.first_port.get(self.name.rsplit("/__transfer__/", 1)[0], port)
        await _enter(job.name, self.workflow)
        st.attempts[k] = st.attempts.get(k, 0) + 1
        st.ev("xfer_start", job=job.name, port=port, wf=self.workflow.persistent_id)
        if first:
            kind = await _inject(self.workflow.context, job, "transfer")
            if kind is not None:
                raise WorkflowExecutionException("Injected error into %s step (%s)" % (self.name, kind))
        try:
            r = await self._tr(job, token)
        except Exception as err:
            st.natural[k] = st.natural.get(k, 0) + 1
            st.ev("natfail", job=job.name, phase="transfer", err=str(err)[:200])
            _failed(job.name)
            raise
        await _pause(job.name, "xfer")
        st.ev("xfer_done", job=job.name, port=port, wf=self.workflow.persistent_id)
        return r


# --------------------------------------------------------------------------------------------------
# shapes -> real workflows
# --------------------------------------------------------------------------------------------------

class RLoopConditionalStep(ConditionalStep):
    """Loop condition `counter < limit` (the engine-level loop wiring of tests/test_recovery.py::test_loop)."""

    def __init__(self, name, workflow):
        super().__init__(name, workflow)
        self.skip_ports = {}

    async def _eval(self, inputs):
        return inputs["counter"].value < inputs["limit"].value

    async def _on_true(self, inputs):
        for port_name, port in self.get_output_ports().items():
            port.put(await self._persist_token(token=inputs[port_name].update(inputs[port_name].value), port=port,
                                               input_token_ids=get_entity_ids(inputs.values())))

    async def _on_false(self, inputs):
        for port in self.get_skip_ports().values():
            port.put(IterationTerminationToken(tag=get_tag(inputs.values())))

    async def _save_additional_params(self, database):
        return (await super()._save_additional_params(database)) | {
            "skip_ports": {k: p.persistent_id for k, p in self.get_skip_ports().items()}}

    @classmethod
    async def _load(cls, row, loading_context):
        step = cls(name=row["name"], workflow=await loading_context.load_workflow(row["workflow"]))
        for k, pid in row["params"]["skip_ports"].items():
            step.add_skip_port(k, await loading_context.load_port(pid))
        return step

    def add_skip_port(self, name, port):
        if port.name not in self.workflow.ports:
            self.workflow.ports[port.name] = port
        self.skip_ports[name] = port.name

    def get_skip_ports(self):
        return {k: self.workflow.ports[v] for k, v in self.skip_ports.items()}


class RLoopOutputLastStep(LoopOutputStep):
    async def _process_output(self, tag):
        return sorted(self.token_map.get(tag, [Token(value=None)]), key=lambda t: int(t.tag.split(".")[-1]))[-1].retag(tag=tag)


def loop(n_iter, pre=1):
    """pre-stage(s) -> loop of n_iter iterations (body copies the loop-carried file, inc increments the counter)"""
    return {"name": "loop%d%s" % (n_iter, "p" * pre), "kind": "loop", "iters": n_iter, "pre": pre, "inputs": {"IN": 0}, "out": "loop", "nodes": []}


async def build_loop(context, shape, root, deployments=("vol",)):
    from streamflow.cwl.transformer import ForwardTransformer
    from streamflow.workflow.combinator import LoopCombinator, LoopTerminationCombinator
    from streamflow.workflow.step import CombinatorStep, LoopCombinatorStep
    wf = Workflow(context=context, name="recov-%s" % shape["name"], config={})
    b = Built()
    b.workflow, b.exec_steps, b.out_ports, b.shape = wf, {}, {}, shape
    deploy = {}
    for d, sub in [(deployments[0], "volatile"), ("stable", "")]:
        wd = os.path.join(root, d, sub) if sub else os.path.join(root, d)
        os.makedirs(wd, exist_ok=True)
        if sub:
            RUN.volatile[d] = wd
        cfg = DeploymentConfig(name=d, type="local", config={}, external=True, lazy=False, workdir=wd)
        deploy[d] = wf.create_step(cls=DeployStep, name=posixpath.join("__deploy__", d), deployment_config=cfg)
    vol = deployments[0]

    def sched(cls, name, dep):
        bc = BindingConfig(targets=[Target(deployment=deploy[dep].deployment_config)])
        return wf.create_step(cls=cls, name=posixpath.join(name, "__schedule__"), job_prefix=name,
                              connector_ports={dep: deploy[dep].get_output_port()}, binding_config=bc)

    indir = os.path.join(root, "stable", "inputs")
    os.makedirs(indir, exist_ok=True)
    x0 = os.path.join(indir, "x0")
    with open(x0, "w") as f:
        f.write("x0")
    ports = {}
    for name, value in (("test", x0), ("counter", 0), ("limit", shape["iters"])):
        ss = sched(ScheduleStep, "/%s-injector" % name, "stable")
        inj = wf.create_step(cls=RInputInjectorStep, name="/%s-injector" % name, job_port=ss.get_output_port())
        inj.add_input_port(name, wf.create_port(name="in.%s" % name))
        inj.add_output_port(name, wf.create_port(name="out.%s" % name))
        inj.get_input_port(name).put(Token(value, recoverable=True))
        inj.get_input_port(name).put(TerminationToken())
        ports[name] = inj.get_output_port(name)

    def exec_step(nid, inputs, out_key, out_type="same"):
        name = "/" + nid
        ss = sched(RScheduleStep, name, vol)
        ex = wf.create_step(cls=RExecuteStep, name=name, job_port=ss.get_output_port())
        ex.command = RCommand(ex, out_type=out_type)
        RUN.exec_steps.add(name)
        for k, (key, port) in enumerate(inputs.items()):
            ss.add_input_port(key, port)
            ts = wf.create_step(cls=RTransferStep, name=posixpath.join(name, "__transfer__", key), job_port=ss.get_output_port())
            ts.add_input_port(key, port)
            ts.add_output_port(key, wf.create_port(name="xfer.%s.%s" % (nid, key)))
            ex.add_input_port(key, ts.get_output_port(key))
            if k == 0:
                RUN.first_port[name] = key
        ex.add_output_port(out_key, wf.create_port(name="out.%s" % nid), ROutputProcessor(out_key, wf))
        b.exec_steps[nid] = ex
        return ex

    # upstream stage(s): the loop-carried file is produced by a job (it lives on the volatile location)
    for i in range(shape["pre"]):
        nid = "pre%d" % (i + 1)
        ports["test"] = exec_step(nid, {"test": ports["test"]}, "test").get_output_port("test")
    # ---- loop input side (tests/utils/workflow.py::get_input_loop)
    lname = "/body"
    comb = LoopCombinator(workflow=wf, name=lname + "-loop-combinator")
    fwd = {}
    for pn, port in ports.items():
        ft = wf.create_step(cls=ForwardTransformer, name=posixpath.join(lname, pn) + "-input-forward-transformer")
        ft.add_input_port(pn, port)
        fwd[pn] = wf.create_port()
        ft.add_output_port(pn, fwd[pn])
        comb.add_item(pn)
    cstep = wf.create_step(cls=LoopCombinatorStep, name=lname + "-loop-combinator", combinator=comb)
    for pn, port in fwd.items():
        cstep.add_input_port(pn, port)
        cstep.add_output_port(pn, wf.create_port())
    when = wf.create_step(cls=RLoopConditionalStep, name=lname + "-loop-when")
    loop_in = {}
    for pn in ports:
        when.add_input_port(pn, cstep.get_output_port(pn))
        loop_in[pn] = wf.create_port()
        when.add_output_port(pn, loop_in[pn])
    # ---- loop body
    inc = exec_step("inc", {"counter": loop_in["counter"]}, "counter", out_type="inc")
    body = exec_step("body", {"test": loop_in["test"], "counter": loop_in["counter"], "limit": loop_in["limit"]}, "test1")
    loop_ports = {"test": body.get_output_port("test1"), "counter": inc.get_output_port("counter"), "limit": loop_in["limit"]}
    # ---- loop output side (get_output_loop)
    internal = dict(loop_ports)
    tcomb = LoopTerminationCombinator(workflow=wf, name=lname + "-loop-termination-combinator")
    tstep = wf.create_step(cls=CombinatorStep, name=lname + "-loop-terminator", combinator=tcomb)
    for pn, port in cstep.get_input_ports().items():
        tstep.add_output_port(pn, port)
        tcomb.add_output_item(pn)
    pn = "test"
    ft = wf.create_step(cls=ForwardTransformer, name=posixpath.join(lname, pn) + "-output-forward-transformer")
    ft.add_input_port(pn, loop_ports[pn])
    ft.add_output_port(pn, wf.create_port())
    internal[pn] = ft.get_output_port(pn)
    lout = wf.create_step(cls=RLoopOutputLastStep, name=posixpath.join(lname, pn) + "-loop-output")
    lout.add_input_port(pn, ft.get_output_port())
    when.add_skip_port(pn, ft.get_output_port())
    lout.add_output_port(pn, wf.create_port(name="out.loop"))
    tstep.add_input_port(pn, lout.get_output_port(pn))
    tcomb.add_item(pn)
    for pn in loop_ports:
        bt = wf.create_step(cls=ForwardTransformer, name=posixpath.join(lname, pn) + "-back-propagation-transformer")
        bt.add_input_port(pn, internal[pn])
        bt.add_output_port(pn, cstep.get_input_port(pn))
    b.out_ports = {"loop": lout.get_output_port("test")}
    await wf.save(context.database)
    return b


def pipeline(n):
    ids = "abcdefgh"[:n]
    return {"name": "pipe%d" % n, "inputs": {"IN": 0}, "out": ids[-1],
            "nodes": [{"id": x, "type": "exec", "in": ["IN" if i == 0 else ids[i - 1]]} for i, x in enumerate(ids)]}


def scatter(n, pre=True, post=True):
    """IN(list n) -> [a] -> scatter -> b (n jobs) -> gather -> [c]"""
    nodes = []
    src = "IN"
    if pre:
        nodes.append({"id": "a", "type": "exec", "in": ["IN"]})
        src = "a"
    nodes += [{"id": "s", "type": "scatter", "in": [src]},
              {"id": "b", "type": "exec", "in": ["s"]},
              {"id": "g", "type": "gather", "in": ["b"], "scatter": "s"}]
    out = "g"
    if post:
        nodes.append({"id": "c", "type": "exec", "in": ["g"]})
        out = "c"
    return {"name": "scat%d%s%s" % (n, "p" if pre else "", "q" if post else ""), "inputs": {"IN": n}, "out": out, "nodes": nodes}


def diamond():
    return {"name": "diamond", "inputs": {"IN": 0}, "out": "d",
            "nodes": [{"id": "a", "type": "exec", "in": ["IN"]},
                      {"id": "b", "type": "exec", "in": ["a"]},
                      {"id": "c", "type": "exec", "in": ["a"]},
                      {"id": "d", "type": "exec", "in": ["b", "c"]}]}


def fanout(n):
    """a feeds n independent exec steps b1..bn (parallel branches, no join)"""
    nodes = [{"id": "a", "type": "exec", "in": ["IN"]}]
    nodes += [{"id": "b%d" % i, "type": "exec", "in": ["a"]} for i in range(1, n + 1)]
    return {"name": "fan%d" % n, "inputs": {"IN": 0}, "out": [nd["id"] for nd in nodes[1:]], "nodes": nodes}


def fanjoin(n):
    """a feeds n independent exec steps b1..bn (parallel branches) joined by d"""
    nodes = [{"id": "a", "type": "exec", "in": ["IN"]}]
    nodes += [{"id": "b%d" % i, "type": "exec", "in": ["a"]} for i in range(1, n + 1)]
    nodes.append({"id": "d", "type": "exec", "in": ["b%d" % i for i in range(1, n + 1)]})
    return {"name": "fanjoin%d" % n, "inputs": {"IN": 0}, "out": "d", "nodes": nodes}


def prodcons(needs, name=None):
    """Several producers, consumers that need one or more of them, one join: `needs` maps a consumer id to the list of
    producer ids it reads (e.g. the double diamond {"x": ["a1"], "y": ["a2"], "z": ["a1", "a2"]}); every producer reads IN,
    the join d reads every consumer.  fanjoin(n) is prodcons({"b1": ["a"], ..., "bn": ["a"]})."""
    prods = sorted({p for ps in needs.values() for p in ps})
    nodes = [{"id": p, "type": "exec", "in": ["IN"]} for p in prods]
    nodes += [{"id": c, "type": "exec", "in": list(ps)} for c, ps in sorted(needs.items())]
    nodes.append({"id": "d", "type": "exec", "in": sorted(needs)})
    return {"name": name or "prodcons%dx%d" % (len(prods), len(needs)), "inputs": {"IN": 0}, "out": "d", "nodes": nodes}


def dag(parents, name=None, out=None):
    """General job DAG: `parents` maps an exec node id to the list of node ids it reads (in topological order of the keys;
    [] = the workflow input).  Fork/join shapes with a UNIQUE topological order (a chain plus skip edges) are
    deterministic without any imposed schedule: e.g. dag({"a": [], "b": ["a"], "c": ["b", "a"], "d": ["c", "b"]})."""
    ids = list(parents)
    nodes = [{"id": x, "type": "exec", "in": list(parents[x]) or ["IN"]} for x in ids]
    return {"name": name or "dag%d" % len(ids), "inputs": {"IN": 0}, "out": out or ids[-1], "nodes": nodes}


def shape_jobs(shape):
    """Job names of the shape: exec node x tag (scatter members get one job per element)."""
    n = max(1, next(iter(shape["inputs"].values())))
    depth = {}
    jobs = []
    for nd in shape["nodes"]:
        ins = [i for i in nd["in"] if i != "IN"]
        d = max([depth[i] for i in ins] or [0])
        if nd["type"] == "scatter":
            d += 1
        elif nd["type"] == "gather":
            d -= 1
        depth[nd["id"]] = d
        if nd["type"] == "exec":
            jobs += ["/%s/0" % nd["id"]] if d == 0 else ["/%s/0.%d" % (nd["id"], i) for i in range(n)]
    return jobs


class Built:
    pass


async def build(context, shape, root, deployments=("vol",), placement=None):
    """Create and save the real workflow of `shape`.  `placement`: exec node id -> deployment name."""
    placement = placement or {}
    wf = Workflow(context=context, name="recov-%s-%d" % (shape["name"], RUN.seq if RUN else 0), config={})
    b = Built()
    b.workflow, b.exec_steps, b.out_ports, b.shape = wf, {}, {}, shape
    deploy = {}
    for d in deployments:
        wd = os.path.join(root, d, "volatile")
        os.makedirs(wd, exist_ok=True)
        RUN.volatile[d] = wd
        cfg = DeploymentConfig(name=d, type="local", config={}, external=True, lazy=False, workdir=wd)
        deploy[d] = wf.create_step(cls=DeployStep, name=posixpath.join("__deploy__", d), deployment_config=cfg)
    # a stable (non volatile) deployment holds the workflow inputs
    stable = os.path.join(root, "stable")
    os.makedirs(stable, exist_ok=True)
    scfg = DeploymentConfig(name="stable", type="local", config={}, external=True, lazy=False, workdir=stable)
    deploy["stable"] = wf.create_step(cls=DeployStep, name=posixpath.join("__deploy__", "stable"), deployment_config=scfg)

    def sched(cls, name, dep):
        bc = BindingConfig(targets=[Target(deployment=deploy[dep].deployment_config)])
        return wf.create_step(cls=cls, name=posixpath.join(name, "__schedule__"), job_prefix=name,
                              connector_ports={dep: deploy[dep].get_output_port()}, binding_config=bc)

    ports = {}
    # input injector
    (in_name, n), = shape["inputs"].items()
    inj_s = sched(ScheduleStep, "/%s-injector" % in_name, "stable")
    inj = wf.create_step(cls=RInputInjectorStep, name="/%s-injector" % in_name, job_port=inj_s.get_output_port())
    inj.add_input_port(in_name, wf.create_port(name="in.%s" % in_name))
    inj.add_output_port(in_name, wf.create_port(name="out.%s" % in_name))
    ports[in_name] = inj.get_output_port(in_name)
    indir = os.path.join(stable, "inputs")
    os.makedirs(indir, exist_ok=True)
    files = []
    for i in range(max(1, n)):
        p = os.path.join(indir, "x%d" % i)
        with open(p, "w") as f:
            f.write("x%d" % i)
        files.append(p)
    value = files if n > 0 else files[0]
    inj.get_input_port(in_name).put(Token(value, recoverable=True))
    inj.get_input_port(in_name).put(TerminationToken())
    size_ports = {}
    for nd in shape["nodes"]:
        nid, typ = nd["id"], nd["type"]
        name = "/" + nid
        if typ == "exec":
            dep = placement.get(nid, deployments[0])
            ss = sched(RScheduleStep, name, dep)
            ex = wf.create_step(cls=RExecuteStep, name=name, job_port=ss.get_output_port())
            ex.command = RCommand(ex, out_type=nd.get("out_type", "same"))
            RUN.exec_steps.add(name)
            for k, src in enumerate(nd["in"]):
                key = src
                ss.add_input_port(key, ports[src])
                ts = wf.create_step(cls=RTransferStep, name=posixpath.join(name, "__transfer__", key),
                                    job_port=ss.get_output_port())
                ts.add_input_port(key, ports[src])
                ts.add_output_port(key, wf.create_port(name="xfer.%s.%s" % (nid, key)))
                ex.add_input_port(key, ts.get_output_port(key))
                if k == 0:
                    RUN.first_port[name] = key
            ex.add_output_port(nid, wf.create_port(name="out.%s" % nid), ROutputProcessor(nid, wf))
            ports[nid] = ex.get_output_port(nid)
            b.exec_steps[nid] = ex
        elif typ == "scatter":
            sc = wf.create_step(cls=ScatterStep, name=name + "-scatter")
            sc.add_input_port(nid, ports[nd["in"][0]])
            sc.add_output_port(nid, wf.create_port(name="out.%s" % nid))
            ports[nid] = sc.get_output_port(nid)
            size_ports[nid] = sc.get_size_port()
        elif typ == "gather":
            ga = wf.create_step(cls=GatherStep, name=name + "-gather", size_port=size_ports[nd["scatter"]])
            ga.add_input_port(nid, ports[nd["in"][0]])
            ga.add_output_port(nid, wf.create_port(name="out.%s" % nid))
            ports[nid] = ga.get_output_port(nid)
        else:
            raise ValueError(typ)
    outs = shape["out"] if isinstance(shape["out"], list) else [shape["out"]]
    b.out_ports = {o: ports[o] for o in outs}
    await wf.save(context.database)
    return b


def _content(v):
    if isinstance(v, Token):
        return _content(v.value)
    if isinstance(v, list):
        return [_content(x) for x in v]
    try:
        return _read(v)
    except OSError as e:
        return "<missing:%s>" % os.path.basename(str(v))


def read_outputs(b):
    """Workflow outputs: for every output port the (tag, content) pairs (files' CONTENT, never paths)."""
    out = {}
    for name, port in b.out_ports.items():
        toks = [t for t in port.token_list if not isinstance(t, TerminationToken)]
        out[name] = sorted([[t.tag, _content(t)] for t in toks], key=lambda x: x[0])
        out[name + ":terminated"] = sum(isinstance(t, TerminationToken) for t in port.token_list)
    return out


class Stalled(Exception):
    pass


async def _watch(task, st, stall):
    """Hang detector that does not depend on how loaded the machine is.  The watcher wakes every 0.25 s; a wake-up
    counts as IDLE when it came in time (the event loop is not being starved by the OS), the injectors recorded
    no event since the previous one and the process (all threads) used practically no CPU in between.  The run is
    declared hung after `stall` seconds of accumulated, uninterrupted idleness: a deadlocked engine computes
    nothing, a slow one does."""
    import time
    last_seq, t_prev, c_prev, idle = st.seq, time.monotonic(), time.process_time(), 0.0
    while not task.done():
        await asyncio.wait([task], timeout=0.25)
        now, cpu = time.monotonic(), time.process_time()
        dt, dc = now - t_prev, cpu - c_prev
        if st.seq != last_seq or dc > 0.004 + 0.01 * dt:
            idle = 0.0
        elif dt < 1.0:
            idle += dt
        # (a late wake-up means the process itself got no CPU: says nothing about the engine)
        last_seq, t_prev, c_prev = st.seq, now, cpu
        if idle >= stall:
            raise Stalled()


async def run_plan(shape, plan, root, *, manager="rollback", max_retries=20, delays=None, gates=None, gate_jobs=(),
                   placement=None, deployments=("vol",), driver=None, hooks=None, serial=None, stall=None,
                   gate_points=("exec",)):
    """One real execution.  Returns an observation dict (no exception escapes: raise/return is recorded)."""
    global RUN
    import logging
    from streamflow.main import build_context
    from streamflow.log_handler import logger as _sflog
    if not os.environ.get("RECOV_LOG"):
        _sflog.setLevel(logging.CRITICAL + 10)      # recoverable() logs every injected failure with a traceback
    from streamflow.workflow.executor import StreamFlowExecutor
    RUN = RunState(plan, delays=delays, gates=gates, gate_jobs=gate_jobs)
    st = RUN
    st.gate_points = set(gate_points)
    if serial is not None:
        st.ser = Serializer(serial if hasattr(serial, "choice") else None)
    os.makedirs(root, exist_ok=True)
    fm = ({"type": "default", "config": {"max_retries": max_retries, "retry_delay": 0}} if manager == "rollback"
          else {"type": "dummy", "config": {}})
    context = build_context({"failureManager": fm, "database": {"type": "default", "config": {"connection": ":memory:"}},
                             "path": root})
    obs = {"outcome": None, "error": None}
    st.context = context
    unhook = hooks(context, st) if hooks else None
    if st.ser is not None:
        _orig_recover = context.failure_manager.recover

        async def _rec(job, step, exception):
            fr = st.ser.recover_enter(job.name)
            try:
                return await _orig_recover(job, step, exception)
            finally:
                st.ser.recover_exit(fr)
        context.failure_manager.recover = _rec
    if delays is not None:      # completions of database operations are genuine nondeterminism points
        delays.wrap(context.database, ["add_token", "add_provenance", "update_step", "add_execution", "add_step", "add_port"])
    try:
        if shape.get("kind") == "loop":
            b = await build_loop(context, shape, root, deployments=deployments)
        else:
            b = await build(context, shape, root, deployments=deployments, placement=placement)
        executor = StreamFlowExecutor(b.workflow)
        task = asyncio.ensure_future(executor.run())
        if driver is not None:
            await driver(st, task)
        try:
            if stall:
                await _watch(task, st, stall)
            await task
            obs["outcome"] = "return"
        except Stalled:
            obs["outcome"] = "hang"
            obs["error"] = "no event and no CPU activity for %.0fs" % stall
            task.cancel()
            try:
                await task
            except BaseException:
                pass
        except asyncio.CancelledError:
            raise
        except BaseException as e:  # the engine's verdict on the run
            obs["outcome"] = "raise"
            obs["error"] = "%s: %s" % (type(e).__name__, str(e)[:300])
        obs["steps"] = {s.name: s.status.name for s in b.workflow.steps.values()}
        obs["outputs"] = read_outputs(b)
        fmgr = context.failure_manager
        obs["versions"] = {k: v.version for k, v in getattr(fmgr, "_retry_requests", {}).items()}
        # rows of the `execution` table per job (all workflows of the run)
        obs["exec_rows"] = await _exec_rows(context)
    finally:
        if unhook:
            unhook()
        try:
            await context.deployment_manager.undeploy_all()
        finally:
            await context.close()
    obs["attempts"] = {"%s|%s" % k: v for k, v in st.attempts.items()}
    obs["completed"] = dict(st.completed)
    obs["injected"] = {"%s|%s" % k: v for k, v in st.injected.items()}
    obs["natural"] = {"%s|%s" % k: v for k, v in st.natural.items()}
    obs["left"] = {"%s|%s" % k: v[1] for k, v in st.remaining.items() if v[1] > 0}
    obs["events"] = st.events
    obs["wipes"] = st.wipes
    obs["hist"] = list(st.ser.hist) if st.ser else None
    obs["script_failed"] = st.script_failed
    obs["harness_errors"] = list(st.harness_errors)
    return obs


async def _exec_rows(context):
    rows = {}
    db = context.database
    async with db.connection as conn:
        async with conn.execute("SELECT job_token FROM execution") as cur:
            ids = [r[0] for r in await cur.fetchall()]
    for tid in ids:
        row = await db.get_token(tid)
        name = row["value"]["job"]["params"]["name"] if isinstance(row["value"], dict) else None
        rows[name] = rows.get(name, 0) + 1
    return rows


# --------------------------------------------------------------------------------------------------
# C19: observing and steering the sections of RollbackFailureManager._recover
# --------------------------------------------------------------------------------------------------

def conc_hooks(park_built=(), park_sync=()):
    """Returns a `hooks(context, st)` callable for run_plan: wraps _recover (entry/exit events), ProvenanceGraph.
    build_graph (event + optional gate AFTER the graph is built, i.e. between BuildGraph and AcquireLocks) and
    _synchronize_workflows (event with the attach/rollback decision taken for every request; optional gate BEFORE
    it, i.e. after the locks are held).  Gates are named "built:<job>" / "sync:<job>"; only names listed park."""
    import contextvars
    cur = contextvars.ContextVar("recov_failed_job", default=None)
    park_built, park_sync = set(park_built), set(park_sync)

    def hooks(context, st):
        import streamflow.recovery.failure_manager as fmm
        import streamflow.recovery.utils as ru
        from streamflow.core.workflow import Status
        cls = fmm.RollbackFailureManager
        o_rec, o_sync, o_build = cls._recover, cls._synchronize_workflows, fmm.ProvenanceGraph.build_graph
        nrec = {}
        wf_of = {}      # id(recovery workflow) -> failed job whose _recover created it (the workflows stay referenced by the requests)

        async def _recover(self, failed_job, failed_step):
            nrec[failed_job.name] = nrec.get(failed_job.name, 0) + 1
            tok = cur.set(failed_job.name)
            st.ev("rec_begin", job=failed_job.name, step=failed_step.name)
            try:
                r = await o_rec(self, failed_job, failed_step)
                st.ev("rec_end", job=failed_job.name, ok=True)
                return r
            except BaseException as e:
                st.ev("rec_end", job=failed_job.name, ok=False, err="%s: %s" % (type(e).__name__, str(e)[:120]))
                raise
            finally:
                cur.reset(tok)

        async def build_graph(self, inputs):
            r = await o_build(self, inputs)
            name = cur.get()
            jobs = sorted({t.instance.value.name for t in self.info_tokens.values() if isinstance(t.instance, JobToken)})
            st.ev("built", job=name, jobs=jobs,
                  statuses={j: context.scheduler.get_allocation(j).status.name for j in jobs})
            if name in park_built and st.gates is not None:
                await st.gates.wait("built:%s" % name)
            return r

        async def _sync(self, failed_job, job_tokens, mapper, retry_requests, workflow):
            if failed_job in park_sync and st.gates is not None:
                await st.gates.wait("sync:%s" % failed_job)
            dec = {}
            for rq in retry_requests:
                dec[rq.name] = "attach" if await self.is_recovering(rq.name) else "rollback"
            # which recovery (failed job) owns the workflow that is regenerating every job this one attaches to
            wf_of[id(workflow)] = failed_job
            owners = {rq.name: wf_of.get(id(rq.workflow)) for rq in retry_requests if dec[rq.name] == "attach"}
            targets = {rq.name: rq.workflow for rq in retry_requests if dec[rq.name] == "attach"}
            st.ev("sync", job=failed_job, decisions=dec, owners=owners)
            try:
                r = await o_sync(self, failed_job, job_tokens, mapper, retry_requests, workflow)
            except BaseException as e:
                st.ev("sync_end", job=failed_job, ok=False, err="%s: %s" % (type(e).__name__, str(e)[:120]))
                raise
            # the boundaries that now lead from the owners' workflows into this recovery workflow
            links = {}
            for name, wf in targets.items():
                links[name] = sorted(pn for pn, port in (wf.ports.items() if wf is not None else ())
                                     if any(getattr(bd.port, "workflow", None) is workflow for bd in getattr(port, "boundaries", ())))
            st.ev("sync_end", job=failed_job, ok=True, links=links)
            return r

        cls._recover, cls._synchronize_workflows, fmm.ProvenanceGraph.build_graph = _recover, _sync, build_graph
        ru.ProvenanceGraph.build_graph = build_graph

        def unhook():
            cls._recover, cls._synchronize_workflows = o_rec, o_sync
            fmm.ProvenanceGraph.build_graph = o_build
            ru.ProvenanceGraph.build_graph = o_build
        return unhook
    return hooks


async def script_driver(st, task, script, settle_s=0.02, step_timeout=20.0):
    """Drive a gated run: `script` is a list of gate names to open in order; before opening a gate the driver waits
    until it is parked.  Stops early (without error) if the run ends or a gate never parks (recorded in st.events)."""
    import time
    for name in script:
        t0 = time.monotonic()
        only_wait = name.startswith("park:")        # "park:<gate>": wait until the gate is parked, do not open it
        if only_wait:
            name = name[5:]
        while not st.gates.is_parked(name):
            if task.done():
                st.ev("driver_stop", why="run ended before %s" % name)
                return
            if time.monotonic() - t0 > step_timeout:
                st.ev("driver_stop", why="gate %s never parked" % name, parked=st.gates.pending())
                st.script_failed = name
                g, st.gates = st.gates, None
                for nm in g.pending():
                    while g.open(nm):
                        pass
                return
            await asyncio.sleep(settle_s)
        # let everything else that can run, run, before the gate opens (the order is then exactly the script's)
        for _ in range(3):
            await asyncio.sleep(settle_s)
        if only_wait:
            continue
        mark = st.seq
        st.ev("open", gate=name)
        st.gates.open(name)
        # the model's action is complete only when its effect is visible: Synchronize has taken its decision / the
        # job's scheduler status has left RUNNING (COMPLETED for a regenerated producer, RECOVERY for a failing job)
        t0 = time.monotonic()
        kind, _, jname = name.partition(":")
        while time.monotonic() - t0 < step_timeout and not task.done():
            if kind == "built":
                if any(e["ev"] == "sync" and e["job"] == jname and e["n"] > mark for e in st.events):
                    break
            elif kind == "exec" and st.context is not None:
                alloc = st.context.scheduler.job_allocations.get(jname)
                if alloc is not None and alloc.status.name != "RUNNING":
                    break
            elif kind == "sched" and st.context is not None:
                alloc = st.context.scheduler.job_allocations.get(jname)
                if st.gates.is_parked("exec:" + jname) or (alloc is not None and alloc.status.name != "FIREABLE"):
                    break
            else:
                break
            await asyncio.sleep(settle_s)
    # the scripted prefix is over: everything else runs free
    g, st.gates = st.gates, None
    for name in g.pending():
        while g.open(name):
            pass
    st.ev("driver_done")
