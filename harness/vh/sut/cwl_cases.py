"""Hand-written CWLSemantics programs: one minimal program per corner of the semantics (so that every
class a known finding is listed for is exercised in every run, deterministically) and a few patterns
taken from real workflows / the CWL conformance suite.  Their expected outputs are NOT written here:
TLC evaluates them with the module (Query_CWLSemantics) like the generated ones.
"""
from __future__ import annotations

from .cwl_render import NONE, mk_bind as B, mk_prog as PR, mk_step as S


def cases():
    c = {}
    A2, A3, E = [1, 2], [1, 2, 3], []
    T = [10, 20]
    # --- pickValue applied to one list-valued source
    c["pv-first-1src-allnull"] = PR([1, [None, None], T], [S("id", [B("x", "i2", pv="first_non_null")])])
    c["pv-first-1src"] = PR([1, [None, 3], T], [S("id", [B("x", "i2", pv="first_non_null")])])
    c["pv-only-1src-two"] = PR([1, A2, T], [S("id", [B("x", "i2", pv="the_only_non_null")])])
    c["pv-all-1src"] = PR([1, [1, None, 3], T], [S("id", [B("x", "i2", pv="all_non_null")])])
    c["pv-all-1src-out"] = PR([1, [1, None, 3], T], [S("id", [B("x", "i2")])], outs=[B("o", "s1", pv="all_non_null")])
    c["pv-first-1src-out"] = PR([1, [None, 3], T], [S("id", [B("x", "i2")])], outs=[B("o", "s1", pv="first_non_null")])
    # --- linkMerge with one source
    c["nested-1src"] = PR([1, A2, T], [S("id", [B("x", "i3", lm="merge_nested")])])
    c["nested-1src-scalar"] = PR([1, A2, T], [S("id", [B("x", "i1", lm="merge_nested")])])
    c["nested-1src-only"] = PR([1, A2, T], [S("id", [B("x", "i3", lm="merge_nested", pv="the_only_non_null")])])
    c["flattened-1src"] = PR([1, A2, T], [S("id", [B("x", "i3", lm="merge_flattened")])])
    c["nested-1src-out"] = PR([1, A2, T], [S("id", [B("x", "i3")])], outs=[B("o", "s1", lm="merge_nested")])
    # --- several sources
    c["merge-nested-2"] = PR([1, A2, T], [S("id", [B("x", ["i2", "i1", "i3"], lm="merge_nested")])])
    c["merge-flattened-3"] = PR([1, A2, T], [S("id", [B("x", ["i3", "i1", "i2"], lm="merge_flattened")])])
    c["merge-flattened-nested"] = PR([1, [[1], [2, 3]], T], [S("id", [B("x", ["i2", "i3"], lm="merge_flattened")])])
    c["pick-first-2"] = PR([None, A2, T], [S("id", [B("x", ["i1", "i3"], pv="first_non_null")])])
    c["pick-first-falsy"] = PR([1, E, T], [S("id", [B("x", ["i2", "i1"], pv="first_non_null")])])   # [] is not null
    c["pick-only-fail"] = PR([1, A2, T], [S("id", [B("x", ["i1", "i3"], pv="the_only_non_null")])])
    c["pick-all-flattened"] = PR([None, A2, T], [S("id", [B("x", ["i3", "i1", "i2"], lm="merge_flattened", pv="all_non_null")])])
    c["dup-source-out"] = PR([1, A2, T], [S("id", [B("x", "i1")])], outs=[B("o", ["s1", "s1"])])
    c["dup-source-in"] = PR([1, A2, T], [S("id", [B("x", ["i1", "i1"])])])
    # --- scatter
    c["dot-unequal"] = PR([1, A3, T], [S("add", [B("x", "i2"), B("y", "i3")], sc=["x", "y"], method="dotproduct")])
    c["dot-unequal-empty"] = PR([1, E, T], [S("add", [B("x", "i2"), B("y", "i3")], sc=["x", "y"], method="dotproduct")])
    c["dot-empty"] = PR([1, E, E], [S("pair", [B("x", "i2"), B("y", "i3")], sc=["x", "y"], method="dotproduct")])
    c["dot-ok"] = PR([1, A2, T], [S("add", [B("x", "i2"), B("y", "i3")], sc=["x", "y"], method="dotproduct")])
    c["scatter-null"] = PR([None, E, T], [S("id", [B("x", "i1")], sc=["x"])])
    c["scatter-int"] = PR([1, E, T], [S("id", [B("x", "i1")], sc=["x"])])
    c["single-empty"] = PR([1, E, T], [S("id", [B("x", "i2")], sc=["x"])])
    c["nested-empty-both"] = PR([1, E, E], [S("pair", [B("x", "i2"), B("y", "i3")], sc=["x", "y"], method="nested_crossproduct")])
    c["nested-empty-outer"] = PR([1, E, T], [S("pair", [B("x", "i2"), B("y", "i3")], sc=["x", "y"], method="nested_crossproduct")])
    c["nested-empty-inner"] = PR([1, A2, E], [S("pair", [B("x", "i2"), B("y", "i3")], sc=["x", "y"], method="nested_crossproduct")])
    c["nested-ok"] = PR([1, A3, T], [S("pair", [B("x", "i2"), B("y", "i3")], sc=["y", "x"], method="nested_crossproduct")])
    c["flat-empty-inner"] = PR([1, A2, E], [S("pair", [B("x", "i2"), B("y", "i3")], sc=["x", "y"], method="flat_crossproduct")])
    c["flat-empty-outer"] = PR([1, E, T], [S("pair", [B("x", "i2"), B("y", "i3")], sc=["x", "y"], method="flat_crossproduct")])
    c["flat-ok"] = PR([1, A3, T], [S("pair", [B("x", "i2"), B("y", "i3")], sc=["x", "y"], method="flat_crossproduct")])
    c["flat-3"] = PR([1, A2, T], [S("pair", [B("x", "i2"), B("y", "i3"), B("e", "i2")], sc=["x", "y", "e"], method="flat_crossproduct")])
    c["nested-3"] = PR([1, A2, T], [S("pair", [B("x", "i2"), B("y", "i3"), B("e", "i2")], sc=["x", "y", "e"], method="nested_crossproduct")])
    # --- conditionals (patterns of the conformance suite: cond-wf-003 .. 011)
    c["cond-skip"] = PR([1, A2, T], [S("inc", [B("x", "i1")], when=("pos", "x"))])
    c["cond-first-non-null"] = PR([1, A2, T], [S("inc", [B("x", "i1")], when=("pos", "x")), S("id", [B("x", "i1")])],
                                  outs=[B("o", ["s1", "s2"], pv="first_non_null")])
    c["cond-only-non-null-two"] = PR([2, A2, T], [S("inc", [B("x", "i1")], when=("pos", "x")), S("id", [B("x", "i1")])],
                                     outs=[B("o", ["s1", "s2"], pv="the_only_non_null")])
    c["cond-all-null"] = PR([1, A2, T], [S("inc", [B("x", "i1")], when=("no", "x")), S("id", [B("x", "i1")], when=("pos", "x"))],
                            outs=[B("o", ["s1", "s2"], pv="first_non_null")])
    c["cond-scatter-all-non-null"] = PR([1, A3, T], [S("inc", [B("x", "i2")], sc=["x"], when=("pos", "x"))],
                                        outs=[B("o", "s1"), B("o", "s1", pv="all_non_null")])
    c["cond-scatter-downstream"] = PR([1, A3, T], [S("inc", [B("x", "i2")], sc=["x"], when=("pos", "x")),
                                                  S("pair", [B("x", "i2"), B("y", "s1")])], outs=[B("o", "s2")])
    c["tool-default-when"] = PR([None, A3, T], [S("incd", [B("x", "i1")], when=("nn", "x"))])
    c["cond-extra-input"] = PR([3, A2, T], [S("inc", [B("x", "i1"), B("e", "i2", vf="null")], when=("nn", "e"))])
    c["cond-default-after-skip"] = PR([1, A2, T], [S("inc", [B("x", "i1")], when=("no", "x")), S("inc", [B("x", "s1", df=7)])])
    c["when-not-boolean"] = PR([1, A2, T], [S("inc", [B("x", "i1")], when=("bad", "x"))])
    # --- valueFrom / defaults
    c["valuefrom-scatter"] = PR([1, A3, T], [S("inc", [B("x", "i2", vf="inc")], sc=["x"])])
    c["valuefrom-inputs"] = PR([1, A3, T], [S("pair", [B("x", "i1", vf="seven"), B("y", "i3", vf="inx")])])
    c["default-no-source"] = PR([1, A3, T], [S("inc", [B("x", [], df=7)])])
    c["input-default"] = PR([NONE, A3, T], [S("inc", [B("x", "i1")])], indf=5)
    c["input-default-null"] = PR([None, A3, T], [S("incd", [B("x", "i1")])])
    c["type-error"] = PR([1, A3, T], [S("inc", [B("x", "i2")])])
    # --- subworkflows, chains
    c["sub-chain"] = PR([1, A3, T], [S("sub_scat", [B("x", "i2")]), S("sum", [B("x", "s1")]), S("sub_inc2", [B("x", "s2")])])
    c["sub-cond-scatter"] = PR([1, A3, T], [S("sub_cond", [B("x", "i2")], sc=["x"])])
    c["scatter-gather"] = PR([1, A3, T], [S("inc", [B("x", "i2")], sc=["x"]), S("nullodd", [B("x", "s1")], sc=["x"]),
                                          S("len", [B("x", "s2", pv="all_non_null")])])
    # --- loops
    c["loop-last"] = PR([1, A3, T], [S("inc", [B("x", "i1")], loop=("last", 5, "none"))])
    c["loop-all"] = PR([1, A3, T], [S("inc", [B("x", "i1")], loop=("all", 5, "none"))])
    c["loop-zero-last"] = PR([7, A3, T], [S("inc", [B("x", "i1")], loop=("last", 5, "none"))])
    c["loop-zero-all"] = PR([7, A3, T], [S("inc", [B("x", "i1")], loop=("all", 5, "none"))])
    c["loop-valuefrom"] = PR([1, A3, T], [S("id", [B("x", "i1")], loop=("all", 4, "inc")), S("sum", [B("x", "s1")])])
    c["loop-sub"] = PR([1, A3, T], [S("sub_inc2", [B("x", "i1")], loop=("all", 5, "none"))])
    # --- dead ends: a step none of whose outputs reaches a workflow output
    c["dead-end-fast"] = PR([1, A2, T], [S("id", [B("x", "i1")]), S("inc", [B("x", "i1")])], outs=[B("o", "s2")])
    c["dead-end-slow"] = PR([1, A2, T], [S("slow", [B("x", "i1")]), S("inc", [B("x", "i1")])], outs=[B("o", "s2")])
    c["slow-used"] = PR([1, A2, T], [S("slow", [B("x", "i1")]), S("inc", [B("x", "s1")])])
    return c
