"""Rendering of CWLSemantics programs (records emitted by TLC as JSON) to CWL v1.2 documents.

A program is `{"ins": [v1, v2, v3], "indf": [d1, none, none], "steps": [...], "outs": [...]}` with values
encoded as tagged records (`{"t": "int", "v": 3}`, `{"t": "null"}`, `{"t": "arr", "v": [...]}`,
`{"t": "str", "v": "s1"}`, `{"t": "none"}` = absent).  The JavaScript below is the concrete syntax of the
abstract tool / valueFrom / when libraries of specs/CWLSemantics/CWLSemantics.tla.
"""
from __future__ import annotations

import json

ANYQ = ["null", "Any"]
ANYQ_ARR = {"type": "array", "items": ["null", "Any"]}

REQS = [{"class": "InlineJavascriptRequirement"}, {"class": "ScatterFeatureRequirement"},
        {"class": "StepInputExpressionRequirement"}, {"class": "MultipleInputFeatureRequirement"},
        {"class": "SubworkflowFeatureRequirement"}]


def decode(v):
    """tagged record -> python value (absent -> KeyError-like marker None is NOT used: caller checks t)."""
    t = v["t"]
    if t == "null":
        return None
    if t in ("int", "str", "bool"):
        return v["v"]
    if t == "arr":
        return [decode(x) for x in v["v"]]
    raise ValueError("cannot decode %r" % (v,))


def absent(v):
    return v["t"] == "none"


# ---- tool library ----------------------------------------------------------------------------
def _etool(inputs, expr, out_type=None):
    return {"class": "ExpressionTool", "requirements": [{"class": "InlineJavascriptRequirement"}],
            "inputs": inputs, "outputs": {"o": {"type": out_type or ANYQ}}, "expression": expr}


def tool(name):
    if name == "id":
        return _etool({"x": {"type": ANYQ}}, '${return {"o": inputs.x};}')
    if name == "inc":
        return _etool({"x": {"type": "int"}}, '${return {"o": inputs.x + 1};}')
    if name == "incd":
        return _etool({"x": {"type": ["null", "int"], "default": 10}}, '${return {"o": inputs.x + 1};}')
    if name == "nullodd":
        return _etool({"x": {"type": "int"}}, '${return {"o": (inputs.x % 2 == 1) ? null : inputs.x};}')
    if name == "sum":
        return _etool({"x": {"type": {"type": "array", "items": "int"}}},
                      '${var s = 0; for (var i = 0; i < inputs.x.length; i++) { s += inputs.x[i]; } return {"o": s};}')
    if name == "len":
        return _etool({"x": {"type": ANYQ_ARR}}, '${return {"o": inputs.x.length};}')
    if name == "tostr":
        return _etool({"x": {"type": "int"}}, '${return {"o": "s" + inputs.x};}')
    if name == "add":
        return _etool({"x": {"type": "int"}, "y": {"type": "int"}}, '${return {"o": inputs.x + inputs.y};}')
    if name == "pair":
        return _etool({"x": {"type": ANYQ}, "y": {"type": ANYQ}}, '${return {"o": [inputs.x, inputs.y]};}')
    if name == "slow":
        # a CommandLineTool that takes a second and returns 1: the only process that is not instantaneous
        return {"class": "CommandLineTool", "requirements": [{"class": "InlineJavascriptRequirement"}],
                "baseCommand": ["sleep", "1"], "inputs": {"x": {"type": ANYQ}},
                "outputs": {"o": {"type": "int", "outputBinding": {"outputEval": "$(1)"}}}}
    if name in SUBLIB:
        return workflow(SUBLIB[name], top=False)
    raise ValueError("unknown tool %s" % name)


def tool_inputs(name):
    return ["x", "y"] if name in ("add", "pair") else ["x"]


# the subworkflow library: must be the same as SubLib in CWLSemantics.tla
def _plain(n, s):
    return {"name": n, "src": [s], "lm": "none", "pv": "none", "df": {"t": "none"}, "vf": "none"}


def _simple(t, s, **kw):
    st = {"tool": t, "in": [_plain("x", s)], "sc": [], "method": "none", "when": {"k": "none", "n": "x"},
          "lp": {"k": "none", "lt": 0, "vf": "none"}}
    st.update(kw)
    return st


def _out(ss, lm, pv):
    return {"name": "o", "src": ss, "lm": lm, "pv": pv, "df": {"t": "none"}, "vf": "none"}


_IN1 = {"k": "in", "i": 1}
_S1 = {"k": "step", "i": 1}
_S2 = {"k": "step", "i": 2}
SUBLIB = {
    "sub_inc2": {"steps": [_simple("inc", _IN1), _simple("inc", _S1)], "outs": [_out([_S2], "none", "none")]},
    "sub_cond": {"steps": [_simple("id", _IN1, when={"k": "pos", "n": "x"})],
                 "outs": [_out([_S1, _IN1], "merge_nested", "all_non_null")]},
    "sub_scat": {"steps": [_simple("nullodd", _IN1, sc=["x"], method="dotproduct")],
                 "outs": [_out([_S1], "none", "all_non_null")]},
}

# ---- expression libraries -----------------------------------------------------------------------
VF = {
    "inc": "$(typeof self === 'number' ? self + 1 : self)",
    "wrap": "$([self])",
    "null": "$(null)",
    "seven": "$(7)",
    "inx": "$(inputs.x)",
}


def when_expr(w):
    n = w["n"]
    return {"pos": "$(typeof inputs.%s === 'number' && inputs.%s > 1)" % (n, n),
            "nn": "$(inputs.%s != null)" % n,      # loose: an absent optional input is `undefined` in cwltool
            "no": "$(false)",
            "bad": "$(1)"}[w["k"]]


# ---- documents ----------------------------------------------------------------------------------
def _src_name(s, top):
    if s["k"] == "in":
        return ("i%d" % s["i"]) if top else "x"
    return "s%d/o" % s["i"]


def _link(b, top, field):
    d = {}
    srcs = [_src_name(s, top) for s in b["src"]]
    if len(srcs) == 1 and b["lm"] == "none":
        d[field] = srcs[0]
    elif srcs:
        d[field] = srcs
    if b["lm"] != "none":
        d["linkMerge"] = b["lm"]
    if b["pv"] != "none":
        d["pickValue"] = b["pv"]
    return d


def step(st, top):
    d = {"run": tool(st["tool"]), "in": {}, "out": ["o"]}
    for b in st["in"]:
        e = _link(b, top, "source")
        if not absent(b["df"]):
            e["default"] = decode(b["df"])
        if b["vf"] != "none":
            e["valueFrom"] = VF[b["vf"]]
        d["in"][b["name"]] = e
    if st["sc"]:
        d["scatter"] = list(st["sc"]) if len(st["sc"]) > 1 else st["sc"][0]
        if st["method"] != "none":
            d["scatterMethod"] = st["method"]
    if st["when"]["k"] != "none":
        d["when"] = when_expr(st["when"])
    lp = st["lp"]
    if lp["k"] != "none":
        loop_in = "o" if lp["vf"] == "none" else {"loopSource": "o", "valueFrom": VF[lp["vf"]]}
        d["requirements"] = [{"class": "cwltool:Loop",
                              "loopWhen": "$(typeof inputs.x === 'number' && inputs.x < %d)" % lp["lt"],
                              "loop": {"x": loop_in},
                              "outputMethod": lp["k"]}]
    return d


def workflow(p, top=True):
    wf = {"class": "Workflow", "requirements": list(REQS), "inputs": {}, "outputs": {}, "steps": {}}
    if top:
        wf["cwlVersion"] = "v1.2"
        wf["$namespaces"] = {"cwltool": "http://commonwl.org/cwltool#"}
        for i in range(3):
            e = {"type": ANYQ}
            if not absent(p["indf"][i]):
                e["default"] = decode(p["indf"][i])
            wf["inputs"]["i%d" % (i + 1)] = e
    else:
        wf["inputs"]["x"] = {"type": ANYQ}
    for j, st in enumerate(p["steps"]):
        wf["steps"]["s%d" % (j + 1)] = step(st, top)
    for k, o in enumerate(p["outs"]):
        e = {"type": ANYQ}
        e.update(_link(o, top, "outputSource"))
        wf["outputs"][("o%d" % (k + 1)) if top else "o"] = e
    return wf


def job(p):
    return {"i%d" % (i + 1): decode(v) for i, v in enumerate(p["ins"]) if not absent(v)}


def expected_object(exp):
    """TLC's answer -> None (fail) or the output object."""
    if exp["fail"]:
        return None
    return {"o%d" % (k + 1): decode(v) for k, v in enumerate(exp["outs"])}


def uses_loop(p):
    return any(st["lp"]["k"] != "none" for st in p["steps"])


# ---- classification ---------------------------------------------------------------------------------
def reachable_steps(p):
    """indices (1-based) of the steps from which a workflow output is reachable."""
    seen = set()
    todo = [s["i"] for o in p["outs"] for s in o["src"] if s["k"] == "step"]
    while todo:
        j = todo.pop()
        if j in seen:
            continue
        seen.add(j)
        for b in p["steps"][j - 1]["in"]:
            todo += [s["i"] for s in b["src"] if s["k"] == "step"]
    return seen


def dead_end_steps(p):
    r = reachable_steps(p)
    return [j for j in range(1, len(p["steps"]) + 1) if j not in r]


def features(p):
    """The feature classes of a program (used for stratified selection and violation signatures)."""
    f = set()
    for st in p["steps"]:
        t = st["tool"]
        if t.startswith("sub_"):
            f.add("subworkflow=" + t[4:])
        if t == "slow":
            f.add("tool=slow")
        if st["sc"]:
            f.add("scatter=%s%s" % (st["method"] if st["method"] != "none" else "single",
                                   len(st["sc"]) if len(st["sc"]) > 2 else ""))
        if st["when"]["k"] != "none":
            f.add("when=" + st["when"]["k"])
        if st["lp"]["k"] != "none":
            f.add("loop=" + st["lp"]["k"] + ("+valueFrom" if st["lp"]["vf"] != "none" else ""))
        if len(st["in"]) > len(tool_inputs(t)):
            f.add("extra-input")
        for b in st["in"]:
            _bind_features(f, b, "")
    for o in p["outs"]:
        _bind_features(f, o, "out-")
    if dead_end_steps(p):
        f.add("unused-step")
    if not absent(p["indf"][0]) and (absent(p["ins"][0]) or p["ins"][0]["t"] == "null"):
        f.add("input-default")
    return sorted(f)


def _bind_features(f, b, pre):
    n = len(b["src"])
    if b["lm"] != "none":
        f.add("%slinkMerge=%s%s" % (pre, b["lm"], "(1 source)" if n == 1 else ""))
    elif n > 1:
        f.add(pre + "multi-source")
    if b["pv"] != "none":
        f.add("%spickValue=%s%s" % (pre, b["pv"], "(1 source)" if n == 1 and b["lm"] == "none" else ""))
    if not absent(b["df"]):
        f.add(pre + "default" + ("(no source)" if n == 0 else ""))
    if b["vf"] != "none":
        f.add("valueFrom=" + b["vf"] + ("(no source)" if n == 0 else ""))


def dumps(x):
    return json.dumps(x, indent=1, sort_keys=True)


# ---- constructors for hand-written programs (regression set, reproductions) -----------------------
def enc(v):
    """python value -> tagged record"""
    if v is None:
        return {"t": "null"}
    if isinstance(v, bool):
        return {"t": "bool", "v": v}
    if isinstance(v, int):
        return {"t": "int", "v": v}
    if isinstance(v, str):
        return {"t": "str", "v": v}
    if isinstance(v, (list, tuple)):
        return {"t": "arr", "v": [enc(x) for x in v]}
    raise ValueError(v)


NONE = {"t": "none"}


def src(s):
    """'i2' -> workflow input 2, 's1' -> output of step 1"""
    return {"k": "in" if s[0] == "i" else "step", "i": int(s[1:])}


def mk_bind(name, srcs, lm="none", pv="none", df=NONE, vf="none"):
    srcs = [srcs] if isinstance(srcs, str) else list(srcs)
    return {"name": name, "src": [src(s) for s in srcs], "lm": lm, "pv": pv,
            "df": df if isinstance(df, dict) else enc(df), "vf": vf}


def mk_step(tool_name, binds, sc=(), method="none", when=None, loop=None):
    return {"tool": tool_name, "in": list(binds), "sc": list(sc), "method": method,
            "when": {"k": when[0], "n": when[1]} if when else {"k": "none", "n": "x"},
            "lp": {"k": loop[0], "lt": loop[1], "vf": loop[2]} if loop else {"k": "none", "lt": 0, "vf": "none"}}


def mk_prog(ins, steps, outs=None, indf=None):
    """ins: three python values (or NONE); outs: list of mk_bind('o', ...) (default: every step)."""
    outs = outs if outs is not None else [mk_bind("o", "s%d" % (j + 1)) for j in range(len(steps))]
    return {"top": True, "ins": [v if isinstance(v, dict) and v.get("t") == "none" else enc(v) for v in ins],
            "indf": [NONE if indf is None else enc(indf), NONE, NONE], "steps": list(steps), "outs": outs}
