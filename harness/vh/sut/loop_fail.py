"""C04 for loops (module LoopFail): real loop workflows whose body has a job that fails unrecoverably.

`run_failing_loop(...)` builds a loop network out of the engine's own step types (DeployStep, ScheduleStep,
TransferStep, ExecuteStep, ForwardTransformer, LoopCombinatorStep, a ConditionalStep, LoopOutputStep,
CombinatorStep + LoopTerminationCombinator), wired as the CWL translator / tests/utils/workflow.py
(RecoveryTranslator.get_input_loop/get_output_loop) wire it, runs it with StreamFlowExecutor under a watchdog
with the default (dummy) failure manager = no recovery, and returns what happened.

`check_failing_loops(ctx, focus="C04")` is the entry point for harness/vh/props/C04.py: it model-checks
specs/Loop/LoopFail.tla and compares a handful of real scenarios with what the model proves (the executor
raises, every step terminates, nothing hangs).  Observations only become verdicts there.
"""
from __future__ import annotations

import asyncio
import contextlib
import os
import posixpath
import tempfile

from .. import aio

TERMINAL = ("COMPLETED", "SKIPPED", "FAILED", "CANCELLED")


# ------------------------------------------------------------------------------------------------------
# engine-level loop builder (classes are created lazily: nothing of StreamFlow is imported at module import)

def _classes():
    from streamflow.core.utils import get_entity_ids, get_job_tag, get_tag
    from streamflow.core.workflow import Command, CommandOutput, Status, Token
    from streamflow.workflow.step import ConditionalStep, LoopOutputStep, TransferStep
    from streamflow.workflow.token import IterationTerminationToken, ListToken

    class BodyCommand(Command):
        """x -> x + 1 (output o1) / x*100+7 (other outputs); FAILED command output for the tags in fail_tags."""

        def __init__(self, step, out, fail_tags=(), raise_exc=False):
            super().__init__(step)
            self.out = out
            self.fail_tags = set(fail_tags)
            self.raise_exc = raise_exc

        async def execute(self, job):
            await asyncio.sleep(0)
            if get_job_tag(job.name) in self.fail_tags:
                if self.raise_exc:
                    raise RuntimeError("Injected failure")
                return CommandOutput("Injected failure", Status.FAILED)
            x = job.inputs["x"].value
            return CommandOutput(x + 1 if self.out == "o1" else x * 100 + 7, Status.COMPLETED)

    class PassThroughTransferStep(TransferStep):
        async def transfer(self, job, token):
            return token.update(token.value)

    class LoopWhenStep(ConditionalStep):
        def __init__(self, name, workflow, limit):
            super().__init__(name, workflow)
            self.limit = limit
            self.skip_ports = {}

        def add_skip_port(self, name, port):
            self.skip_ports[name] = port.name

        async def _eval(self, inputs):
            return inputs["x"].value < self.limit

        async def _on_true(self, inputs):
            for port_name, port in self.get_output_ports().items():
                port.put(await self._persist_token(token=inputs[port_name].update(inputs[port_name].value), port=port,
                                                   input_token_ids=get_entity_ids(inputs.values())))

        async def _on_false(self, inputs):
            for port_name in self.skip_ports.values():
                self.workflow.ports[port_name].put(IterationTerminationToken(tag=get_tag(inputs.values())))

    class LoopOutputLastStep(LoopOutputStep):
        async def _process_output(self, tag):
            return sorted(self.token_map.get(tag, [Token(value=None)]),
                          key=lambda t: int(t.tag.split(".")[-1]))[-1].retag(tag=tag)

    class LoopOutputAllStep(LoopOutputStep):
        async def _process_output(self, tag):
            return ListToken(tag=tag, value=sorted(self.token_map.get(tag, []), key=lambda t: int(t.tag.split(".")[-1])))

    return BodyCommand, PassThroughTransferStep, LoopWhenStep, LoopOutputLastStep, LoopOutputAllStep


LIM = 40


def _build(context, deployment_config, counts, scatter, outs, fail, with_outputs, method, raise_exc):
    from streamflow.core import utils
    from streamflow.core.config import BindingConfig
    from streamflow.core.deployment import Target
    from streamflow.core.workflow import Token, Workflow
    from streamflow.cwl.transformer import ForwardTransformer
    from streamflow.workflow.combinator import LoopCombinator, LoopTerminationCombinator
    from streamflow.workflow.step import CombinatorStep, DeployStep, ExecuteStep, LoopCombinatorStep, ScheduleStep
    from streamflow.workflow.token import TerminationToken
    BodyCommand, PassThroughTransferStep, LoopWhenStep, LoopOutputLastStep, LoopOutputAllStep = _classes()

    wf = Workflow(context=context, name=utils.random_name(), config={})
    kinds = {}
    deploy = wf.create_step(cls=DeployStep, name=posixpath.join("__deploy__", deployment_config.name),
                            deployment_config=deployment_config)
    kinds[deploy.name] = "deploy"
    in_port = wf.create_port()
    for j, n in enumerate(counts):
        in_port.put(Token(LIM - n, tag="0.%d" % j if scatter else "0", recoverable=True))
    in_port.put(TerminationToken())

    def forward(name, kind, src, dst=None):
        st = wf.create_step(cls=ForwardTransformer, name=name)
        st.add_input_port("x", src)
        st.add_output_port("x", dst or wf.create_port())
        kinds[st.name] = kind
        return st.get_output_port("x")

    name = "/loop"
    p3 = forward(name + "/x-input-forward-transformer", "in-fwd", in_port)
    comb = LoopCombinator(workflow=wf, name=name + "-loop-combinator")
    comb.add_item("x")
    lc = wf.create_step(cls=LoopCombinatorStep, name=name + "-loop-combinator", combinator=comb)
    lc.add_input_port("x", p3)
    lc.add_output_port("x", wf.create_port())
    kinds[lc.name] = "loop-combinator"
    cd = wf.create_step(cls=LoopWhenStep, name=name + "-loop-when", limit=LIM)
    cd.add_input_port("x", lc.get_output_port("x"))
    cd.add_output_port("x", wf.create_port())
    kinds[cd.name] = "loop-when"
    p5 = cd.get_output_port("x")
    term = LoopTerminationCombinator(workflow=wf, name=name + "-loop-termination-combinator")
    tm = wf.create_step(cls=CombinatorStep, name=name + "-loop-terminator", combinator=term)
    kinds[tm.name] = "loop-terminator"
    tm.add_output_port("x", p3)
    term.add_output_item("x")
    binding = BindingConfig(targets=[Target(deployment=deploy.deployment_config)])
    for x in outs:
        body = "/loop/body_" + x
        fail_tags = set()
        if fail is not None and fail[0] == x:
            fail_tags.add(("0.%d.%d" % (fail[1], fail[2])) if scatter else ("0.%d" % fail[2]))
        sched = wf.create_step(cls=ScheduleStep, name=posixpath.join(body, "__schedule__"), job_prefix=body,
                               connector_ports={deploy.deployment_config.name: deploy.get_output_port()},
                               binding_config=binding)
        sched.add_input_port("x", p5)
        kinds[sched.name] = "schedule"
        transfer = wf.create_step(cls=PassThroughTransferStep, name=posixpath.join(body, "__transfer__", "x"),
                                  job_port=sched.get_output_port())
        transfer.add_input_port("x", p5)
        transfer.add_output_port("x", wf.create_port())
        kinds[transfer.name] = "transfer"
        ex = wf.create_step(cls=ExecuteStep, name=body, job_port=sched.get_output_port())
        ex.command = BodyCommand(ex, x, fail_tags, raise_exc)
        ex.add_input_port("x", transfer.get_output_port("x"))
        ex.add_output_port("x", wf.create_port())
        kinds[ex.name] = "execute"
        p8 = forward(name + "/%s-output-forward-transformer" % x, "output-forwarder", ex.get_output_port("x"))
        cd.add_skip_port(x, p8)
        lo = wf.create_step(cls=LoopOutputAllStep if method == "all" else LoopOutputLastStep, name=name + "/%s-loop-output" % x)
        lo.add_input_port(x, p8)
        lo.add_output_port(x, wf.create_port())
        kinds[lo.name] = "loop-output"
        tm.add_input_port(x, lo.get_output_port(x))
        term.add_item(x)
        if with_outputs:
            wf.output_ports[x] = lo.get_output_port(x).name
        if x == "o1":
            forward(name + "/x-back-propagation-transformer", "back-propagation", p8, p3)
    return wf, kinds


async def _run(counts, scatter, outs, fail, with_outputs, method, raise_exc, watchdog, settle_s):
    from streamflow.core.deployment import DeploymentConfig
    from streamflow.workflow.executor import StreamFlowExecutor
    from . import context as sc
    from .loop_sut import DbQuiesce
    workdir = tempfile.mkdtemp(prefix="loopfail_", dir=os.environ.get("VERIF_LOOPFAIL_TMP") or None)
    ctx = sc.build(path=workdir)
    q = DbQuiesce(ctx.database)
    obs = {"outcome": None, "exc": None, "steps": {}, "pending": [], "outputs": None, "build_error": None}
    try:
        dc = DeploymentConfig(name="__LOCAL__", type="local", config={}, external=True, lazy=False, workdir=workdir)
        await ctx.deployment_manager.deploy(dc)
        try:
            wf, kinds = _build(ctx, dc, counts, scatter, outs, fail, with_outputs, method, raise_exc)
            await wf.save(ctx.database)
        except Exception as e:       # noqa: a mutated tree may refuse the wiring: an observation
            obs["build_error"] = "%s: %s" % (type(e).__name__, e)
            return obs
        executor = StreamFlowExecutor(wf)
        run = asyncio.ensure_future(executor.run())
        done, _ = await asyncio.wait({run}, timeout=watchdog)

        def snapshot():
            obs["steps"] = {s.name: {"kind": kinds.get(s.name, "?"), "terminated": bool(s.terminated), "status": s.status.name}
                            for s in wf.steps.values()}
            obs["pending"] = sorted(t.get_name() for t in executor.executions if not t.done())
        if not done:
            obs["outcome"] = "hang"
            snapshot()
            run.cancel()
            await asyncio.gather(run, return_exceptions=True)
        else:
            exc = run.exception() if not run.cancelled() else asyncio.CancelledError()
            if exc is None:
                obs["outcome"] = "returned"
                obs["outputs"] = run.result()
            else:
                obs["outcome"] = "raised"
                obs["exc"] = "%s: %s" % (type(exc).__name__, exc)
            # the executor does not terminate the steps when it raises on a FAILED termination token: let the
            # network run to quiescence (database calls in flight counted, bounded by settle_s), then look
            with contextlib.suppress(TimeoutError):
                await q.settle(rounds=6, watchdog=settle_s)
            snapshot()
            for t in executor.executions:
                if not t.done():
                    t.cancel()
            await asyncio.gather(*executor.executions, return_exceptions=True)
    finally:
        with contextlib.suppress(Exception):
            await ctx.deployment_manager.undeploy_all()
        with contextlib.suppress(Exception):
            await ctx.close()
        import shutil
        shutil.rmtree(workdir, ignore_errors=True)
    return obs


def run_failing_loop(counts, scatter=False, outs=("o1",), fail=None, with_outputs=True, method="last", raise_exc=False,
                     watchdog: float = 30.0, settle_s: float = 10.0):
    """Run one real loop workflow.  counts[j] = iterations of loop instance j (scatter=True: instance tags 0.j);
    fail = (output, instance, iteration) of the body job that fails unrecoverably, or None.
    Returns {"outcome": "raised"|"returned"|"hang", "exc", "steps": {name: {kind, terminated, status}},
             "pending": [names of step tasks that are not done], "outputs", "build_error"}."""
    import logging
    from streamflow.log_handler import logger
    old = logger.level
    logger.setLevel(logging.CRITICAL)
    try:
        res, exc = aio.run(_run(list(counts), scatter, list(outs), fail, with_outputs, method, raise_exc, watchdog, settle_s),
                           timeout=watchdog + settle_s + 60)
    finally:
        logger.setLevel(old)
    if exc is not None:
        return {"outcome": "harness-error", "exc": "%s: %s" % (type(exc).__name__, exc), "steps": {}, "pending": [],
                "outputs": None, "build_error": None}
    return res
