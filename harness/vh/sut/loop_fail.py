"""C04 for loops (module LoopFail): real loop workflows whose body has a job that fails unrecoverably.

`run_failing_loop(...)` builds a loop network out of the engine's own step types (DeployStep, ScheduleStep,
TransferStep, ExecuteStep, ForwardTransformer, LoopCombinatorStep, a ConditionalStep, LoopOutputStep,
CombinatorStep + LoopTerminationCombinator), wired as the CWL translator / tests/utils/workflow.py
(RecoveryTranslator.get_input_loop/get_output_loop) wire it, runs it with StreamFlowExecutor under a watchdog
with the default (dummy) failure manager = no recovery, and returns what happened.

`check_failing_loops(ctx, focus="C04")` is the entry point for harness/vh/props/C04.py: it model-checks
specs/Loop/LoopFail.tla and compares a handful of real scenarios with what the model proves (the executor
raises, every step terminates, nothing hangs).  Observations only become verdicts there.
"""
from __future__ import annotations

import asyncio
import contextlib
import os
import posixpath
import tempfile

from .. import aio

TERMINAL = ("COMPLETED", "SKIPPED", "FAILED", "CANCELLED")


# ------------------------------------------------------------------------------------------------------
# engine-level loop builder (classes are created lazily: nothing of StreamFlow is imported at module import)

def _classes():
    from streamflow.core.utils import get_entity_ids, get_job_tag, get_tag
    from streamflow.core.workflow import Command, CommandOutput, Status, Token
    from streamflow.workflow.step import ConditionalStep, LoopOutputStep, TransferStep
    from streamflow.workflow.token import IterationTerminationToken, ListToken

    class BodyCommand(Command):
        """x -> x + 1 (output o1) / x*100+7 (other outputs); FAILED command output for the tags in fail_tags."""

        def __init__(self, step, out, fail_tags=(), raise_exc=False):
            super().__init__(step)
            self.out = out
            self.fail_tags = set(fail_tags)
            self.raise_exc = raise_exc

        async def execute(self, job):
            await asyncio.sleep(0)
            if get_job_tag(job.name) in self.fail_tags:
                if self.raise_exc:
                    raise RuntimeError("Injected failure")
                return CommandOutput("Injected failure", Status.FAILED)
            x = job.inputs["x"].value
            return CommandOutput(x + 1 if self.out == "o1" else x * 100 + 7, Status.COMPLETED)

    class PassThroughTransferStep(TransferStep):
        async def transfer(self, job, token):
            return token.update(token.value)

    class LoopWhenStep(ConditionalStep):
        def __init__(self, name, workflow, limit):
            super().__init__(name, workflow)
            self.limit = limit
            self.skip_ports = {}

        def add_skip_port(self, name, port):
            self.skip_ports[name] = port.name

        async def _eval(self, inputs):
            return inputs["x"].value < self.limit

        async def _on_true(self, inputs):
            for port_name, port in self.get_output_ports().items():
                port.put(await self._persist_token(token=inputs[port_name].update(inputs[port_name].value), port=port,
                                                   input_token_ids=get_entity_ids(inputs.values())))

        async def _on_false(self, inputs):
            for port_name in self.skip_ports.values():
                self.workflow.ports[port_name].put(IterationTerminationToken(tag=get_tag(inputs.values())))

    class LoopOutputLastStep(LoopOutputStep):
        async def _process_output(self, tag):
            return sorted(self.token_map.get(tag, [Token(value=None)]),
                          key=lambda t: int(t.tag.split(".")[-1]))[-1].retag(tag=tag)

    class LoopOutputAllStep(LoopOutputStep):
        async def _process_output(self, tag):
            return ListToken(tag=tag, value=sorted(self.token_map.get(tag, []), key=lambda t: int(t.tag.split(".")[-1])))

    return BodyCommand, PassThroughTransferStep, LoopWhenStep, LoopOutputLastStep, LoopOutputAllStep


LIM = 40


def _build(context, deployment_config, counts, scatter, outs, fail, with_outputs, method, raise_exc):
    from streamflow.core import utils
    from streamflow.core.config import BindingConfig
    from streamflow.core.deployment import Target
    from streamflow.core.workflow import Token, Workflow
    from streamflow.cwl.transformer import ForwardTransformer
    from streamflow.workflow.combinator import LoopCombinator, LoopTerminationCombinator
    from streamflow.workflow.step import CombinatorStep, DeployStep, ExecuteStep, LoopCombinatorStep, ScheduleStep
    from streamflow.workflow.token import TerminationToken
    BodyCommand, PassThroughTransferStep, LoopWhenStep, LoopOutputLastStep, LoopOutputAllStep = _classes()

    wf = Workflow(context=context, name=utils.random_name(), config={})
    kinds = {}
    deploy = wf.create_step(cls=DeployStep, name=posixpath.join("__deploy__", deployment_config.name),
                            deployment_config=deployment_config)
    kinds[deploy.name] = "deploy"
    in_port = wf.create_port()
    for j, n in enumerate(counts):
        in_port.put(Token(LIM - n, tag="0.%d" % j if scatter else "0", recoverable=True))
    in_port.put(TerminationToken())

    def forward(name, kind, src, dst=None):
        st = wf.create_step(cls=ForwardTransformer, name=name)
        st.add_input_port("x", src)
        st.add_output_port("x", dst or wf.create_port())
        kinds[st.name] = kind
        return st.get_output_port("x")

    name = "/loop"
    p3 = forward(name + "/x-input-forward-transformer", "in-fwd", in_port)
    comb = LoopCombinator(workflow=wf, name=name + "-loop-combinator")
    comb.add_item("x")
    lc = wf.create_step(cls=LoopCombinatorStep, name=name + "-loop-combinator", combinator=comb)
    lc.add_input_port("x", p3)
    lc.add_output_port("x", wf.create_port())
    kinds[lc.name] = "loop-combinator"
    cd = wf.create_step(cls=LoopWhenStep, name=name + "-loop-when", limit=LIM)
    cd.add_input_port("x", lc.get_output_port("x"))
    cd.add_output_port("x", wf.create_port())
    kinds[cd.name] = "loop-when"
    p5 = cd.get_output_port("x")
    term = LoopTerminationCombinator(workflow=wf, name=name + "-loop-termination-combinator")
    tm = wf.create_step(cls=CombinatorStep, name=name + "-loop-terminator", combinator=term)
    kinds[tm.name] = "loop-terminator"
    tm.add_output_port("x", p3)
    term.add_output_item("x")
    binding = BindingConfig(targets=[Target(deployment=deploy.deployment_config)])
    for x in outs:
        body = "/loop/body_" + x
        fail_tags = set()
        if fail is not None and fail[0] == x:
            fail_tags.add(("0.%d.%d" % (fail[1], fail[2])) if scatter else ("0.%d" % fail[2]))
        sched = wf.create_step(cls=ScheduleStep, name=posixpath.join(body, "__schedule__"), job_prefix=body,
                               connector_ports={deploy.deployment_config.name: deploy.get_output_port()},
                               binding_config=binding)
        sched.add_input_port("x", p5)
        kinds[sched.name] = "schedule"
        transfer = wf.create_step(cls=PassThroughTransferStep, name=posixpath.join(body, "__transfer__", "x"),
                                  job_port=sched.get_output_port())
        transfer.add_input_port("x", p5)
        transfer.add_output_port("x", wf.create_port())
        kinds[transfer.name] = "transfer"
        ex = wf.create_step(cls=ExecuteStep, name=body, job_port=sched.get_output_port())
        ex.command = BodyCommand(ex, x, fail_tags, raise_exc)
        ex.add_input_port("x", transfer.get_output_port("x"))
        ex.add_output_port("x", wf.create_port())
        kinds[ex.name] = "execute"
        p8 = forward(name + "/%s-output-forward-transformer" % x, "output-forwarder", ex.get_output_port("x"))
        cd.add_skip_port(x, p8)
        lo = wf.create_step(cls=LoopOutputAllStep if method == "all" else LoopOutputLastStep, name=name + "/%s-loop-output" % x)
        lo.add_input_port(x, p8)
        lo.add_output_port(x, wf.create_port())
        kinds[lo.name] = "loop-output"
        tm.add_input_port(x, lo.get_output_port(x))
        term.add_item(x)
        if with_outputs:
            wf.output_ports[x] = lo.get_output_port(x).name
        if x == "o1":
            forward(name + "/x-back-propagation-transformer", "back-propagation", p8, p3)
    return wf, kinds


async def _run(counts, scatter, outs, fail, with_outputs, method, raise_exc, watchdog, settle_s):
    from streamflow.core.deployment import DeploymentConfig
    from streamflow.workflow.executor import StreamFlowExecutor
    from . import context as sc
    from .loop_sut import DbQuiesce
    workdir = tempfile.mkdtemp(prefix="loopfail_", dir=os.environ.get("VERIF_LOOPFAIL_TMP") or None)
    ctx = sc.build(path=workdir)
    q = DbQuiesce(ctx.database)
    obs = {"outcome": None, "exc": None, "steps": {}, "pending": [], "outputs": None, "build_error": None}
    try:
        dc = DeploymentConfig(name="__LOCAL__", type="local", config={}, external=True, lazy=False, workdir=workdir)
        await ctx.deployment_manager.deploy(dc)
        try:
            wf, kinds = _build(ctx, dc, counts, scatter, outs, fail, with_outputs, method, raise_exc)
            await wf.save(ctx.database)
        except Exception as e:       # noqa: a mutated tree may refuse the wiring: an observation
            obs["build_error"] = "%s: %s" % (type(e).__name__, e)
            return obs
        executor = StreamFlowExecutor(wf)
        run = asyncio.ensure_future(executor.run())
        done, _ = await asyncio.wait({run}, timeout=watchdog)

        def snapshot():
            obs["steps"] = {s.name: {"kind": kinds.get(s.name, "?"), "terminated": bool(s.terminated), "status": s.status.name}
                            for s in wf.steps.values()}
            obs["pending"] = sorted(t.get_name() for t in executor.executions if not t.done())
        if not done:
            obs["outcome"] = "hang"
            snapshot()
            run.cancel()
            await asyncio.gather(run, return_exceptions=True)
        else:
            exc = run.exception() if not run.cancelled() else asyncio.CancelledError()
            if exc is None:
                obs["outcome"] = "returned"
                obs["outputs"] = run.result()
            else:
                obs["outcome"] = "raised"
                obs["exc"] = "%s: %s" % (type(exc).__name__, exc)
            # the executor does not terminate the steps when it raises on a FAILED termination token: give the
            # network up to settle_s seconds to finish on its own (returns as soon as every step has terminated
            # and every step task is done; only a network that really stays stuck costs the whole settle_s)
            loop = asyncio.get_running_loop()
            deadline = loop.time() + settle_s
            while True:
                with contextlib.suppress(TimeoutError):
                    await q.settle(rounds=4, watchdog=2.0)
                if all(s.terminated for s in wf.steps.values()) and all(t.done() for t in executor.executions):
                    break
                if loop.time() >= deadline:
                    break
                await asyncio.sleep(0.05)
            snapshot()
            for t in executor.executions:
                if not t.done():
                    t.cancel()
            await asyncio.gather(*executor.executions, return_exceptions=True)
    finally:
        with contextlib.suppress(Exception):
            await ctx.deployment_manager.undeploy_all()
        with contextlib.suppress(Exception):
            await ctx.close()
        import shutil
        shutil.rmtree(workdir, ignore_errors=True)
    return obs


def run_failing_loop(counts, scatter=False, outs=("o1",), fail=None, with_outputs=True, method="last", raise_exc=False,
                     watchdog: float = 30.0, settle_s: float = 10.0):
    """Run one real loop workflow.  counts[j] = iterations of loop instance j (scatter=True: instance tags 0.j);
    fail = (output, instance, iteration) of the body job that fails unrecoverably, or None.
    Returns {"outcome": "raised"|"returned"|"hang", "exc", "steps": {name: {kind, terminated, status}},
             "pending": [names of step tasks that are not done], "outputs", "build_error"}."""
    import logging
    from streamflow.log_handler import logger
    old = logger.level
    logger.setLevel(logging.CRITICAL)
    try:
        res, exc = aio.run(_run(list(counts), scatter, list(outs), fail, with_outputs, method, raise_exc, watchdog, settle_s),
                           timeout=watchdog + settle_s + 60)
    finally:
        logger.setLevel(old)
    if exc is not None:
        return {"outcome": "harness-error", "exc": "%s: %s" % (type(exc).__name__, exc), "steps": {}, "pending": [],
                "outputs": None, "build_error": None}
    return res


# ------------------------------------------------------------------------------------------------------
# entry point for harness/vh/props/C04.py

_MC_BODY = ("SPECIFICATION FairSpec\nINVARIANT TypeOK\nINVARIANT FailureMeansRaise\nINVARIANT QuiescentEnded\n"
            "PROPERTY ExecutorEnds\nPROPERTY EveryStepEnds\n")


def _cfg(ni, counts, outs, scatter, failouts, iters, wo, cancel_reader=True, tm_stops=False):
    b = lambda v: "TRUE" if v else "FALSE"                      # noqa: E731
    st = lambda xs: "{%s}" % ", ".join('"%s"' % x for x in xs)   # noqa: E731
    return ("CONSTANTS NI = %d  Counts = {%s}  Outs = %s  Scatter = %s\n"
            "          FailOuts = %s  FailIters = {%s}  WOSet = {%s}  CancelReader = %s  TMStops = %s\n" % (
                ni, ", ".join(map(str, counts)), st(outs), b(scatter), st(failouts), ", ".join(map(str, iters)),
                ", ".join(b(w) for w in wo), b(cancel_reader), b(tm_stops))) + _MC_BODY


def _model(ctx, name, *args, expect_ok=True, **kw):
    cfg = "MC_LoopFail_%s.cfg" % name
    r = ctx.tlc("Loop", "MC_LoopFail", cfg, files={cfg: _cfg(*args, **kw)}, deadlock=True, timeout=1800)
    ctx.count("loopfail:mc_states:%s" % name, r.distinct)
    if expect_ok:
        ctx.require(r.ok, "LoopFail model %s: %s %s (the as-coded loop network with a failing fed-back job must terminate "
                          "and raise in the model)\n%s" % (name, r.error, r.violated, r.stdout[-2000:]))
    return r


def _scenarios(ctx, quick):
    """(class, kwargs) of the real runs.  class 'fedback': the failing job belongs to the body step that produces the
    fed-back output (every loop with one output is of this class); 'side': it belongs to a body step whose output is
    not fed back; 'control': no job fails."""
    fed = [
        dict(counts=[3], outs=("o1",), fail=("o1", 0, 1), with_outputs=True),
        dict(counts=[3], outs=("o1",), fail=("o1", 0, 0), with_outputs=False),
        dict(counts=[3], outs=("o1", "o2"), fail=("o1", 0, 2), with_outputs=True),
        dict(counts=[2, 3], scatter=True, outs=("o1",), fail=("o1", 1, 0), with_outputs=True),
        dict(counts=[3, 2], scatter=True, outs=("o1", "o2"), fail=("o1", 0, 1), with_outputs=False),
        dict(counts=[4], outs=("o1",), fail=("o1", 0, 3), with_outputs=True, raise_exc=True),
    ]
    side = [
        dict(counts=[2], outs=("o1", "o2"), fail=("o2", 0, 0), with_outputs=True),
        dict(counts=[2, 3], scatter=True, outs=("o1", "o2"), fail=("o2", 1, 1), with_outputs=True),
    ]
    control = [dict(counts=[2], outs=("o1",), fail=None, with_outputs=False)]
    if not quick:
        rng = ctx.rng("loopfail")
        pool = []
        for counts, scatter in (([1], False), ([2], False), ([3], False), ([11], False), ([1, 2], True), ([3, 1], True), ([2, 2, 3], True)):
            for outs in (("o1",), ("o1", "o2")):
                for j, n in enumerate(counts):
                    for k in range(n):
                        for wo in (True, False):
                            pool.append(dict(counts=counts, scatter=scatter, outs=outs, fail=("o1", j, k), with_outputs=wo,
                                             raise_exc=bool((j + k + len(outs)) % 2), method="all" if (k % 2) else "last"))
        rng.shuffle(pool)
        seen = {repr(sorted(d.items())) for d in fed}
        for d in pool:
            if len(fed) >= 34:
                break
            if repr(sorted(d.items())) not in seen:
                fed.append(d)
        side += [dict(counts=[3], outs=("o1", "o2"), fail=("o2", 0, 2), with_outputs=True, raise_exc=True),
                 dict(counts=[1, 2], scatter=True, outs=("o1", "o2"), fail=("o2", 0, 0), with_outputs=True),
                 dict(counts=[2], outs=("o1", "o2"), fail=("o2", 0, 1), with_outputs=False)]       # run() itself hangs
        control += [dict(counts=[3, 1], scatter=True, outs=("o1", "o2"), fail=None, with_outputs=False),
                    dict(counts=[2], outs=("o1",), fail=("o1", 0, 5), with_outputs=False)]          # iteration 5 never runs
    return [("fedback", d) for d in fed] + [("side", d) for d in side] + [("control", d) for d in control]


def _judge(ctx, cls, sc, obs, prefix):
    """Compare one observation with what LoopFail proves.  Returns the clause that failed or None."""
    detail = {"class": cls, "scenario": sc, "outcome": obs["outcome"], "exc": obs["exc"],
              "unterminated": {n: v for n, v in obs["steps"].items() if not v["terminated"]}, "pending": obs["pending"]}
    tag = prefix if cls != "side" else prefix + ":side-output"
    expect_raise = cls != "control"
    if obs["outcome"] == "harness-error":
        ctx.require(False, "loop_fail harness error: %s" % obs["exc"])
    if obs["build_error"]:
        ctx.violation("%s:setup:%s" % (tag, obs["build_error"].split(":")[0]), dict(detail, build_error=obs["build_error"]),
                      "the loop workflow could not be built: %s" % obs["build_error"])
        return "setup"
    if obs["outcome"] == "hang":
        kinds = sorted({v["kind"] for v in detail["unterminated"].values()})
        ctx.violation("%s:hang" % tag, detail,
                      "StreamFlowExecutor.run() did not return within the watchdog after %s; steps never terminated: %s "
                      "(LoopFail proves that the executor ends and every step terminates)" % (
                          "job %s failed" % (sc["fail"],) if sc.get("fail") else "a run without failure", ", ".join(kinds)))
        return "hang"
    if expect_raise and obs["outcome"] != "raised":
        ctx.violation("%s:not-raised" % tag, detail, "job %s failed unrecoverably but run() returned %r" % (sc["fail"], obs["outputs"]))
        return "not-raised"
    if not expect_raise and obs["outcome"] != "returned":
        ctx.violation("%s:spurious-raise" % tag, detail, "no job failed but run() raised %s" % obs["exc"])
        return "spurious-raise"
    if detail["unterminated"]:
        kinds = sorted({v["kind"] for v in detail["unterminated"].values()})
        sig = "%s:step-not-terminated:%s" % (tag, "+".join(kinds)) if cls != "side" else "%s:step-not-terminated" % tag
        ctx.violation(sig, detail, "run() %s but %d steps never terminated (still %s): %s" % (
            obs["outcome"], len(detail["unterminated"]), sorted({v["status"] for v in detail["unterminated"].values()}), ", ".join(kinds)))
        return "step-not-terminated"
    bad = {n: v for n, v in obs["steps"].items() if v["status"] not in TERMINAL}
    if bad or obs["pending"]:
        kinds = sorted({v["kind"] for v in bad.values()}) or ["task"]
        ctx.violation("%s:task-pending:%s" % (tag, "+".join(kinds)), dict(detail, nonterminal=bad),
                      "steps terminated but %d step tasks are still pending / %d statuses are not terminal" % (len(obs["pending"]), len(bad)))
        return "task-pending"
    return None


def check_failing_loops(ctx, focus="C04", side_output=True, prefix="loop-failure"):
    """C04 on loop networks with an unrecoverable failure of a body job.

    1. TLC: specs/Loop/LoopFail.tla as coded - for a failing job on the fed-back path (every single-output loop) the
       executor ends (raises iff the job ran) and every step terminates, with and without workflow output ports.
    2. Real loop workflows (engine-level, wired like the CWL translator, no recovery) with the failing job at chosen
       (output, instance, iteration): run() must raise, every step must terminate, no step task may stay pending.
       A hang is a violation because the model proves termination.
    side_output=True also runs the class in which the failing job belongs to a body step whose output is NOT fed back:
    the as-coded model predicts non-termination there (TLC counterexample), the real code follows it -> genuine
    defect, reported as `<prefix>:side-output:*` (list it in known_findings.d/<focus>.json, see notes/C06.md section 7)."""
    quick = ctx.quick
    # ---- model ------------------------------------------------------------------------------------------
    _model(ctx, "one", 1, [1, 2, 3], ["o1"], False, ["o1"], [0, 1, 2], [True, False])
    _model(ctx, "two_outs", 1, [1, 2] if quick else [1, 2, 3], ["o1", "o2"], False, ["o1"], [0, 1] if quick else [0, 1, 2], [True, False])
    if not quick:
        _model(ctx, "scatter", 2, [1, 2], ["o1"], True, ["o1"], [0, 1, 2], [True, False])
    side_pred = None
    if side_output:
        r = _model(ctx, "side_as_coded", 1, [1], ["o1", "o2"], False, ["o2"], [0], [True, False], expect_ok=False)
        side_pred = (r.error, r.violated)
        ctx.extra["loopfail_side_output_model"] = {"as_coded": {"error": r.error, "violated": r.violated, "states": r.distinct}}
        if not quick:
            r2 = _model(ctx, "side_repaired", 1, [1, 2], ["o1", "o2"], False, ["o1", "o2"], [0, 1], [True, False], tm_stops=True)
            ctx.extra["loopfail_side_output_model"]["repaired_TMStops"] = {"ok": r2.ok, "states": r2.distinct}
    # ---- real runs --------------------------------------------------------------------------------------
    hangs = {}
    n = 0
    for cls, sc in _scenarios(ctx, quick):
        if cls == "side" and not side_output:
            continue
        if hangs.get(cls, 0) >= 2:
            ctx.count("loopfail:skipped-after-hangs")
            continue
        obs = run_failing_loop(watchdog=15.0 if quick else 30.0, settle_s=3.0 if quick else 6.0, **sc)
        n += 1
        ctx.case(("loopfail", cls, repr(sorted(sc.items()))))
        ctx.count("loopfail:runs:%s" % cls)
        clause = _judge(ctx, cls, sc, obs, prefix)
        if clause == "hang":
            hangs[cls] = hangs.get(cls, 0) + 1
        if clause is None:
            ctx.count("loopfail:ok:%s" % cls)
        if cls == "side" and clause is not None and side_pred and side_pred[0] is None:
            ctx.count("loopfail:side-defect-not-predicted-by-model")
    ctx.impl_trace(n)
    ctx.assumptions += ["loop networks with a failing body job: engine-level builder (vh/sut/loop_fail.py) wired like the CWL translator; "
                        "default failure manager (no recovery); schedule/transfer steps abstracted to one forwarding step in LoopFail"]
    return n
