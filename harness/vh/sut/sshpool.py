"""Rig binding the REAL SSHContext / SSHContextManager / SSHContextFactory (streamflow/deployment/connector/ssh.py)
to the SSHPool specification (X01).

There is no SSH server: `asyncssh.connect` is replaced (for the lifetime of a rig) by a fake that returns fake
connections with the attributes the pool uses (`_channels`, `create_process`, `close`, `wait_closed`, `is_closed`),
shaped after asyncssh 2.x:
  * the channel is registered in `conn._channels` when create_process STARTS (SSHChannel.__init__ -> add_channel) and
    removed when the open fails / the process is closed / the connection goes away;
  * create_process on a closed connection raises ChannelOpenError synchronously (add_channel), no suspension;
  * close() of an open connection is completed by wait_closed() (a suspension); on a closed connection both return
    at once;  SSHClientProcess.__aenter__ returns self without suspending; __aexit__ = close() + wait_closed()
    (a suspension while the channel is open).
Every completion of connect / create_process / wait_closed / process exit is parked on a gate that the driver resolves
(success, or a chosen exception); `asyncio.sleep(retry_delay)` runs on a VirtualTimeLoop whose clock the driver
advances.  The driver is synchronous code OUTSIDE the loop: it applies one environment event, lets the loop run dry
(aio.settle: asyncio's own FIFO order, never reordered) and then projects the real objects to the abstract state of
the specification (`observe`).
"""
from __future__ import annotations

import asyncio
import socket

from vh import aio

LOCK_PCS = ("connect", "open", "closing", "sleep", "pexit", "evwait")
GATE_PC = {"connect": "connect", "open": "open", "closewait": "closing", "pexit": "pexit"}


def _mod():
    from streamflow.deployment.connector import ssh as m
    return m


class FakeProcess:
    def __init__(self, conn, chan, owner, command, kw):
        self.conn, self.chan, self.owner, self.command, self.kw = conn, chan, owner, command, kw
        self.entered = False
        self.exit_args = None

    async def __aenter__(self):
        self.entered = True
        return self

    async def __aexit__(self, et, ev, tb):
        self.exit_args = (et, ev, tb)
        self.close()
        await self.wait_closed()
        return False

    def close(self):
        pass

    async def wait_closed(self):
        if self.conn._channels.get(self.chan) is self:
            await self.conn.rig.park("pexit", self.owner)
            if self.conn._channels.get(self.chan) is self:
                del self.conn._channels[self.chan]


class FakeConnection:
    def __init__(self, rig, cid, owner, kw):
        self.rig, self.cid, self.owner, self.kw = rig, cid, owner, kw
        self._channels = {}
        self.closed = False          # closed by the peer or by close()
        self.closed_by = None
        self._wait = False

    def is_closed(self):
        return self.closed

    def drop(self, by="peer"):
        self.closed = True
        self.closed_by = self.closed_by or by
        self._channels.clear()

    async def create_process(self, command=None, *a, **kw):
        rig = self.rig
        owner = rig.current()
        rig.calls.append(("create_process", owner, self.cid, rig.loop.time()))
        if self.closed:
            raise _mod().asyncssh.ChannelOpenError(2, "SSH connection closed")
        chan = rig.new_id()
        proc = FakeProcess(self, chan, owner, command, kw)
        self._channels[chan] = proc
        if len(self._channels) > rig.max_sess:
            rig.flag("sessions-exceeded", {"connection": self.cid, "channels": len(self._channels),
                                           "maxConcurrentSessions": rig.max_sess})
        try:
            await rig.park("open", owner)
        except BaseException:
            if self._channels.get(chan) is proc:
                del self._channels[chan]
            raise
        rig.procs[owner] = proc
        return proc

    def close(self):
        if not self.closed:
            self.drop("close")
            self._wait = True

    async def wait_closed(self):
        if self._wait:
            self._wait = False
            await self.rig.park("closewait", self.rig.current())


class Client:
    def __init__(self, k):
        self.k = k
        self.task = None
        self.phase = "idle"      # idle | entering | holding | raised | exiting | done
        self.res = "none"
        self.exc = None
        self.proc = None
        self.mgr = None
        self.exit_exc = None


class Rig:
    """One factory, `n_cl` requests.  All public methods are synchronous and return after the loop ran dry."""

    def __init__(self, n_ctx, n_cl, max_sess, retries, retry_delay=5, rng=None):
        m = _mod()
        self.m = m
        self.n_ctx, self.n_cl, self.max_sess, self.retries, self.retry_delay = n_ctx, n_cl, max_sess, retries, retry_delay
        self.rng = rng
        self.loop = aio.VirtualTimeLoop()
        self.parked = {}          # (kind, owner) -> [futures]
        self.calls = []
        self.flags = []           # [(signature, detail)] python-level invariant breaches seen inside the fakes
        self.conns = []
        self.procs = {}
        self._id = 0
        self.injected = {}
        self.sleep_from = {}
        self.closed_all = False
        self.cl = {k: Client(k) for k in range(1, n_cl + 1)}
        self._orig_connect = m.asyncssh.connect
        rig = self

        async def fake_connect(*a, **kw):
            owner = rig.current()
            rig.calls.append(("connect", owner, rig.slot_of_connect(owner), rig.loop.time()))
            await rig.park("connect", owner)
            conn = FakeConnection(rig, rig.new_id(), owner, {k: kw.get(k) for k in ("host", "port", "username")})
            rig.conns.append(conn)
            live = [c for c in rig.conns if not c.closed]
            if len(live) > rig.n_ctx:
                rig.flag("connections-exceeded", {"live": len(live), "maxConnections": rig.n_ctx})
            return conn
        m.asyncssh.connect = fake_connect
        asyncio.set_event_loop(self.loop)
        cfg = m.SSHConfig(check_host_key=False, client_keys=[], connect_timeout=30, hostname="node0:2222",
                          password_file=None, ssh_key_passphrase_file=None, tunnel=None, username="u")
        self.factory = m.SSHContextFactory(cls_context=m.SSHContext, streamflow_config_dir="/nonexistent", config=cfg,
                                           max_concurrent_sessions=max_sess, max_connections=n_ctx,
                                           retries=retries, retry_delay=retry_delay)
        self.cond = self.factory._condition
        self.ctxs = list(self.factory._contexts)

    # ---- plumbing ---------------------------------------------------------------------------------
    def new_id(self):
        self._id += 1
        return self._id

    def flag(self, sig, detail):
        self.flags.append((sig, detail))

    def current(self):
        t = asyncio.current_task()
        n = t.get_name() if t is not None else ""
        return int(n[2:]) if n.startswith("cl") and n[2:].isdigit() else 0

    def slot_of_connect(self, owner):
        """Slot (1-based) whose SSHContext._get_connection is calling asyncssh.connect right now (0 if unknown)."""
        import sys
        try:
            f = sys._getframe(2)
            for _ in range(4):
                if f is None:
                    break
                me = f.f_locals.get("self")
                for i, c in enumerate(self.ctxs):
                    if me is c:
                        return i + 1
                f = f.f_back
        except Exception:
            pass
        cand = [i + 1 for i, c in enumerate(self.ctxs) if c._ssh_connection is None and c._connecting]
        return cand[0] if len(cand) == 1 else 0

    async def park(self, kind, owner):
        fut = self.loop.create_future()
        self.parked.setdefault((kind, owner), []).append(fut)
        return await fut

    def _pending(self, key):
        return [f for f in self.parked.get(key, []) if not f.done()]

    def is_parked(self, kind, owner):
        return bool(self._pending((kind, owner)))

    def _resolve(self, key, exc=None):
        p = self._pending(key)
        if not p:
            return False
        if exc is None:
            p[0].set_result(True)
        else:
            p[0].set_exception(exc)
        return True

    def settle(self):
        self.loop.run_until_complete(aio.settle())

    def close(self):
        """Tear the rig down (cancel what is left, restore asyncssh.connect)."""
        try:
            pend = [t for t in asyncio.all_tasks(self.loop) if not t.done()]
            for t in pend:
                t.cancel()
            if pend:
                self.loop.run_until_complete(asyncio.gather(*pend, return_exceptions=True))
        except Exception:
            pass
        finally:
            self.m.asyncssh.connect = self._orig_connect
            asyncio.set_event_loop(None)
            self.loop.close()

    # ---- the requests -----------------------------------------------------------------------------
    async def _client(self, k):
        st = self.cl[k]
        m = self.m
        st.mgr = self.factory.get(command="cmd-%d" % k, environment={"K": str(k)})
        st.phase = "entering"
        try:
            st.proc = await st.mgr.__aenter__()
        except asyncio.CancelledError:
            raise
        except BaseException as e:  # an observation, not a harness failure
            st.exc = e
            if e is self.injected.get(k):
                st.res = "other"
            elif isinstance(e, m.WorkflowExecutionException):
                msg = str(e)
                st.res = ("wfe" if "more available contexts" in msg
                          else "wfe_impossible" if "Impossible to connect" in msg else "wfe_other")
            else:
                st.res = "exc:%s" % type(e).__name__
            st.phase = "raised"
            cmd = await self.park("post", k)
            if cmd:
                st.phase = "exiting"
                try:
                    await st.mgr.__aexit__(type(e), e, e.__traceback__)
                except asyncio.CancelledError:
                    raise
                except BaseException as e2:
                    st.exit_exc = e2
                st.phase = "done"
            return
        st.res = "proc"
        st.phase = "holding"
        await self.park("hold", k)
        st.phase = "exiting"
        try:
            await st.mgr.__aexit__(None, None, None)
        except asyncio.CancelledError:
            raise
        except BaseException as e2:
            st.exit_exc = e2
        st.phase = "done"

    # ---- observation ------------------------------------------------------------------------------
    def _client_of_future(self, fut):
        for k, st in self.cl.items():
            if st.task is not None and not st.task.done() and getattr(st.task, "_fut_waiter", None) is fut:
                return k
        return -1

    def pc(self, k):
        st = self.cl[k]
        if st.task is None:
            return "idle"
        if st.phase in ("holding", "raised", "done"):
            return st.phase
        if st.task.done():
            return "crashed"
        fut = getattr(st.task, "_fut_waiter", None)
        if fut is None:
            return "running"
        lockw = getattr(self.cond._lock, "_waiters", None) or ()
        if any(f is fut for f in lockw):
            return "lockq"
        if any(f is fut for f in self.cond._waiters):
            return "wait"
        for (kind, owner), futs in self.parked.items():
            if any(f is fut for f in futs):
                return GATE_PC.get(kind, "gate:%s" % kind)
        for h in self.loop._scheduled:
            if not h._cancelled and h._args and h._args[0] is fut:
                return "sleep"
        for c in self.ctxs:
            if any(f is fut for f in c._connect_event._waiters):
                return "evwait"
        return "unknown"

    def observe(self):
        pcs = [self.pc(k) for k in range(1, self.n_cl + 1)]
        conn, ncing, att, chans = [], [], [], []
        for c in self.ctxs:
            sc = c._ssh_connection
            conn.append("none" if sc is None else ("dead" if sc.is_closed() else "open"))
            ncing.append(bool(sc is None and c._connecting))
            att.append(c.connection_attempts)
            chans.append(sorted({p.owner for p in sc._channels.values()}) if sc is not None else [])
        lockw = getattr(self.cond._lock, "_waiters", None) or ()
        lq = [self._client_of_future(f) for f in lockw]
        cw = [self._client_of_future(f) for f in self.cond._waiters]
        if self.cond.locked():
            holders = [k for k in range(1, self.n_cl + 1) if pcs[k - 1] in LOCK_PCS]
            lock = holders[0] if len(holders) == 1 else -1
        else:
            lock = 0
        res = [self.cl[k].res for k in range(1, self.n_cl + 1)]
        return {"pc": pcs, "conn": conn, "ncing": ncing, "att": att, "chans": chans, "lock": lock, "lq": lq, "cw": cw,
                "res": res}

    def check_python_invariants(self):
        """Invariants on the real objects that the abstract state does not carry (called at quiescence)."""
        live = [c for c in self.conns if not c.closed]
        held = [c._ssh_connection for c in self.ctxs]
        for c in live:
            if not any(c is h for h in held):
                self.flag("connection-leaked", {"connection": c.cid, "opened_by": c.owner})
            if len(c._channels) > self.max_sess:
                self.flag("sessions-exceeded", {"connection": c.cid, "channels": len(c._channels)})
        if len(live) > self.n_ctx:
            self.flag("connections-exceeded", {"live": len(live), "maxConnections": self.n_ctx})
        for k, st in self.cl.items():
            if st.phase == "holding":
                p = st.proc
                if not isinstance(p, FakeProcess) or p.owner != k or p.command != "cmd-%d" % k or \
                        (p.kw.get("env") or {}).get("K") != str(k) or not p.entered:
                    self.flag("foreign-process", {"client": k, "proc": repr(p)})
            if st.exit_exc is not None:
                self.flag("aexit-raised", {"client": k, "exc": repr(st.exit_exc)})
        # retryDelay: two tries of the same slot by the same request are at least retry_delay apart
        last = {}
        for c in self.calls:
            if c[0] == "connect":
                key = (c[1], c[2])
                if key in last and c[2] and c[3] - last[key] < self.retry_delay:
                    self.flag("retry-delay", {"client": c[1], "slot": c[2], "gap": c[3] - last[key],
                                              "retryDelay": self.retry_delay})
                last[key] = c[3]

    # ---- environment events -----------------------------------------------------------------------
    def _exc(self, kind, k):
        m = self.m
        a = m.asyncssh
        r = self.rng
        pick = (lambda xs: xs[r.randrange(len(xs))]) if r is not None else (lambda xs: xs[0])
        if kind == "conn":
            return pick([ConnectionRefusedError(111, "Connect call failed"), ConnectionResetError(104, "reset by peer"),
                         a.ConnectionLost("Connection lost"), a.PermissionDenied("Permission denied"),
                         a.DisconnectError(2, "protocol error"), asyncio.TimeoutError()])
        if kind == "chan":
            return a.ChannelOpenError(2, "Connection refused")
        if kind == "other":
            e = pick([OSError(113, "Connect call failed ('10.0.0.9', 2222)"),
                      socket.gaierror(-2, "Name or service not known")])
            self.injected[k] = e
            return e
        if kind == "chan_open":
            return a.ChannelOpenError(pick([1, 4]), "open failed")
        if kind == "lost":
            return pick([a.ConnectionLost("Connection lost"), a.DisconnectError(11, "disconnected"),
                         a.ChannelOpenError(2, "SSH connection closed")])
        if kind == "err_open":
            return pick([BrokenPipeError(32, "Broken pipe"), asyncio.TimeoutError(), ConnectionAbortedError(103, "aborted")])
        raise ValueError(kind)

    def enabled(self):
        """Environment events the REAL system can take now (at quiescence), as (name, k, kinds-or-None)."""
        out = []
        obs = self.observe()
        if self.closed_all:
            return out
        for k in range(1, self.n_cl + 1):
            p = obs["pc"][k - 1]
            if p == "idle":
                out.append(("Start", k))
            elif p == "connect":
                out.append(("ConnectOk", k))
                out.append(("ConnectFail", k))
            elif p == "open":
                slot = self.slot_of_open(k)
                if slot and obs["conn"][slot - 1] == "open":
                    out.append(("OpenOk", k))
                out.append(("OpenFail", k))
            elif p == "closing":
                out.append(("CloseDone", k))
            elif p == "sleep":
                out.append(("SleepDone", k))
            elif p == "holding":
                out.append(("Release", k))
            elif p == "raised":
                out.append(("ExitFail", k))
            elif p == "pexit":
                out.append(("PExitDone", k))
        for i, c in enumerate(obs["conn"]):
            if c == "open":
                out.append(("Drop", i + 1))
        if all(p in ("raised", "done") for p in obs["pc"]) and obs["lock"] == 0:
            out.append(("CloseAll", 0))
        return out

    def slot_of_open(self, k):
        for i, c in enumerate(self.ctxs):
            sc = c._ssh_connection
            if sc is not None and any(p.owner == k and self.procs.get(k) is not p for p in sc._channels.values()):
                return i + 1
        # the connection under the pending create_process may have been dropped (its channels are gone)
        for call in reversed(self.calls):
            if call[0] == "create_process" and call[1] == k:
                for i, c in enumerate(self.ctxs):
                    if c._ssh_connection is not None and c._ssh_connection.cid == call[2]:
                        return i + 1
                return 0
        return 0

    def apply(self, name, k, x=""):
        """Apply one environment event and let the loop run dry.  Returns None, or why the real system cannot take it."""
        why = self._apply(name, k, x)
        if why is None:
            self.settle()
            self.check_python_invariants()
        return why

    def _apply(self, name, k, x):
        if name == "Start":
            st = self.cl[k]
            if st.task is not None:
                return "already started"
            st.task = self.loop.create_task(self._client(k), name="cl%d" % k)
            return None
        if name == "ConnectOk":
            return None if self._resolve(("connect", k)) else "request %d is not inside asyncssh.connect" % k
        if name == "ConnectFail":
            if not self.is_parked("connect", k):
                return "request %d is not inside asyncssh.connect" % k
            self._resolve(("connect", k), self._exc(x, k))
            return None
        if name == "OpenOk":
            if not self.is_parked("open", k):
                return "request %d is not inside create_process" % k
            slot = self.slot_of_open(k)
            if not slot or self.ctxs[slot - 1]._ssh_connection.closed:
                return "the connection under create_process of request %d is closed" % k
            self._resolve(("open", k))
            return None
        if name == "OpenFail":
            if not self.is_parked("open", k):
                return "request %d is not inside create_process" % k
            slot = self.slot_of_open(k)
            conn = self.ctxs[slot - 1]._ssh_connection if slot else None
            if x in ("chan_open", "err_open") and (conn is None or conn.closed):
                return "connection already closed"
            if x == "lost" and conn is not None:
                conn.drop("peer")
            self._resolve(("open", k), self._exc(x, k))
            return None
        if name == "CloseDone":
            return None if self._resolve(("closewait", k)) else "request %d is not inside wait_closed" % k
        if name == "PExitDone":
            return None if self._resolve(("pexit", k)) else "request %d is not inside process.__aexit__" % k
        if name == "Release":
            return None if self.cl[k].phase == "holding" and self._resolve(("hold", k)) else "request %d holds no process" % k
        if name == "ExitFail":
            if self.cl[k].phase != "raised" or not self.is_parked("post", k):
                return "request %d did not raise" % k
            self._pending(("post", k))[0].set_result(True)
            return None
        if name == "SleepDone":
            if self.pc(k) != "sleep":
                return "request %d is not sleeping" % k
            t0 = self.loop.time()
            fut = self.loop.create_future()
            self.loop.advance_hook = lambda t: (not fut.done()) and fut.set_result(t)
            try:
                self.loop.run_until_complete(fut)
            finally:
                self.loop.advance_hook = None
            if self.loop.time() - t0 != self.retry_delay:
                self.flag("retry-delay", {"client": k, "slept": self.loop.time() - t0, "retryDelay": self.retry_delay})
            return None
        if name == "Drop":
            sc = self.ctxs[k - 1]._ssh_connection
            if sc is None or sc.closed:
                return "slot %d has no open connection" % k
            sc.drop("peer")
            return None
        if name == "CloseAll":
            t = self.loop.create_task(self.factory.close(), name="closeall")
            self.settle()
            n = 0
            while not t.done() and n < 100:
                n += 1
                progressed = False
                for key in list(self.parked):
                    if key[0] == "closewait" and self._resolve(key):
                        progressed = True
                self.settle()
                if not progressed:
                    break
            if not t.done():
                self.flag("close-hangs", {})
            elif t.exception() is not None:
                self.flag("close-raised", {"exc": repr(t.exception())})
            live = [c for c in self.conns if not c.closed]
            if live:
                self.flag("close-leaves-connection-open", {"live": [c.cid for c in live]})
            self.closed_all = True
            return None
        return "unknown event %s" % name
