"""Rigs that drive REAL StreamFlow steps (ScatterStep, GatherStep, CombinatorStep) token by token.

Used by C01 / C02.  Everything here talks to the real classes through their public API: real `Workflow`,
real `Port`s, the real SQLite database of a `StreamFlowContext` (in memory).  Tokens are saved before
they are put (steps record provenance and refuse unsaved inputs).

Quiescence: the only things that complete asynchronously in these rigs are database calls (aiosqlite runs
in a thread).  `Quiet` wraps the public coroutine methods of the database object and counts calls in
flight; the rig is quiescent when no call is in flight and asyncio's ready queue stayed empty for a few
consecutive looks.  No wall-clock ordering is involved in any verdict.
"""
from __future__ import annotations

import asyncio
import inspect
import json


class Quiet:
    def __init__(self, database, delays=None):
        self.inflight = 0
        self.calls = 0
        self.delays = delays          # optional vh.aio.SeededDelays: extra yields after each completion
        self._wrapped = []
        for name in dir(database):
            if name.startswith("_") or name in ("close",):
                continue
            f = getattr(database, name)
            if inspect.iscoroutinefunction(f):
                setattr(database, name, self._mk(f))
                self._wrapped.append(name)

    def _mk(self, f):
        q = self

        async def w(*a, **k):
            q.inflight += 1
            q.calls += 1
            try:
                r = await f(*a, **k)
            finally:
                q.inflight -= 1
            if q.delays is not None:
                await q.delays.after()
            return r
        w.__wrapped__ = f
        return w

    async def settle(self, rounds: int = 4, max_wait: float = 30.0):
        loop = asyncio.get_running_loop()
        idle = 0
        t0 = loop.time()
        while idle < rounds:
            await asyncio.sleep(0)
            if self.inflight > 0:
                idle = 0
                await asyncio.sleep(0.0003)
                if loop.time() - t0 > max_wait:
                    raise TimeoutError("database call still in flight after %ss" % max_wait)
                continue
            if len(getattr(loop, "_ready", ())) == 0:
                idle += 1
            else:
                idle = 0


def tag_str(tag) -> str:
    return ".".join(str(c) for c in tag)


def tag_list(tag: str):
    return [int(c) for c in tag.split(".")]


# ------------------------------------------------------------------------------------------------
# values: the model's leaves {"leaf": path} become real values of different kinds
# ------------------------------------------------------------------------------------------------

def leaf_value(path):
    """scalar / list / object element values, chosen by the leaf's position (deterministic)."""
    k = sum(path) % 4
    s = tag_str(path) if path else "r"
    if k == 0:
        return "v" + s
    if k == 1:
        return 1000 + sum((i + 1) * 37 ** j for j, i in enumerate(path))
    if k == 2:
        return {"class": "obj", "id": s}
    return ["l", s]


def leaf_key(value):
    return json.dumps(value, sort_keys=True)


def build_token(tag, val, same_tag=False):
    """Model value -> real token.  {"leaf": p} -> Token; [..] -> ListToken whose i-th element is tagged
    tag.i (what a gather produces), or tagged like the list itself (same_tag: a workflow input)."""
    from streamflow.core.workflow import Token
    from streamflow.workflow.token import ListToken
    if isinstance(val, dict) and "leaf" in val:
        return Token(value=leaf_value(val["leaf"]), tag=tag_str(tag))
    return ListToken(value=[build_token(tag if same_tag else list(tag) + [i], v, same_tag)
                            for i, v in enumerate(val or [])], tag=tag_str(tag))


def expected_value(val):
    """Model value -> the python value a faithful implementation must carry."""
    if isinstance(val, dict) and "leaf" in val:
        return leaf_value(val["leaf"])
    return [expected_value(v) for v in (val or [])]


def token_value(token):
    from streamflow.workflow.token import ListToken
    if isinstance(token, ListToken):
        return [token_value(t) for t in token.value]
    return token.value


def port_log(port):
    """(tokens as (tag, value)), termination status or None"""
    from streamflow.workflow.token import TerminationToken
    toks, term = [], None
    for t in port.token_list:
        if isinstance(t, TerminationToken):
            term = t.value.name.lower()
        else:
            toks.append((t.tag, token_value(t)))
    return toks, term


def status_of(name):
    from streamflow.core.workflow import Status
    return {"completed": Status.COMPLETED, "failed": Status.FAILED, "skipped": Status.SKIPPED,
            "cancelled": Status.CANCELLED}[name]


# ------------------------------------------------------------------------------------------------
class Session:
    """One real StreamFlowContext (in-memory SQLite) shared by many small workflows."""

    def __init__(self, delays=None):
        from vh.sut import context as C
        self.sf = C.build()
        self.quiet = Quiet(self.sf.database, delays)
        self.n = 0

    def workflow(self):
        from streamflow.core.workflow import Workflow
        self.n += 1
        return Workflow(context=self.sf, config={}, name="w%d" % self.n)

    async def close(self):
        try:
            await self.sf.close()
        except Exception:
            pass


async def reap_tasks():
    """Cancel every task except the caller's (rigs run one at a time under a single driver task)."""
    me = asyncio.current_task()
    others = [t for t in asyncio.all_tasks() if t is not me and not t.done()]
    for t in others:
        t.cancel()
    if others:
        await asyncio.gather(*others, return_exceptions=True)


class StepTask:
    """A running step with exception capture."""

    def __init__(self, step):
        self.step = step
        self.task = asyncio.get_running_loop().create_task(step.run())

    def error(self):
        if self.task.done() and not self.task.cancelled():
            e = self.task.exception()
            if e is not None:
                return "raise:%s" % type(e).__name__, repr(e)
        return None

    async def stop(self):
        """Cancel the step and the helper tasks it left behind (pending Port.get tasks)."""
        if not self.task.done():
            self.task.cancel()
        try:
            await self.task
        except BaseException:
            pass
        await reap_tasks()


class GatherRig:
    """A real GatherStep with real ports; arrivals are put one at a time."""

    def __init__(self, session: Session, depth: int):
        self.s = session
        self.depth = depth

    async def start(self):
        from streamflow.workflow.step import GatherStep
        wf = self.wf = self.s.workflow()
        self.inp, self.size, self.out = wf.create_port(name="in"), wf.create_port(name="sz"), wf.create_port(name="out")
        self.step = wf.create_step(cls=GatherStep, name="/ga", size_port=self.size, depth=self.depth)
        self.step.add_input_port("x", self.inp)
        self.step.add_output_port("x", self.out)
        await wf.save(self.s.sf.database)
        self.run = StepTask(self.step)
        await self.s.quiet.settle()
        return self

    async def arrive(self, ev):
        from streamflow.core.workflow import Token
        from streamflow.workflow.token import TerminationToken
        db = self.s.sf.database
        kind = ev["ev"]
        if kind == "elem":
            t = build_token(ev["tag"], ev["val"])
            await t.save(db, self.inp.persistent_id)
            self.inp.put(t)
        elif kind == "size":
            t = Token(value=ev["val"], tag=tag_str(ev["tag"]), recoverable=True)
            await t.save(db, self.size.persistent_id)
            self.size.put(t)
        elif kind == "termS":
            self.size.put(TerminationToken(status_of(ev["val"])))
        elif kind == "termE":
            self.inp.put(TerminationToken(status_of(ev["val"])))
        elif kind == "finish":
            pass
        else:
            raise ValueError(kind)
        await self.s.quiet.settle()

    def observe(self):
        toks, term = port_log(self.out)
        obs = {"out": toks, "term": term, "error": self.run.error(), "done": self.run.task.done()}
        try:
            obs["smk"] = sorted(self.step.size_map.keys())
            obs["tmk"] = sorted(self.step.token_map.keys())
        except Exception:
            obs["smk"] = obs["tmk"] = None
        return obs

    async def stop(self):
        await self.run.stop()


class ScatterChain:
    """D real ScatterSteps in a row: scatter k+1 reads the element port of scatter k."""

    def __init__(self, session: Session, d: int):
        self.s, self.d = session, d

    async def start(self):
        from streamflow.workflow.step import ScatterStep
        wf = self.wf = self.s.workflow()
        self.inp = wf.create_port(name="in")
        self.elem, self.size, self.steps = [], [], []
        src = self.inp
        for k in range(1, self.d + 1):
            sz = wf.create_port(name="sz%d" % k)
            el = wf.create_port(name="el%d" % k)
            sc = wf.create_step(cls=ScatterStep, name="/sc%d" % k, size_port=sz)
            sc.add_input_port("x", src)
            sc.add_output_port("x", el)
            self.steps.append(sc)
            self.elem.append(el)
            self.size.append(sz)
            src = el
        await wf.save(self.s.sf.database)
        self.runs = [StepTask(sc) for sc in self.steps]
        await self.s.quiet.settle()
        return self

    async def feed(self, val, status="completed"):
        from streamflow.workflow.token import TerminationToken
        t = build_token([0], val, same_tag=True)
        await t.save(self.s.sf.database, self.inp.persistent_id)
        self.inp.put(t)
        await self.s.quiet.settle()
        self.inp.put(TerminationToken(status_of(status)))
        await self.s.quiet.settle()

    def observe(self):
        return {"elem": [port_log(p) for p in self.elem], "size": [port_log(p) for p in self.size],
                "errors": [r.error() for r in self.runs], "done": [r.task.done() for r in self.runs]}

    async def stop(self):
        for r in self.runs:
            await r.stop()


# ------------------------------------------------------------------------------------------------
# whole workflows for StreamFlowExecutor:  scatter^D -> out-of-order element-wise step -> gathers
# ------------------------------------------------------------------------------------------------

def make_shuffle_cls():
    """An element-wise step whose per-element work finishes in any order (what concurrent jobs do)."""
    import posixpath
    from streamflow.core.utils import get_entity_ids
    from streamflow.workflow.step import BaseStep
    from streamflow.workflow.token import TerminationToken

    class ShuffleStep(BaseStep):
        """Holds back elements and releases them in an order drawn from the seeded generator: at every
        turn it either emits one of the elements it holds (chosen at random) or waits for the next input.
        Every order it produces respects causality (an element is emitted after it arrived)."""

        def __init__(self, name, workflow, rng=None, hold=0.6):
            super().__init__(name, workflow)
            self.rng, self.hold = rng, hold
            self.emitted = []

        async def _emit(self, tok):
            out = self.get_output_port()
            new = await self._persist_token(token=tok.update(tok.value), port=out,
                                            input_token_ids=get_entity_ids([tok]))
            self.emitted.append(new.tag)
            out.put(new)

        async def run(self):
            inp = self.get_input_port()
            name = posixpath.join(self.name, next(iter(self.input_ports)))
            held, status = [], None
            while status is None or held:
                if held and (status is not None or (self.rng is not None and self.rng.random() > self.hold)):
                    i = self.rng.randrange(len(held)) if self.rng is not None else 0
                    await self._emit(held.pop(i))
                else:
                    tok = await inp.get(name)
                    if isinstance(tok, TerminationToken):
                        status = tok.value
                    elif self.rng is None:
                        await self._emit(tok)
                    else:
                        held.append(tok)
            await self.terminate(self._get_status(status))

    return ShuffleStep


def make_sum_size_cls():
    """flat wiring for ragged nested lists: the size of the flattened list is the sum of the inner sizes
    (the translator's CartesianProductSizeTransformer multiplies, which is the same for rectangular lists)."""
    import posixpath
    from streamflow.core.utils import get_entity_ids
    from streamflow.core.workflow import Token
    from streamflow.workflow.step import BaseStep
    from streamflow.workflow.token import TerminationToken

    class SumSizeStep(BaseStep):
        async def run(self):
            inp = self.get_input_port()
            name = posixpath.join(self.name, next(iter(self.input_ports)))
            toks = []
            while True:
                tok = await inp.get(name)
                if isinstance(tok, TerminationToken):
                    status = tok.value
                    break
                toks.append(tok)
            out = self.get_output_port()
            out.put(await self._persist_token(token=Token(sum(t.value for t in toks), tag="0", recoverable=True),
                                              port=out, input_token_ids=get_entity_ids(toks)))
            await self.terminate(status)

    return SumSizeStep


async def run_workflow(session: Session, d: int, mode: str, val, rng, watchdog: float = 60.0):
    """Build and run  in -> ScatterStep x d -> ShuffleStep -> GatherStep(s) -> out  with the real executor.
    Returns {"out": [(tag, value)], "term": status, "result": executor result or None, "error": None | (kind, repr),
             "order": tags in the order the element-wise step emitted them}."""
    from streamflow.workflow.executor import StreamFlowExecutor
    from streamflow.workflow.step import GatherStep, ScatterStep
    from streamflow.workflow.token import TerminationToken
    Shuffle = make_shuffle_cls()
    wf = session.workflow()
    inp = wf.create_port(name="in")
    src, sizes = inp, []
    for k in range(1, d + 1):
        sz, el = wf.create_port(name="sz%d" % k), wf.create_port(name="el%d" % k)
        sc = wf.create_step(cls=ScatterStep, name="/sc%d" % k, size_port=sz)
        sc.add_input_port("x", src)
        sc.add_output_port("x", el)
        sizes.append(sz)
        src = el
    mid = wf.create_port(name="mid")
    sh = wf.create_step(cls=Shuffle, name="/work", rng=rng)
    sh.add_input_port("x", src)
    sh.add_output_port("x", mid)
    src = mid
    if mode == "chained":
        for g in range(d, 0, -1):
            o = wf.create_port(name="out" if g == 1 else "ga%d" % g)
            ga = wf.create_step(cls=GatherStep, name="/ga%d" % g, size_port=sizes[g - 1], depth=1)
            ga.add_input_port("x", src)
            ga.add_output_port("x", o)
            src = o
    else:
        if d == 1:
            total = sizes[0]
        else:
            total = wf.create_port(name="total")
            ss = wf.create_step(cls=make_sum_size_cls(), name="/sum")
            ss.add_input_port("x", sizes[-1])
            ss.add_output_port("x", total)
        o = wf.create_port(name="out")
        ga = wf.create_step(cls=GatherStep, name="/ga", size_port=total, depth=d)
        ga.add_input_port("x", src)
        ga.add_output_port("x", o)
        src = o
    wf.output_ports["out"] = "out"
    db = session.sf.database
    await wf.save(db)
    t = build_token([0], val, same_tag=True)
    await t.save(db, inp.persistent_id)
    inp.put(t)
    inp.put(TerminationToken())
    res = {"result": None, "error": None}
    try:
        res["result"] = await asyncio.wait_for(StreamFlowExecutor(wf).run(), watchdog)
    except (asyncio.TimeoutError, TimeoutError):
        res["error"] = ("hang", "executor did not return within %ss" % watchdog)
    except asyncio.CancelledError:
        raise
    except BaseException as e:  # noqa
        res["error"] = ("raise:%s" % type(e).__name__, repr(e))
    res["out"], res["term"] = port_log(src)
    res["order"] = list(sh.emitted)
    return res


# ------------------------------------------------------------------------------------------------
# combinators (C02)
# ------------------------------------------------------------------------------------------------

PORT_NAMES = ["A", "B", "C"]


def tree_spec(kind: str, np_: int):
    """The trees of MC_Combinator.MCTree as nested tuples (kind, depth, name, items)."""
    leafs = PORT_NAMES[:np_]
    rest = PORT_NAMES[2:np_]
    return {
        "dot": ("dot", 0, "c", leafs),
        "cart1": ("cart", 1, "c", leafs),
        "cart2": ("cart", 2, "c", leafs),
        "dotcart": ("dot", 0, "c", [("cart", 1, "i", ["A", "B"])] + rest),
        "dotdot": ("dot", 0, "c", [("dot", 0, "i", ["A", "B"])] + rest),
        "cartdot": ("cart", 1, "c", [("dot", 0, "i", ["A", "B"])] + rest),
        "cartcart": ("cart", 1, "c", [("cart", 1, "i", ["A", "B"])] + rest),
    }[kind]


def build_combinator(wf, spec):
    from streamflow.workflow.combinator import CartesianProductCombinator, DotProductCombinator
    kind, depth, name, items = spec
    if kind == "dot":
        c = DotProductCombinator(name=name, workflow=wf)
    else:
        c = CartesianProductCombinator(name=name, workflow=wf, depth=depth)
    for it in items:
        if isinstance(it, str):
            c.add_item(it)
        else:
            inner = build_combinator(wf, it)
            # as the translator does (_create_residual_combinator): the inner combinator owns all its ports
            c.add_combinator(inner, inner.get_items(recursive=True))
    return c


class CombRig:
    """A real CombinatorStep around real combinator objects; tokens are put one at a time."""

    def __init__(self, session: Session, kind: str, np_: int):
        self.s, self.kind, self.np = session, kind, np_
        self.ports = PORT_NAMES[:np_]

    async def start(self):
        from streamflow.workflow.step import CombinatorStep
        wf = self.wf = self.s.workflow()
        comb = build_combinator(wf, tree_spec(self.kind, self.np))
        self.step = wf.create_step(cls=CombinatorStep, name="/comb", combinator=comb)
        self.inp, self.out = {}, {}
        for p in self.ports:
            self.inp[p] = wf.create_port(name="i_" + p)
            self.out[p] = wf.create_port(name="o_" + p)
            self.step.add_input_port(p, self.inp[p])
            self.step.add_output_port(p, self.out[p])
        await wf.save(self.s.sf.database)
        self.run = StepTask(self.step)
        await self.s.quiet.settle()
        return self

    async def arrive(self, port, tag):
        from streamflow.core.workflow import Token
        t = Token(value="%s:%s" % (port, tag_str(tag)), tag=tag_str(tag))
        await t.save(self.s.sf.database, self.inp[port].persistent_id)
        self.inp[port].put(t)
        await self.s.quiet.settle()

    async def terminate(self):
        from streamflow.workflow.token import TerminationToken
        for p in self.ports:
            self.inp[p].put(TerminationToken())
        await self.s.quiet.settle()

    def observe(self):
        """emitted schemas: the i-th token of every output port belongs to the i-th schema"""
        logs = {p: port_log(self.out[p])[0] for p in self.ports}
        n = min(len(v) for v in logs.values())
        ragged = any(len(v) != n for v in logs.values())
        schemas = []
        for i in range(n):
            sch = []
            for p in self.ports:
                tag, val = logs[p][i]
                src = val.split(":", 1)[1] if isinstance(val, str) and ":" in val else repr(val)
                owner = val.split(":", 1)[0] if isinstance(val, str) and ":" in val else "?"
                sch.append((p if owner == p else "%s<-%s" % (p, owner), src, tag))
            schemas.append(tuple(sorted(sch)))
        return {"schemas": schemas, "ragged": ragged, "error": self.run.error(), "done": self.run.task.done()}

    async def stop(self):
        await self.run.stop()
