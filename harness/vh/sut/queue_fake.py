"""Fake Slurm cluster + gated local connector + schedule driver for C27 (module QueueManager).

* `Cluster`      a state directory and a `bin/` directory with harness-provided `sbatch`, `squeue`,
                 `scontrol`, `scancel`, `sacct` executables (one dash script, no helpers besides `flock`).
                 Every invocation takes the directory lock, draws the next sequence number and appends one
                 line to `log`.  The driver changes the cluster (job runs / job leaves) and writes its own
                 notes through the same lock and the same counter, so the log is ONE total order of
                 cluster-side facts.
* `GatedLocal`   the REAL `LocalConnector`; every command is really executed by `/bin/sh` (with the fake
                 tools first on PATH) and its *completion* is parked on a gate that the driver opens.  Only
                 completions of connector I/O and timers are controlled (DESIGN.md 3.4).
* `Schedule`     runs the REAL `SlurmConnector` (run()/undeploy() are the code under test) under one
                 schedule of environment actions, records the trace for `Trace_QueueManager` and computes
                 the direct verdicts from the sequence-numbered log and the values returned by run().

Nothing here decides by wall-clock order: real time is only *waited for* (a tick sleeps longer than
the cache TTL / P, so that "P ticks later the entry is dead" is guaranteed; hits are never required).
"""
from __future__ import annotations

import asyncio
import base64
import fcntl
import os
import re
import shlex
import time

TICK_REAL = 0.13          # seconds slept by one Tick (real-subprocess mode; 0.03 in fast mode)
TTL_PER_TICK = 0.10       # pollingInterval (= cache TTL) in real seconds per model tick, always < tick (0.02 in fast mode)
WATCHDOG = 60.0           # seconds for any single settle

TOOL = r'''#!/bin/sh
# harness-provided fake Slurm client tools (C27).  State directory: @STATE@
S=@STATE@
tool=${0##*/}
exec 9>>"$S/lock"
flock 9
read seq < "$S/seq"
seq=$((seq+1))
echo $seq > "$S/seq"
case "$tool" in
sbatch)
  label=0
  while IFS= read -r line || [ -n "$line" ]; do
    case "$line" in *VHJOB=*) label=${line##*VHJOB=}; label=${label%%[!0-9]*};; esac
  done
  read id < "$S/nextid"; echo $((id+1)) > "$S/nextid"
  out="$S/job.$id.out"
  args="$*"
  while [ $# -gt 0 ]; do
    case "$1" in --output|-o) out=$2; shift;; esac
    shift
  done
  echo PENDING > "$S/job.$id.state"; echo 0 > "$S/job.$id.rc"; echo "$label" > "$S/job.$id.label"
  echo "$out" > "$S/job.$id.outpath"
  echo "$seq sbatch id=$id label=$label args=$args" >> "$S/log"
  echo "$id"
  ;;
squeue)
  ids=; states=; args="$*"
  while [ $# -gt 0 ]; do
    case "$1" in
      -j) case "${2-}" in -*|"") ;; *) ids=$2; shift;; esac;;
      -t) states=${2-}; shift;;
      -O|-o) shift;;
    esac
    shift
  done
  list=
  if [ -z "$ids" ]; then
    for f in "$S"/job.*.state; do
      [ -e "$f" ] || continue
      i=${f#"$S"/job.}; i=${i%.state}; list="$list $i"
    done
  else
    oifs=$IFS; IFS=,; for i in $ids; do list="$list $i"; done; IFS=$oifs
  fi
  got=
  for i in $list; do
    [ -e "$S/job.$i.state" ] || continue
    read st < "$S/job.$i.state"
    case "$st" in
      PENDING|RUNNING)
        case ",$states," in
          *",$st,"*|",,") printf '%-20s\n' "$i"; got="$got,$i";;
        esac;;
    esac
  done
  echo "$seq squeue ask=$ids got=${got#,} args=$args" >> "$S/log"
  ;;
scontrol)
  id=${4-}
  if [ "${1-}" != show ] || [ ! -e "$S/job.$id.state" ]; then
    echo "$seq scontrol id=$id state=INVALID args=$*" >> "$S/log"
    echo "slurm_load_jobs error: Invalid job id specified" >&2
    exit 1
  fi
  read st < "$S/job.$id.state"; read rc < "$S/job.$id.rc"; read op < "$S/job.$id.outpath"
  echo "$seq scontrol id=$id state=$st rc=$rc" >> "$S/log"
  echo "JobId=$id JobName=vh UserId=vh(1000) GroupId=vh(1000) MCS_label=N/A Priority=4294901757 Nice=0 Account=(null) QOS=normal JobState=$st Reason=None Dependency=(null) Requeue=1 Restarts=0 BatchFlag=1 Reboot=0 ExitCode=$rc:0 RunTime=00:00:01 TimeLimit=UNLIMITED TimeMin=N/A Partition=debug AllocNode:Sid=login:1 NodeList=(null) NumNodes=1 NumCPUs=1 NumTasks=1 CPUs/Task=1 Command=(null) WorkDir=/tmp StdErr=$op StdIn=/dev/null StdOut=$op Power="
  ;;
scancel)
  ids=; hit=
  for i in "$@"; do
    ids="$ids,$i"
    if [ -e "$S/job.$i.state" ]; then
      read st < "$S/job.$i.state"
      case "$st" in PENDING|RUNNING) echo CANCELLED > "$S/job.$i.state"; hit="$hit,$i";; esac
    fi
  done
  echo "$seq scancel ids=${ids#,} hit=${hit#,}" >> "$S/log"
  ;;
*)
  echo "$seq $tool unexpected args=$*" >> "$S/log"
  ;;
esac
exit 0
'''

TOOLS = ("sbatch", "squeue", "scontrol", "scancel", "sacct")


def _sed_subst(expr: str):
    """`s/BRE/REPL/p` -> (compiled python regex, python replacement) or None when not understood."""
    if len(expr) < 4 or expr[0] != "s" or not expr.endswith("/p") or expr[1] != "/":
        return None
    body = expr[2:-2]
    parts, cur, i = [], "", 0
    while i < len(body):
        if body[i] == "\\" and i + 1 < len(body):
            cur += body[i:i + 2]
            i += 2
        elif body[i] == "/":
            parts.append(cur)
            cur = ""
            i += 1
        else:
            cur += body[i]
            i += 1
    parts.append(cur)
    if len(parts) != 2:
        return None
    bre, repl = parts
    out, i = "", 0
    while i < len(bre):
        c = bre[i]
        if c == "\\" and i + 1 < len(bre):
            d = bre[i + 1]
            if d in "()+?":
                out += d
            elif d in ".*[]^$\\/":
                out += "\\" + d
            else:
                return None
            i += 2
        elif c == "[":
            j = bre.find("]", i + 2 if bre[i + 1:i + 2] == "^" else i + 1)
            if bre.startswith("[[:space:]]", i):
                out += r"\s"
                i += len("[[:space:]]")
            elif bre.startswith("[^[:space:]]", i):
                out += r"\S"
                i += len("[^[:space:]]")
            elif j > 0 and "[:" not in bre[i:j + 1]:
                out += bre[i:j + 1]
                i = j + 1
            else:
                return None
        elif c in "()+?{}|":
            out += "\\" + c
            i += 1
        else:
            out += c
            i += 1
    py_repl = re.sub(r"\\([1-9])", r"\\g<\1>", repl)
    if "&" in repl:
        return None
    try:
        return re.compile(out), py_repl
    except re.error:
        return None
FIRST_ID = 4001


def own_output(label: int, jid: str) -> str:
    return "OUT-of-job-%d-id-%s" % (label, jid)


def own_rc(label: int) -> int:
    return 10 + label


class Cluster:
    def __init__(self, root: str):
        self.state = os.path.join(root, "state")
        self.bin = os.path.join(root, "bin")
        os.makedirs(self.state)
        os.makedirs(self.bin)
        script = os.path.join(self.bin, "qtool")
        with open(script, "w") as f:
            f.write(TOOL.replace("@STATE@", self.state))
        os.chmod(script, 0o755)
        for t in TOOLS:
            os.symlink("qtool", os.path.join(self.bin, t))
        for name, val in (("seq", "0"), ("nextid", str(FIRST_ID)), ("log", ""), ("lock", "")):
            with open(os.path.join(self.state, name), "w") as f:
                f.write(val + ("\n" if val else ""))
        self._pos = 0
        self.lines = []          # every parsed log line so far

    # ---- driver-side access, through the same lock and the same counter --------------------
    def _with_lock(self, fn):
        with open(os.path.join(self.state, "lock"), "a") as lk:
            fcntl.flock(lk, fcntl.LOCK_EX)
            try:
                with open(os.path.join(self.state, "seq")) as f:
                    seq = int(f.read().strip()) + 1
                with open(os.path.join(self.state, "seq"), "w") as f:
                    f.write("%d\n" % seq)
                return fn(seq)
            finally:
                fcntl.flock(lk, fcntl.LOCK_UN)

    def _append(self, seq, text):
        with open(os.path.join(self.state, "log"), "a") as f:
            f.write("%d %s\n" % (seq, text))

    def note(self, text: str) -> int:
        return self._with_lock(lambda seq: (self._append(seq, "note kind=" + text), seq)[1])

    def job_state(self, jid: str):
        p = os.path.join(self.state, "job.%s.state" % jid)
        if not os.path.exists(p):
            return None
        with open(p) as f:
            return f.read().strip()

    def _set(self, jid, name, val):
        with open(os.path.join(self.state, "job.%s.%s" % (jid, name)), "w") as f:
            f.write(val + "\n")

    def runs(self, jid: str, label: int) -> bool:
        def fn(seq):
            if self.job_state(jid) != "PENDING":
                return False
            self._set(jid, "state", "RUNNING")
            self._append(seq, "runs id=%s label=%d" % (jid, label))
            return True
        return self._with_lock(fn)

    def leave(self, jid: str, label: int) -> bool:
        """The job terminates normally: its own output file and exit code appear, then it leaves the queue."""
        def fn(seq):
            if self.job_state(jid) not in ("PENDING", "RUNNING"):
                return False
            with open(os.path.join(self.state, "job.%s.outpath" % jid)) as f:
                op = f.read().strip()
            with open(op, "w") as f:
                f.write(own_output(label, jid) + "\n")
            self._set(jid, "rc", str(own_rc(label)))
            self._set(jid, "state", "COMPLETED")
            self._append(seq, "leave id=%s label=%d" % (jid, label))
            return True
        return self._with_lock(fn)

    # ---- the same tools, in-process (fast path; mirrors the dash script line by line) ----------
    def _read(self, jid, name):
        with open(os.path.join(self.state, "job.%s.%s" % (jid, name))) as f:
            return f.readline().rstrip("\n")

    def tool_sbatch(self, script: str, argv: list):
        def fn(seq):
            label = "0"
            for line in script.splitlines():
                if "VHJOB=" in line:
                    label = re.match(r"[0-9]*", line.rsplit("VHJOB=", 1)[1]).group(0)
            with open(os.path.join(self.state, "nextid")) as f:
                jid = f.read().strip()
            with open(os.path.join(self.state, "nextid"), "w") as f:
                f.write("%d\n" % (int(jid) + 1))
            out = os.path.join(self.state, "job.%s.out" % jid)
            i = 0
            while i < len(argv):
                if argv[i] in ("--output", "-o") and i + 1 < len(argv):
                    out = argv[i + 1]
                    i += 1
                i += 1
            self._set(jid, "state", "PENDING"); self._set(jid, "rc", "0"); self._set(jid, "label", label)
            self._set(jid, "outpath", out)
            self._append(seq, "sbatch id=%s label=%s args=%s" % (jid, label, " ".join(argv)))
            return jid + "\n", 0
        return self._with_lock(fn)

    def tool_squeue(self, argv: list):
        def fn(seq):
            ids, states = "", ""
            i = 0
            while i < len(argv):
                a = argv[i]
                nxt = argv[i + 1] if i + 1 < len(argv) else ""
                if a == "-j":
                    if nxt and not nxt.startswith("-"):
                        ids = nxt
                        i += 1
                elif a == "-t":
                    states = nxt
                    i += 1
                elif a in ("-O", "-o"):
                    i += 1
                i += 1
            if not ids:
                lst = sorted(f[4:-6] for f in os.listdir(self.state) if f.startswith("job.") and f.endswith(".state"))
            else:
                lst = [x for x in ids.split(",") if x]
            got, outp = [], []
            for j in lst:
                st = self.job_state(j)
                if st in ("PENDING", "RUNNING") and (states == "" or st in states.split(",")):
                    outp.append("%-20s\n" % j)
                    got.append(j)
            self._append(seq, "squeue ask=%s got=%s args=%s" % (ids, ",".join(got), " ".join(argv)))
            return "".join(outp), 0
        return self._with_lock(fn)

    def tool_scontrol(self, argv: list):
        def fn(seq):
            jid = argv[3] if len(argv) > 3 else ""
            if (argv[0] if argv else "") != "show" or self.job_state(jid) is None:
                self._append(seq, "scontrol id=%s state=INVALID args=%s" % (jid, " ".join(argv)))
                return "", 1
            st, rc, op = self.job_state(jid), self._read(jid, "rc"), self._read(jid, "outpath")
            self._append(seq, "scontrol id=%s state=%s rc=%s" % (jid, st, rc))
            return ("JobId=%s JobName=vh UserId=vh(1000) GroupId=vh(1000) MCS_label=N/A Priority=4294901757 Nice=0 Account=(null) "
                    "QOS=normal JobState=%s Reason=None Dependency=(null) Requeue=1 Restarts=0 BatchFlag=1 Reboot=0 ExitCode=%s:0 "
                    "RunTime=00:00:01 TimeLimit=UNLIMITED TimeMin=N/A Partition=debug AllocNode:Sid=login:1 NodeList=(null) NumNodes=1 "
                    "NumCPUs=1 NumTasks=1 CPUs/Task=1 Command=(null) WorkDir=/tmp StdErr=%s StdIn=/dev/null StdOut=%s Power=\n" % (
                        jid, st, rc, op, op)), 0
        return self._with_lock(fn)

    def tool_scancel(self, argv: list):
        def fn(seq):
            hit = []
            for j in argv:
                if self.job_state(j) in ("PENDING", "RUNNING"):
                    self._set(j, "state", "CANCELLED")
                    hit.append(j)
            self._append(seq, "scancel ids=%s hit=%s" % (",".join(argv), ",".join(hit)))
            return "", 0
        return self._with_lock(fn)

    def exec_fast(self, text: str):
        """Interpret the few command shapes the Slurm connector issues.  Returns (stdout, rc) or None when the
        command is not one of them (the caller then runs it through the real shell and the dash tools)."""
        try:
            lx = shlex.shlex(text, posix=True, punctuation_chars=True)
            lx.whitespace_split = True
            toks = list(lx)
        except ValueError:
            return None
        stages, cur = [], []
        for t in toks:
            if t == "|":
                stages.append(cur)
                cur = []
            elif t and all(ch in "();<>|&" for ch in t):
                return None
            else:
                cur.append(t)
        stages.append(cur)
        plan = []
        for st in stages:
            while st and re.match(r"^[A-Za-z_][A-Za-z0-9_]*=", st[0]):
                st = st[1:]
            if not st or any(("$" in w or "`" in w) for w in st):
                return None
            cmd, args = st[0], st[1:]
            if cmd == "echo" and not any(a.startswith("-") for a in args[:1]):
                plan.append(("echo", args))
            elif cmd == "base64" and args == ["-d"]:
                plan.append(("b64", args))
            elif cmd in ("sbatch", "squeue", "scontrol", "scancel"):
                plan.append((cmd, args))
            elif cmd == "cat" and len(args) == 1 and not args[0].startswith("-"):
                plan.append(("cat", args))
            elif cmd == "sed" and len(args) == 2 and args[0] == "-n":
                rx = _sed_subst(args[1])
                if rx is None:
                    return None
                plan.append(("sed", rx))
            else:
                return None
        data, rc = "", 0
        for op, args in plan:
            if op == "echo":
                data, rc = " ".join(args) + "\n", 0
            elif op == "b64":
                try:
                    data, rc = base64.b64decode(data).decode(), 0
                except Exception:
                    return None
            elif op == "sbatch":
                data, rc = self.tool_sbatch(data, args)
            elif op == "squeue":
                data, rc = self.tool_squeue(args)
            elif op == "scontrol":
                data, rc = self.tool_scontrol(args)
            elif op == "scancel":
                data, rc = self.tool_scancel(args)
            elif op == "cat":
                try:
                    with open(args[0]) as f:
                        data, rc = f.read(), 0
                except OSError:      # the connector appends 2>&1: the message is part of the captured output
                    data, rc = "cat: %s: No such file or directory\n" % args[0], 1
            elif op == "sed":
                pat, repl = args
                outl = []
                for line in data.splitlines():
                    new, k = pat.subn(repl, line, count=1)
                    if k:
                        outl.append(new + "\n")
                data, rc = "".join(outl), 0
        return data.strip(), rc

    def read_new(self) -> list:
        with open(os.path.join(self.state, "log")) as f:
            f.seek(self._pos)
            data = f.read()
            # only complete lines
            end = data.rfind("\n") + 1
            self._pos += len(data[:end].encode())
            data = data[:end]
        out = []
        for line in data.splitlines():
            parts = line.split(" ", 2)
            if len(parts) < 2:
                continue
            rec = {"seq": int(parts[0]), "tool": parts[1], "raw": line}
            rest = parts[2] if len(parts) > 2 else ""
            if " args=" in rest or rest.startswith("args="):
                rest, _, a = rest.partition("args=")
                rec["args"] = a
            for kv in rest.split():
                k, _, v = kv.partition("=")
                rec[k] = v
            out.append(rec)
        self.lines += out
        return out


# ------------------------------------------------------------------------------------------------

class Call:
    __slots__ = ("n", "task", "tool", "text", "state", "result", "fut")

    def __init__(self, n, task, tool, text):
        self.n, self.task, self.tool, self.text = n, task, tool, text
        self.state = "running"      # running -> parked -> released
        self.result = None
        self.fut = None


def classify(command) -> str:
    words = " ".join(str(c) for c in command).split()
    for w in words:
        base = w.rsplit("/", 1)[-1]
        if base in TOOLS or base in ("cat", "qstat", "qsub", "qdel", "flux"):
            return base
    return words[0] if words else "?"


class Recorder:
    """Shared by the gated connector, the patched sleep and the driver (single thread, one loop)."""

    def __init__(self):
        self.calls = []
        self.sleepers = {}       # task label -> {"fut", "ticks", "delay"}
        self.inflight = 0
        self.fast = 0            # commands interpreted in-process
        self.slow = 0            # commands run through /bin/sh and the dash tools
        self.changed = None      # asyncio.Event, created inside the loop

    def label(self) -> str:
        t = asyncio.current_task()
        return t.get_name() if t is not None else "?"

    def poke(self):
        if self.changed is not None:
            self.changed.set()

    def parked(self, tool=None):
        return [c for c in self.calls if c.state == "parked" and (tool is None or c.tool == tool)]


def make_gated_local(rec: Recorder, name: str, config_dir: str, cluster=None, fast: bool = False):
    from streamflow.deployment.connector.local import LocalConnector

    class GatedLocal(LocalConnector):
        async def run(self, location, command, environment=None, workdir=None, stdin=None,
                      stdout=asyncio.subprocess.STDOUT, stderr=asyncio.subprocess.STDOUT,
                      capture_output=False, timeout=None, job_name=None):
            call = Call(len(rec.calls), rec.label(), classify(command), " ".join(str(c) for c in command))
            rec.calls.append(call)
            rec.inflight += 1
            exc = None
            try:
                res = None
                done = False
                if fast and cluster is not None and environment is None and workdir is None and stdin is None \
                        and stdout == asyncio.subprocess.STDOUT and stderr == asyncio.subprocess.STDOUT:
                    r = cluster.exec_fast(call.text)
                    if r is not None:
                        done = True
                        rec.fast += 1
                        res = r if capture_output else None
                        await asyncio.sleep(0)      # a connector call always suspends
                if not done:
                    rec.slow += 1
                    res = await super().run(location=location, command=command, environment=environment,
                                            workdir=workdir, stdin=stdin, stdout=stdout, stderr=stderr,
                                            capture_output=capture_output, timeout=timeout, job_name=job_name)
            except Exception as e:          # the command itself failed: still an observation
                res, exc = None, e
            call.result = res
            call.fut = asyncio.get_running_loop().create_future()
            call.state = "parked"
            rec.inflight -= 1
            rec.poke()
            try:
                await call.fut
            finally:
                call.state = "released"
            if exc is not None:
                raise exc
            return res

    return GatedLocal(name, config_dir)


class _AsyncioProxy:
    """Stands for the `asyncio` module inside queue_manager.py: only `sleep` is replaced (parked on a gate)."""

    def __init__(self, real, rec: Recorder):
        self.__dict__["_real"] = real
        self.__dict__["_rec"] = rec

    def __getattr__(self, name):
        return getattr(self._real, name)

    async def sleep(self, delay, result=None):
        if delay is None or delay <= 0:
            return await self._real.sleep(0, result)
        rec = self._rec
        fut = self._real.get_running_loop().create_future()
        rec.sleepers[rec.label()] = {"fut": fut, "delay": delay, "ticks": None}
        rec.poke()
        try:
            await fut
        finally:
            rec.sleepers.pop(rec.label(), None)
        return result


# ------------------------------------------------------------------------------------------------

class Schedule:
    """One execution of the real SlurmConnector under a schedule of environment actions.

    `choose(enabled, self)` returns one of the enabled actions or None (= stop and drain).
    Actions: ("Start", j) ("SbatchDone", j) ("SqueueDone", j) ("CollectDone", j) ("Wake", j) ("Tick",)
             ("JobRuns", j) ("JobLeaves", j) ("UndeployStart",) ("ScancelDone",)
    """

    def __init__(self, root: str, n: int, p: int, choose, max_ticks: int = 8, undeploy: bool = True,
                 connector_cls: str = "SlurmConnector", fast: bool = True):
        self.fast = fast
        self.tick_real = 0.03 if fast else TICK_REAL
        self.ttl_per_tick = 0.02 if fast else TTL_PER_TICK
        self.root, self.n, self.p, self.choose = root, n, p, choose
        self.max_ticks, self.allow_undeploy = max_ticks, undeploy
        self.connector_cls = connector_cls
        self.rec = Recorder()
        self.cluster = Cluster(root)
        self.events = []         # trace for Trace_QueueManager
        self.applied = []        # driver actions actually applied (replayable schedule)
        self.tasks = {}          # label(int) -> asyncio.Task
        self.ids = {}            # label -> cluster job id (str)
        self.labels = {}         # id -> label
        self.registered = set()  # labels whose SbatchDone was delivered
        self.results = {}        # label -> ("ret", out, rc) | ("raise", repr)
        self.ticks = 0
        self.undeploy_task = None
        self.undeploy_info = None
        self.findings = []       # direct verdicts: (signature, detail, what)
        self.machinery = None
        self.collect_noted = set()
        self.hits = 0
        self.wall = 0.0

    # ---- set-up -------------------------------------------------------------------------------
    async def _setup(self):
        import streamflow.deployment.connector.queue_manager as qm
        self.qm = qm
        self.rec.changed = asyncio.Event()
        self._saved_asyncio = qm.asyncio
        qm.asyncio = _AsyncioProxy(self._saved_asyncio if not isinstance(self._saved_asyncio, _AsyncioProxy)
                                   else self._saved_asyncio._real, self.rec)
        inner = make_gated_local(self.rec, "vh-local", self.root, self.cluster, self.fast)
        cls = getattr(qm, self.connector_cls)
        self.connector = cls(deployment_name="vh-slurm", config_dir=self.root, connector=inner, service=None,
                             maxConcurrentJobs=16, pollingInterval=self.ttl_per_tick * self.p)
        locs = await self.connector.get_available_locations()
        self.location = next(iter(locs.values())).location
        inner_loc = self.location.wraps
        inner_loc.environment = {"PATH": self.cluster.bin + os.pathsep + os.environ.get("PATH", "/usr/bin:/bin")}

    def _teardown(self):
        self.qm.asyncio = self._saved_asyncio

    # ---- observation --------------------------------------------------------------------------
    def _label_of(self, taskname):
        try:
            return int(taskname[1:]) if taskname.startswith("J") else None
        except ValueError:
            return None

    def obs_pc(self, j: int) -> str:
        t = self.tasks.get(j)
        if t is None:
            return "idle"
        if t.done():
            return "done" if self.results.get(j, ("?",))[0] == "ret" else "raised"
        name = "J%d" % j
        for c in self.rec.calls:
            if c.task == name and c.state in ("running", "parked"):
                return {"sbatch": "sbatch", "squeue": "squeue", "scontrol": "collect", "cat": "collect"}.get(c.tool, "cmd:" + c.tool)
        if name in self.rec.sleepers:
            return "sleep"
        return "lw"

    def obs(self) -> dict:
        o = {"pc": [self.obs_pc(j) for j in range(1, self.n + 1)]}
        sj = getattr(self.connector, "_scheduled_jobs", None)
        if isinstance(sj, dict):
            o["sched"] = sorted(self.labels.get(k, 0) for k in sj.keys())
        return o

    def _collect_results(self):
        for j, t in self.tasks.items():
            if t.done() and j not in self.results:
                if t.cancelled():
                    self.results[j] = ("raise", "CancelledError")
                elif t.exception() is not None:
                    self.results[j] = ("raise", "%s: %s" % (type(t.exception()).__name__, t.exception()))
                else:
                    r = t.result()
                    if isinstance(r, tuple) and len(r) == 2:
                        self.results[j] = ("ret", r[0], r[1])
                    else:
                        self.results[j] = ("ret", repr(r), None)
                kind = self.results[j][0]
                if kind == "ret" and j not in self.collect_noted:
                    self.collect_noted.add(j)
                    self.cluster.note("collect label=%d" % j)
                self.cluster.note("%s label=%d" % ("return" if kind == "ret" else "raise", j))
            elif not t.done() and j not in self.collect_noted and self.obs_pc(j) == "collect":
                # the call left the polling loop during this step (before any later driver action)
                self.collect_noted.add(j)
                self.cluster.note("collect label=%d" % j)

    def _absorb_log(self):
        """New cluster-side log lines -> Exec events (in log order)."""
        for ln in self.cluster.read_new():
            t = ln["tool"]
            if t == "sbatch":
                j = int(ln.get("label", "0") or 0)
                self.ids[j] = ln["id"]
                self.labels[ln["id"]] = j
                self.events.append({"e": "SbatchExec", "j": j, "seq": ln["seq"]})
            elif t == "squeue":
                ask = [self.labels.get(x, 0) for x in ln.get("ask", "").split(",") if x]
                got = [self.labels.get(x, 0) for x in ln.get("got", "").split(",") if x]
                # attribute to the oldest squeue call in flight that has no log line yet
                who = 0
                for c in self.rec.calls:
                    if c.tool == "squeue" and c.n not in self._seen_calls and c.state in ("running", "parked"):
                        self._seen_calls.add(c.n)
                        who = self._label_of(c.task) or 0
                        break
                self.events.append({"e": "SqueueExec", "j": who, "ask": sorted(ask), "got": sorted(got), "seq": ln["seq"]})
            elif t == "scancel":
                ids = [self.labels.get(x, 0) for x in ln.get("ids", "").split(",") if x]
                self.events.append({"e": "ScancelExec", "ids": sorted(ids), "seq": ln["seq"]})

    async def settle(self):
        """Run until every task is blocked on a gate, a sleep gate or the lock and no command is executing."""
        loop = asyncio.get_running_loop()
        t0 = time.monotonic()
        idle = 0
        while True:
            await asyncio.sleep(0)
            if self.rec.inflight > 0:
                idle = 0
                self.rec.changed.clear()
                if self.rec.inflight > 0:
                    try:
                        await asyncio.wait_for(self.rec.changed.wait(), WATCHDOG)
                    except (asyncio.TimeoutError, TimeoutError):
                        raise RuntimeError("watchdog: a command did not complete within %ss" % WATCHDOG)
                continue
            if len(getattr(loop, "_ready", ())) == 0:
                idle += 1
                if idle >= 3:
                    break
            else:
                idle = 0
            if time.monotonic() - t0 > WATCHDOG:
                raise RuntimeError("watchdog: the connector does not come to rest (busy loop?)")
        self._collect_results()
        self._absorb_log()

    # ---- actions ------------------------------------------------------------------------------
    def enabled(self) -> list:
        en = []
        started = len(self.tasks)
        if started < self.n:
            en.append(("Start", started + 1))
        for c in self.rec.parked():
            j = self._label_of(c.task)
            if c.tool == "scancel":
                en.append(("ScancelDone",))
            elif j is not None:
                en.append(({"sbatch": "SbatchDone", "squeue": "SqueueDone"}.get(c.tool, "CollectDone"), j))
            else:
                en.append(("OtherDone", c.n))
        for name, s in self.rec.sleepers.items():
            j = self._label_of(name)
            if j is not None and s["ticks"] is not None and s["ticks"] <= 0:
                en.append(("Wake", j))
        if self.ticks < self.max_ticks:
            en.append(("Tick",))
        for j, jid in self.ids.items():
            st = self.cluster.job_state(jid)
            if st == "PENDING":
                en.append(("JobRuns", j))
            if st in ("PENDING", "RUNNING"):
                en.append(("JobLeaves", j))
        if self.allow_undeploy and self.undeploy_task is None:
            en.append(("UndeployStart",))
        return en

    def _open(self, tool_pred, taskname=None):
        for c in self.rec.parked():
            if tool_pred(c) and (taskname is None or c.task == taskname):
                c.fut.set_result(None)
                c.state = "released"
                return c
        return None

    async def apply(self, a):
        kind = a[0]
        ev = {"e": kind}
        ev.update(self.obs())            # observation BEFORE the action (= after the previous settle)
        if len(a) > 1 and kind != "OtherDone":
            ev["j"] = a[1]
        self.applied.append(list(a))
        self.events.append(ev)
        if kind == "Start":
            j = a[1]
            coro = self.connector.run(self.location, ["echo", "VHJOB=%d" % j], workdir=self.root, job_name="/vh/job%d" % j)
            self.tasks[j] = asyncio.get_running_loop().create_task(coro, name="J%d" % j)
        elif kind in ("SbatchDone", "SqueueDone", "CollectDone"):
            name = "J%d" % a[1]
            want = {"SbatchDone": ("sbatch",), "SqueueDone": ("squeue",)}.get(kind)
            c = self._open(lambda c: (c.tool in want) if want else (c.tool not in ("sbatch", "squeue", "scancel")), name)
            if c is None:
                raise RuntimeError("driver: %s not parked" % (a,))
            if kind == "SbatchDone":
                self.registered.add(a[1])
        elif kind == "ScancelDone":
            self._open(lambda c: c.tool == "scancel")
        elif kind == "OtherDone":
            self._open(lambda c: c.n == a[1])
        elif kind == "Wake":
            s = self.rec.sleepers.get("J%d" % a[1])
            s["fut"].set_result(None)
        elif kind == "Tick":
            self.ticks += 1
            time.sleep(self.tick_real)   # real time passes for the real TTL cache; nothing runs meanwhile
            for s in self.rec.sleepers.values():
                if s["ticks"] is not None:
                    s["ticks"] -= 1
        elif kind == "JobRuns":
            self.cluster.runs(self.ids[a[1]], a[1])
        elif kind == "JobLeaves":
            self.cluster.leave(self.ids[a[1]], a[1])
        elif kind == "UndeployStart":
            collected = {j for j in self.registered if self.obs_pc(j) in ("collect", "done")}
            raised = {j for j in self.registered if self.obs_pc(j) == "raised"}
            self.undeploy_info = {"expected": sorted(self.registered - collected - raised), "at_event": len(self.events) - 1,
                                  "seq": self.cluster.note("undeploy-call")}
            self.undeploy_task = asyncio.get_running_loop().create_task(self.connector.undeploy(False), name="U")
        else:
            raise RuntimeError("unknown action %r" % (a,))
        await self.settle()
        # sleeps that began during this step last P ticks from now
        for s in self.rec.sleepers.values():
            if s["ticks"] is None:
                s["ticks"] = self.p
        # a CollectDone that ended the call carries the returned values
        if kind == "CollectDone" and a[1] in self.results:
            ev["fin"] = self._fin(a[1])
        if kind in ("SbatchDone", "SqueueDone", "Wake", "CollectDone", "ScancelDone", "Start") and len(a) > 1:
            j = a[1]
            if j in self.results and "fin" not in ev and kind != "CollectDone":
                ev["fin"] = self._fin(j)
        self._after_undeploy_step()

    def _fin(self, j):
        r = self.results[j]
        if r[0] == "raise":
            return {"kind": "raise", "exc": r[1]}
        if self.cluster.job_state(self.ids.get(j, "")) == "CANCELLED":
            return {"kind": "ret", "out": 0, "rc": 0}      # a cancelled job has no results of its own: not compared
        return {"kind": "ret", "out": self._out_owner(r[1]), "rc": self._rc_owner(r[2])}

    def _out_owner(self, out):
        if out is None or out == "":
            return 0
        for j, jid in self.ids.items():
            if out == own_output(j, jid):
                return j
        return 99

    def _rc_owner(self, rc):
        if rc == 0:
            return 0
        for j in self.ids:
            if rc == own_rc(j):
                return j
        return 99

    def _after_undeploy_step(self):
        t = self.undeploy_task
        info = self.undeploy_info
        if t is None or info is None or "outcome" in info or not t.done():
            return
        if t.cancelled():
            info["outcome"] = "raise:CancelledError"
        elif t.exception() is not None:
            info["outcome"] = "raise:%s" % type(t.exception()).__name__
            info["message"] = str(t.exception())
        else:
            info["outcome"] = "ok"
        info["end_seq"] = self.cluster.note("undeploy-" + info["outcome"])

    # ---- main ---------------------------------------------------------------------------------
    async def _main(self):
        self._seen_calls = set()
        await self._setup()
        try:
            await self.settle()
            steps = 0
            while steps < 400:
                en = self.enabled()
                a = self.choose(en, self)
                if a is None:
                    break
                await self.apply(a)
                steps += 1
            await self._drain()
        finally:
            self._teardown()

    async def _drain(self):
        """Bring every call to an end: all jobs leave, then deliver everything in a fixed order."""
        for _ in range(400):
            if all(t.done() for t in self.tasks.values()) and (self.undeploy_task is None or self.undeploy_task.done()) \
                    and not self.rec.parked():
                return
            en = self.enabled()
            pick = None
            for pref in ("ScancelDone", "JobLeaves", "SbatchDone", "SqueueDone", "CollectDone", "OtherDone", "Wake"):
                c = [a for a in en if a[0] == pref]
                if c:
                    pick = c[0]
                    break
            if pick is None:
                if any(not t.done() for t in self.tasks.values()) and self.rec.sleepers:
                    self.max_ticks = max(self.max_ticks, self.ticks + 1)
                    pick = ("Tick",)
                else:
                    break
            await self.apply(pick)
        live = [j for j, t in self.tasks.items() if not t.done()]
        if live:
            self.machinery = "calls %s did not end during the drain (pcs %s)" % (live, self.obs()["pc"])

    def run(self):
        from vh import aio
        t0 = time.time()
        _, exc = aio.run(self._main(), timeout=600)
        self.wall = time.time() - t0
        if exc is not None:
            self.machinery = "%s: %s" % (type(exc).__name__, exc)
        self.cluster.read_new()
        return self

    # ---- direct verdicts (from the sequence-numbered cluster log + the values returned by run()) ----
    def verdicts(self) -> list:
        """[(signature, detail, what)] - clauses of C27 evaluated on this execution."""
        out = []
        L = self.cluster.lines
        gone = {}            # label -> seq at which the job left the queue (normal end or cancel)
        cancelled = set()
        first_show = {}      # label -> seq at which the call for that job was seen past the polling loop
        ret_seq = {}
        for ln in L:
            t = ln["tool"]
            if t == "leave":
                gone.setdefault(int(ln["label"]), ln["seq"])
            elif t == "scancel":
                for x in ln.get("hit", "").split(","):
                    if x and x in self.labels:
                        gone.setdefault(self.labels[x], ln["seq"])
                        cancelled.add(self.labels[x])
            elif t == "note" and ln.get("kind") == "collect":
                first_show.setdefault(int(ln["label"]), ln["seq"])
            elif t == "note" and ln.get("kind") in ("return", "raise"):
                ret_seq[int(ln["label"])] = ln["seq"]
        undeployed = self.undeploy_info is not None and self.undeploy_info.get("outcome") == "ok"
        for j, r in sorted(self.results.items()):
            jid = self.ids.get(j)
            base = {"job": j, "id": jid, "result": list(r), "gone_seq": gone.get(j), "collect_seq": first_show.get(j),
                    "return_seq": ret_seq.get(j)}
            report = min(x for x in (first_show.get(j), ret_seq.get(j)) if x is not None) if (first_show.get(j) or ret_seq.get(j)) else None
            reported = r[0] == "ret" or j in first_show
            if reported and report is not None and (j not in gone or report < gone[j]):
                out.append(("run:reported-while-queued" if r[0] == "ret" else "run:left-polling-loop-while-queued",
                            base, "run() for job %d stopped polling / returned %r at log seq %s but the job %s" % (
                                j, r[1:], report, "never left the queue before that" if j not in gone else "left at seq %s" % gone[j])))
                continue
            if r[0] == "ret" and j not in cancelled:
                exp_out = own_output(j, jid)
                exp_rc = own_rc(j)
                if r[1] != exp_out:
                    who = self._out_owner(r[1])
                    sig = "run:output-of-another-job" if who not in (0, 99, j) else ("run:empty-output-for-finished-job" if who == 0 else "run:wrong-output")
                    out.append((sig, dict(base, expected=exp_out), "run() for job %d returned output %r, its own is %r" % (j, r[1], exp_out)))
                if r[2] != exp_rc:
                    who = self._rc_owner(r[2])
                    sig = "run:exit-code-of-another-job" if who not in (0, 99, j) else "run:wrong-exit-code"
                    out.append((sig, dict(base, expected=exp_rc), "run() for job %d returned exit code %r, its own is %r" % (j, r[2], exp_rc)))
            elif r[0] == "raise" and not undeployed:
                exc = r[1].split(":")[0]
                out.append(("run:raises:%s" % exc, base, "run() for job %d raised %s (no undeploy happened)" % (j, r[1])))
        info = self.undeploy_info
        if info is not None and "outcome" in info:
            asked, n_calls = set(), 0
            for ln in L:
                if ln["tool"] == "scancel" and ln["seq"] > info["seq"] and ln["seq"] < info.get("end_seq", 1 << 60):
                    n_calls += 1
                    asked |= {self.labels.get(x, "id:" + x) for x in ln.get("ids", "").split(",") if x}
            exp = set(info["expected"])
            d = {"expected": sorted(exp), "asked": sorted(asked, key=str), "scancel_calls": n_calls, "outcome": info["outcome"],
                 "message": info.get("message", "")}
            info["asked"] = d["asked"]
            if info["outcome"] != "ok":
                msg = info.get("message", "")
                cls = "no-inner-location" if "does not wrap any inner location" in msg else "other"
                out.append(("undeploy:raises:%s:%s%s" % (info["outcome"].split(":", 1)[1], cls,
                                                        "" if exp - asked else ":after-cancelling"),
                            d, "undeploy() raised %s (%s); jobs still registered %s, scancel asked for %s" % (
                                info["outcome"], msg, sorted(exp), d["asked"])))
            elif asked != exp:
                sig = "undeploy:cancel-set:%s" % ("missing" if exp - asked else "extra")
                out.append((sig, d, "undeploy() cancelled %s, the jobs registered and not collected were %s" % (d["asked"], sorted(exp))))
        return out

    def summary(self) -> dict:
        return {"n": self.n, "p": self.p, "applied": self.applied, "events": self.events, "results": {str(k): list(v) for k, v in self.results.items()},
                "undeploy": self.undeploy_info, "machinery": self.machinery, "log": [ln["raw"] for ln in self.cluster.lines],
                "wall": round(self.wall, 2), "final": self.obs() if hasattr(self, "connector") else None}
