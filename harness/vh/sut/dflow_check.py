"""Shared pipeline of C04 / C05 / C07 (module Dataflow): model-check every generated network with TLC,
execute it for real under seeded completion delays, validate the recorded traces against Trace_Dataflow,
and judge the property-specific clauses on the real runs."""
from __future__ import annotations

import json
import os
from concurrent.futures import ProcessPoolExecutor

from vh import aio, trace
from vh.sut import dflow_gen, dflow_tla as dt

KNOWN_DEADEND = "spurious-raise:dead-end-step-cancelled-by-close"


def _worker(args):
    desc, seed, slow = args[:3]
    order = args[3] if len(args) > 3 else None
    os.environ["STREAMFLOW_VERIF"] = "1"
    import logging
    logging.disable(logging.CRITICAL)
    from vh.sut import dflow
    r, e = aio.run(dflow.run_once(desc, seed=seed, slow_ports=slow, order=order), timeout=150)
    if e is not None:
        return {"harness_error": repr(e), "desc": desc, "seed": seed}
    r["seed"] = seed
    return r


def descriptions(ctx):
    lib = dflow_gen.library(n_small=2, n_big=ctx.pick(3, 4))
    if ctx.quick:
        # the heavier shapes (nested scatter, nested scatter with jobs) are explored on the thorough tier only
        lib = [d for d in lib if d["name"] not in ("nested", "nestedx")]
    descs = []
    for d in lib:
        descs.append(d)
        if "jobs" in d["classes"] and "dead-end" not in d["classes"]:
            if d["name"] == "sfx2" or (ctx.quick and d["name"] == "xx2t"):
                continue        # sfx2: failure-free only (its failure variants multiply the exhaustive batch several times);
                                # xx2t: single-failure variants on the thorough tier
            descs.extend(dflow_gen.with_failures(d))
    rng = ctx.rng("random-graphs")
    for i in range(ctx.pick(6, 40)):
        d = dflow_gen.random_desc(rng, i, max_stages=ctx.pick(2, 3), max_n=ctx.pick(2, 3))
        descs.append(d)
        if "jobs" in d["classes"] and rng.random() < 0.5:
            fs = dflow_gen.with_failures(d)
            if fs:
                descs.append(rng.choice(fs))
    only = os.environ.get("VERIF_DFLOW_ONLY")          # development aid: restrict to the named shapes (and their variants)
    if only:
        names = set(only.split(","))
        descs = [d for d in descs if d["name"].split("+")[0].split("!")[0] in names or d["name"] in names]
    return descs


def job_keys(d):
    """(step, tag) of every job the network runs (from the denotation of its streams)."""
    streams = dt.expected(d)["streams"]
    keys = []
    for s in d["steps"]:
        if s["kind"] != "exec":
            continue
        tags = set(streams.get(s["ins"][0], {}))
        for p in s["ins"][1:]:
            tags &= set(streams.get(p, {}))
        keys += [(s["name"], list(t)) for t in sorted(tags)]
    return keys


def model_check(ctx, descs):
    """Exhaustive TLC runs over ALL generated networks at once (run-to-quiescence interleaving):
    safety invariants with action coverage, then liveness (ExecutorEnds, EveryStepEnds) under weak fairness."""
    files = {"MC_DF.tla": dt.constants_module(descs), "MC_DF.cfg": dt.cfg(liveness=False)}
    # quick: the batch must be explored completely (machinery error otherwise); thorough: the (much larger) batch is
    # time-boxed -- breadth-first, so everything up to the reached depth is covered -- and the box is recorded
    r = ctx.tlc("Dataflow", "MC_DF", "MC_DF.cfg", files=files, timeout=ctx.pick(3000, 1500), allow_timeout=not ctx.quick)
    if r.timed_out and r.error is None:
        ctx.count("exhaustive_batch_time_boxed")
        ctx.assumptions.append("thorough tier: the exhaustive run over the whole batch of networks was stopped by its time box "
                               "(breadth-first: complete up to the depth reached); the quick tier explores its batch completely")
    elif not r.ok:
        return r
    # vacuity guard: action coverage on a sample of the networks (coverage statistics over the whole batch exhaust the heap)
    sample = [d for d in descs if d["name"] in ("sxg", "sdiam", "scond", "dot")] + [d for d in descs if d.get("fail")][:2]
    files_c = {"MC_DF.tla": dt.constants_module(sample), "MC_DF.cfg": dt.cfg(liveness=False)}
    rc = ctx.tlc("Dataflow", "MC_DF", "MC_DF.cfg", files=files_c, timeout=1200, workers=4, coverage=True, count=False)
    if not rc.ok:
        return rc
    import os as _os
    from vh import tlc as _tlc
    text = open(_os.path.join(_tlc.SPECS, "Dataflow", "Dataflow.tla")).read()
    hits = _tlc.definition_hits(rc.stdout, "Dataflow", text, ["RoundStep", "Scatter", "GatherRecv", "DotRecv", "ExecRound", "ExecPair", "JobDone",
                                                               "JobFail", "Emit", "XRecv", "ExecEnd", "Deploy", "SchedConn", "CloseAll"])
    r.coverage = {k: [v, v] for k, v in hits.items()}
    # temporal formulation (ExecutorEnds, EveryStepEnds under weak fairness) on the smaller networks; on all networks
    # the same claim is the invariant QuiescentMeansEnded of the run above
    small = [d for d in descs if len(d["steps"]) <= 4][:40]
    files = {"MC_DF.tla": dt.constants_module(small), "MC_DF.cfg": dt.cfg(liveness=True, invariants=[])}
    r2 = ctx.tlc("Dataflow", "MC_DF", "MC_DF.cfg", files=files, timeout=2400, workers=4, count=False)
    if not r2.ok:
        return r2
    return r


def run_all(ctx, focus):
    """focus in {"C04", "C05", "C07"}: which clauses become violations of this check."""
    descs = descriptions(ctx)
    seeds = ctx.pick(4, 8)
    # ---- 1. the model satisfies the properties on every generated network (all interleavings)
    cls_count = {}
    for d in descs:
        for c in d["classes"]:
            cls_count[c] = cls_count.get(c, 0) + 1
    ctx.extra["graph_classes"] = cls_count
    r = model_check(ctx, descs)
    if not r.ok and not (r.timed_out and r.error is None):
        # a model-level violation is a specification problem or a defect to be confirmed on the code: never a verdict by itself
        which = r.trace[-1]["state"].get("net") if r.trace else None
        ctx.require(False, "Dataflow model violates %s %s on generated network %s (%s)" % (
            r.error, r.violated, which, descs[which - 1]["name"] if which else "?"))
    ctx.require_coverage(r, ["RoundStep", "Scatter", "GatherRecv", "DotRecv", "ExecRound", "ExecPair", "JobDone", "JobFail", "Emit", "XRecv", "ExecEnd",
                             "Deploy", "SchedConn"])
    ctx.extra["action_evaluations"] = {k: v[1] for k, v in r.coverage.items()}
    # permissive interleaving (no priority of pure continuations), safety only, on the small networks (thorough)
    if not ctx.quick:
        small = [d for d in descs if len(d["steps"]) <= 4 and "dead-end" not in d["classes"]][:12]
        files = {"MC_DF.tla": dt.constants_module(small), "MC_DF.cfg": dt.cfg(liveness=False, spec="Spec",
                 invariants=[i for i in dt.SAFETY if i != "NoSpuriousRaise"])}
        r2 = ctx.tlc("Dataflow", "MC_DF", "MC_DF.cfg", files=files, timeout=2400)
        ctx.require(r2.ok, "Dataflow (permissive interleaving) violates %s" % r2.violated)
    # ---- 2. real executions
    jobs = []
    for k, d in enumerate(descs):
        slow = ["nowhere"] if "dead-end" in d["classes"] else []
        if "deploy-lag" in d["classes"]:
            slow = ["__deploy__"]
        for sd in range(seeds):
            sl = slow
            if "cross-product" in d["classes"] and sd % 2 == 1:
                sl = ["a"]       # the first port of the cross product is late: tokens of the second port arrive first
            jobs.append((d, ctx.seed * 1000 + sd, sl, k))
    # imposed job-completion orders (B-env): every permutation of the jobs of a network (bounded), realised with gates
    import itertools
    for k, d in enumerate(descs):
        if "jobs" not in d["classes"] or "dead-end" in d["classes"] or "deploy-lag" in d["classes"]:
            continue
        keys = job_keys(d)
        if not 2 <= len(keys) <= 4:
            continue
        perms = list(itertools.permutations(keys))
        rngp = ctx.rng("perms-" + d["name"])
        rngp.shuffle(perms)
        # the reversed order always takes part: later tags of every step finish before earlier ones
        rev = tuple(reversed(keys))
        perms = [rev] + [x for x in perms if x != rev]
        for pi, perm in enumerate(perms[:ctx.pick(3, 24)]):
            jobs.append((d, ctx.seed * 1000 + 500 + pi, [], k, [list(x) for x in perm]))
    with ProcessPoolExecutor(max_workers=min(12, os.cpu_count() or 4)) as ex:
        runs = list(ex.map(_worker, [(j[0], j[1], j[2], j[4] if len(j) > 4 else None) for j in jobs], chunksize=2))
    jobs = [j[:4] for j in jobs]
    ctx.count("runs_with_imposed_job_order", sum(1 for r in runs if r.get("order")))
    # ---- 3. trace validation: one TLC batch for all runs of all networks
    traces, probs = [], []
    for (d, sd, _, k), r in zip(jobs, runs):
        ctx.require("harness_error" not in r, "harness failure running %s: %s" % (d["name"], r.get("harness_error")))
        tr, pb = dt.to_trace(d, r)
        traces.append({"net": k + 1, "events": tr})
        probs.append(pb)
    files = {"TraceI.tla": dt.constants_module(descs, module="TraceI", extends="Trace_Dataflow"), "TraceI.cfg": dt.TRACE_CFG}
    verdicts = trace.validate(ctx, "Dataflow", "TraceI", "TraceI.cfg", traces, files=files, dfs=True, timeout=2400,
                              extra_env={"IGNORE_DEPS": "0"}, max_diagnose=10)
    # rejected traces: is provenance (the dependee sets) the only thing the specification cannot explain?
    rej = [i for i, v in enumerate(verdicts) if not v["ok"] and v["reason"] == "rejected"]
    if rej:
        v2 = trace.validate(ctx, "Dataflow", "TraceI", "TraceI.cfg", [traces[i] for i in rej], files=files, dfs=True, timeout=2400,
                            extra_env={"IGNORE_DEPS": "1"}, diagnose=False)
        for i, w in zip(rej, v2):
            verdicts[i]["provenance_only"] = bool(w["ok"])
    by_desc = {}
    for (d, sd, _, k), r, t, v, pb in zip(jobs, runs, traces, verdicts, probs):
        tr = t["events"]
        ctx.case((d["name"], json.dumps(tr, sort_keys=True)), nontrivial=True)
        judge(ctx, focus, d, dt.expected(d), r, tr, v, pb, "dead-end" in d["classes"])
        by_desc.setdefault(d["name"], (d, []))[1].append(r)
        if len(ctx.samples) < 3 and sd == ctx.seed * 1000:
            ctx.sample({"workflow": {kk: d[kk] for kk in ("name", "steps", "inputs", "outputs", "fail")}, "trace": tr[:12]})
    if focus == "C05":
        # all runs of one workflow must agree with each other on every output port
        for name, (d, rs) in by_desc.items():
            outs = {json.dumps({p: r["token_lists"].get(p) for p in d["outputs"]}, sort_keys=True) for r in rs if not r.get("error")}
            if len(outs) > 1:
                ctx.violation("outputs-differ-between-interleavings:%s" % "+".join(d["classes"]),
                              {"desc": d, "variants": sorted(outs)}, "two runs of %s produced different output ports" % name)
    ctx.count("workflows", len(by_desc))
    ctx.count("real_runs", len(runs))


def judge(ctx, focus, d, exp, r, tr, v, pb, dead):
    name = d["name"]
    detail = {"desc": {k: d[k] for k in ("name", "steps", "inputs", "outputs", "fail", "classes")}, "seed": r["seed"]}
    fails = bool(d.get("fail"))
    cls = "+".join(c for c in d["classes"] if c not in ("random",))
    # -- conformance: the real run must be a behaviour of the specification
    if not v["ok"]:
        ev = v.get("event")
        what = "real trace of %s not explained by Dataflow: %s at event %s: %s" % (name, v["reason"], v.get("prefix"), json.dumps(ev)[:300])
        kind = (ev or {}).get("ev") if isinstance(ev, dict) else "end"
        prop = classify_rejection(v, ev)
        if prop == focus or (focus == "C04" and prop is None):
            if v.get("provenance_only") and isinstance(ev, dict):
                kinds = {s0["name"]: s0["kind"] for s0 in dt.expand(d)["steps"]}
                ctx.violation("provenance:dependees-differ-from-consumed-inputs:%s" % kinds.get(ev.get("step"), "?"), dict(detail, verdict=v, trace=tr),
                              "token %s@%s emitted by %s of %s is linked to %s, which is not the set of tokens it was computed from" % (
                                  ev.get("port"), ev.get("tag"), ev.get("step"), name, ev.get("deps")))
            elif v.get("provenance_only"):
                # accepted once the dependee sets are ignored; the longest matched prefix was not computed (more rejected
                # traces than diagnosis runs)
                ctx.violation("provenance:dependees-differ-from-consumed-inputs:undiagnosed", dict(detail, verdict=v, trace=tr),
                              "a token of %s is linked to other tokens than those it was computed from (the trace is accepted "
                              "only when the recorded dependees are ignored)" % name)
            else:
                ctx.violation("trace-rejected:%s:%s:%s" % (v["reason"], kind, (ev or {}).get("step") if isinstance(ev, dict) else "-"),
                              dict(detail, verdict=v, trace=tr), what)
        else:
            ctx.count("rejections_owned_by_%s" % (prop or "C04"))
        if focus != "C05":
            return      # C05 judges the outputs of the run whatever the conformance verdict
    if focus == "C04":
        if r.get("error") == "HANG":
            ctx.violation("hang:%s" % cls, detail, "executor of %s did not end within the watchdog" % name)
            return
        steps = r["steps"]
        notterm = sorted(n for n, s in steps.items() if not s["terminated"] or s["status"] not in ("completed", "skipped", "failed", "cancelled"))
        if notterm:
            ctx.violation("step-not-terminated:%s" % ("after-raise" if r.get("error") else "after-return"),
                          dict(detail, steps=notterm), "steps %s of %s not terminated after the executor ended" % (notterm, name))
        if r.get("pending_tasks"):
            ctx.violation("dangling-tasks:%s" % ("after-raise" if r.get("error") else "after-return"),
                          dict(detail, tasks=r["pending_tasks"]), "tasks left pending after %s ended: %s" % (name, r["pending_tasks"]))
        if fails and not r.get("error"):
            ctx.violation("failure-not-raised:%s" % cls, detail, "%s has a failing job but the executor returned" % name)
        if not fails and r.get("error"):
            # which steps did close() cancel?  (kinds of the model-level steps whose real status is CANCELLED)
            m0 = dt.expand(d)
            kinds = sorted({s0["kind"] for s0 in m0["steps"] if steps.get(s0["real"], {}).get("status") == "cancelled"})
            if kinds:
                ctx.violation("spurious-raise:close-cancels:%s:%s" % ("dead-end" if dead else "lagging", "+".join(kinds)), dict(detail, cancelled=kinds),
                              "executor raised on %s although nothing failed: close() cancelled running %s step(s)" % (name, "+".join(kinds)))
            else:
                ctx.violation("spurious-raise:%s" % cls, dict(detail, error=r["error"]),
                              "executor raised %s on %s although nothing failed" % (r["error"], name))
        # one termination token per (step, output port)
        cnt = {}
        for e in tr:
            if e["ev"] == "term":
                for p in e["ports"]:
                    cnt[(e["step"], p)] = cnt.get((e["step"], p), 0) + 1
        m = dt.expand(d)
        for s in m["steps"]:
            for p in s["outs"]:
                if cnt.get((s["name"], p), 0) != 1:
                    ctx.violation("termination-token-count:%s" % s["kind"], dict(detail, step=s["name"], port=p, count=cnt.get((s["name"], p), 0)),
                                  "step %s put %d termination tokens on %s" % (s["name"], cnt.get((s["name"], p), 0), p))
    if focus == "C05":
        if not fails and not r.get("error"):
            got = sorted([k, v2] for k, v2 in (r.get("result") or {}).items())
            want = sorted([p, val] for p, _, val in exp["outputs"])
            if got != want:
                ctx.violation("result-differs-from-denotation:%s" % cls, dict(detail, got=got, want=want),
                              "executor.run() of %s returned %s, expected %s" % (name, got, want))
        if not fails:
            for p in d["outputs"]:
                toks = [[t["tag"], t["val"]] for t in r["token_lists"].get(p, []) if t["k"] == "tok"]
                want = [[t, val] for pp, t, val in exp["outputs"] if pp == p]
                if sorted(map(json.dumps, toks)) != sorted(map(json.dumps, want)):
                    ctx.violation("output-port-differs-from-denotation:%s" % cls, dict(detail, port=p, got=toks, want=want),
                                  "output port %s of %s carries %s, expected %s" % (p, name, toks, want))
    if focus == "C07":
        # statement level (Dataflow!JobMatchesGroup): the output of a job step for tag t depends on the JobToken scheduled for t
        kinds = {s0["name"]: s0["kind"] for s0 in dt.expand(d)["steps"]}
        for e in tr:
            if e.get("ev") == "emit" and kinds.get(e.get("step")) == "exec":
                jdeps = [x for x in e.get("deps") or [] if x[0] == e["step"] + ".job"]
                if jdeps and all(x[1] != e["tag"] for x in jdeps):
                    ctx.violation("provenance:job-token-of-another-tag:exec", dict(detail, event=e, trace=tr),
                                  "token %s@%s of %s was computed by (and is linked to) the job scheduled for tag %s" % (
                                      e.get("port"), e.get("tag"), name, jdeps[0][1]))
                    break
        toks_db, prov_db, ports_db = r["db"] if r.get("db") else ({}, [], {})
        want = set()
        for e in r["events"]:
            if e["ev"] == "persist":
                for i in e["inputs"]:
                    want.add((i, e["id"]))
        got = set(map(tuple, prov_db))
        # rows of an emission that a cancellation aborted between add_provenance and the put are legitimate extras:
        # their depender was never put on a port (the statement is about emitted tokens)
        put_ids = {e.get("id") for e in r["events"] if e["ev"] == "put" and e.get("id") is not None}
        extra = {(a, b) for (a, b) in got - want if b in put_ids}
        aborted = {(a, b) for (a, b) in got - want if b not in put_ids}
        if aborted:
            ctx.count("provenance_rows_of_aborted_emissions", len(aborted))
        if want - got or extra:
            ctx.violation("provenance-table-differs-from-recorded-emissions", dict(detail, missing=sorted(want - got)[:10], extra=sorted(extra)[:10]),
                          "provenance table of %s: %d rows missing, %d extra" % (name, len(want - got), len(extra)))
        for a, b in got:
            if not (a in toks_db and b in toks_db):
                ctx.violation("provenance-edge-to-unpersisted-token", dict(detail, edge=[a, b]), "edge %s->%s names a token that is not in the token table" % (a, b))
            elif not a < b:
                ctx.violation("provenance-order:dependee-persisted-after-depender", dict(detail, edge=[a, b]),
                              "dependee %s was persisted after its depender %s" % (a, b))
        # every non-termination token on every port is persisted
        for e in tr:
            if e["ev"] == "rawput":
                ctx.violation("put-without-persist:%s" % e["step"], dict(detail, event=e), "token put on %s without being persisted" % e["port"])


def classify_rejection(v, ev):
    """Which property owns a rejected trace: provenance clauses -> C07; everything else -> C04."""
    if v["reason"].startswith("invariant:Prov") or v["reason"] == "invariant:PutImpliesPersisted":
        return "C07"
    if isinstance(ev, dict) and ev.get("ev") == "rawput":
        return "C07"
    if v.get("provenance_only"):
        return "C07"
    return None


def replay(ctx, data, focus):
    d = data["detail"].get("desc")
    if not d:
        return run_all(ctx, focus)
    seed = data["detail"].get("seed", 0)
    slow = ["nowhere"] if "dead-end" in d.get("classes", []) else (["__deploy__"] if "deploy-lag" in d.get("classes", []) else [])
    r = _worker((d, seed, slow))
    ctx.require("harness_error" not in r, str(r.get("harness_error")))
    tr, pb = dt.to_trace(d, r)
    files = {"TraceI.tla": dt.constants_module([d], module="TraceI", extends="Trace_Dataflow"), "TraceI.cfg": dt.TRACE_CFG}
    v = trace.validate(ctx, "Dataflow", "TraceI", "TraceI.cfg", [{"net": 1, "events": tr}], files=files, dfs=True, extra_env={"IGNORE_DEPS": "0"})[0]
    if not v["ok"] and v["reason"] == "rejected":
        w = trace.validate(ctx, "Dataflow", "TraceI", "TraceI.cfg", [{"net": 1, "events": tr}], files=files, dfs=True,
                           extra_env={"IGNORE_DEPS": "1"}, diagnose=False)[0]
        v["provenance_only"] = bool(w["ok"])
    judge(ctx, focus, d, dt.expected(d), r, tr, v, pb, "dead-end" in d.get("classes", []))
